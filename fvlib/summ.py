"""Interprocedural path summaries over the workspace call graph.

ok_sites(f): blocks from which the function returns *normally with a non-error value*:
   - Result-returning fn: blocks assigning `_0 = Ok(..)` or `_0 = <anything not an Err/from_residual>`
     (a call result or a moved local is treated as possibly-Ok: conservative);
   - otherwise: the return blocks.
Always(S):  every entry -> ok-site path of f passes through a call in S, or through a call all of
            whose workspace targets satisfy Always(S) (least fixpoint, so recursion does not
            justify itself).
Count(S):   (min, max) number of S-calls on entry -> ok-site paths (max = INF through cycles).
Reach-before(E, G): is some call in E reachable from entry (through callees) on a path that has
            not yet passed a call in G ("effect before guard").
"""
import re
from collections import defaultdict, deque

from .core import CFG, calls, callee_matches, callee_name

INF = 10 ** 9


def returns_result(f):
    t = f["locals"][0]
    return t.startswith("std::result::Result<") or t.startswith("core::result::Result<")


def ok_sites(f, cfg):
    if not returns_result(f):
        return set(cfg.exits("ret"))
    out = set()
    for i in cfg.reach:
        bb = f["bbs"][i]
        for s in bb["s"]:
            if s[0] == "=" and s[1] == [0]:
                rv = s[2]
                if rv[0] == "agg" and rv[1].endswith("result::Result"):
                    if rv[2] == "Ok":
                        out.add(i)
                else:
                    out.add(i)
        t = bb["t"]
        if t[0] == "call" and t[3] == [0]:
            if not callee_matches(t[1], r"FromResidual.*::from_residual"):
                out.add(i)
    return out


class Summaries:
    def __init__(self, cg):
        self.cg = cg
        self._cfg = {}
        self._ok = {}

    def cfg(self, n):
        c = self._cfg.get(n)
        if c is None:
            c = CFG(self.cg.fns[n])
            self._cfg[n] = c
        return c

    def oks(self, n):
        o = self._ok.get(n)
        if o is None:
            o = ok_sites(self.cg.fns[n], self.cfg(n))
            self._ok[n] = o
        return o

    # ------------------------------------------------------------------ Always
    def always(self, s_rx, scope=None, extra_true=()):
        """Return dict fn -> bool for all fns in scope (default: all)."""
        s_rx = re.compile(s_rx) if isinstance(s_rx, str) else s_rx
        fns = self.cg.fns
        names = list(scope) if scope is not None else list(fns)
        val = {n: False for n in names}
        for n in extra_true:
            val[n] = True
        # pre-compute per block: direct S call, or list of callee targets
        info = {}
        for n in names:
            f = fns[n]
            direct = set()
            via = defaultdict(list)
            for i, c, args, dest, tgt, line in calls(f):
                if callee_matches(c, s_rx):
                    direct.add(i)
                else:
                    ts = [t for t in self.cg.targets_of(c) if t in fns]
                    if ts:
                        via[i] = ts
            info[n] = (direct, via)
        changed = True
        while changed:
            changed = False
            for n in names:
                if val[n]:
                    continue
                direct, via = info[n]
                sblocks = set(direct)
                for b, ts in via.items():
                    if all(val.get(t, False) for t in ts):
                        sblocks.add(b)
                cfg = self.cfg(n)
                oks = self.oks(n)
                if not oks:
                    # no normal-ok exit at all (always errors / diverges): vacuous
                    ok = True
                else:
                    ok = cfg.must_pass(sblocks, 0, oks)
                if ok:
                    val[n] = True
                    changed = True
        return val

    def always_witness(self, n, s_rx, val):
        """A path (list of blocks) in n from entry to an ok-site avoiding S-blocks."""
        s_rx = re.compile(s_rx) if isinstance(s_rx, str) else s_rx
        f = self.cg.fns[n]
        sblocks = set()
        for i, c, *_ in calls(f):
            if callee_matches(c, s_rx):
                sblocks.add(i)
            else:
                ts = [t for t in self.cg.targets_of(c) if t in self.cg.fns]
                if ts and all(val.get(t, False) for t in ts):
                    sblocks.add(i)
        return self.cfg(n).path_avoiding(sblocks, 0, self.oks(n))

    # ------------------------------------------------------------------ Count
    def count(self, s_rx, roots, depth=6):
        """(min,max) S-calls on entry->ok paths for each root (memoised, depth-bounded:
        beyond the bound a callee counts as (0,0) unless it is in S)."""
        s_rx = re.compile(s_rx) if isinstance(s_rx, str) else s_rx
        memo = {}

        def summ(n, d, stack):
            if n in memo:
                return memo[n]
            if n in stack or d <= 0:
                return (0, 0)
            f = self.cg.fns[n]
            w = {}
            for i, c, args, dest, tgt, line in calls(f):
                if callee_matches(c, s_rx):
                    w[i] = (1, 1)
                else:
                    ts = [t for t in self.cg.targets_of(c) if t in self.cg.fns]
                    if ts:
                        rs = [summ(t, d - 1, stack | {n}) for t in ts]
                        lo = min(r[0] for r in rs)
                        hi = max(r[1] for r in rs)
                        if (lo, hi) != (0, 0):
                            w[i] = (lo, hi)
            cfg = self.cfg(n)
            oks = self.oks(n)
            res = path_minmax(cfg, w, oks)
            memo[n] = res
            return res

        return {r: summ(r, depth, frozenset()) for r in roots}

    # ------------------------------------------------------------------ effect before guard
    def unguarded(self, effect_rx, guard_rx, always_guard=None, scope=None, effect_pred=None):
        """fn -> witness (list of (fn, line, callee)) if an effect call is reachable from the fn's
        entry, through callees, with no guard call passed before; else absent.
        A block counts as guard when it calls guard_rx directly or calls only fns with
        always_guard[fn] True *and* none of them is itself unguarded."""
        effect_rx = re.compile(effect_rx) if isinstance(effect_rx, str) else effect_rx
        guard_rx = re.compile(guard_rx) if isinstance(guard_rx, str) else guard_rx
        fns = self.cg.fns
        names = list(scope) if scope is not None else list(fns)
        always_guard = always_guard or {}
        wit = {}
        changed = True
        while changed:
            changed = False
            for n in names:
                if n in wit:
                    continue
                f = fns[n]
                guard_blocks = set()
                eff = {}
                for i, c, args, dest, tgt, line in calls(f):
                    if callee_matches(c, guard_rx):
                        guard_blocks.add(i)
                        continue
                    is_eff = callee_matches(c, effect_rx) and (effect_pred is None or effect_pred(f, c, args))
                    if is_eff:
                        eff[i] = [(n, line, callee_name(c))]
                        continue
                    ts = [t for t in self.cg.targets_of(c) if t in fns]
                    bad = [t for t in ts if t in wit]
                    if bad:
                        eff[i] = [(n, line, callee_name(c))] + wit[bad[0]]
                    elif ts and all(always_guard.get(t, False) for t in ts):
                        guard_blocks.add(i)
                if not eff:
                    continue
                cfg = self.cfg(n)
                seen = cfg._reach_from([0], avoid=guard_blocks)
                hit = [b for b in eff if b in seen]
                if hit:
                    wit[n] = eff[sorted(hit)[0]]
                    changed = True
        return wit


def path_minmax(cfg, w, targets):
    """min / max total weight over paths entry -> any target block. Blocks on a cycle with
    positive max weight give INF."""
    targets = set(targets) & cfg.reach
    if not targets:
        return (0, 0)
    # restrict to blocks that can reach a target
    can = set(targets)
    dq = deque(targets)
    while dq:
        b = dq.popleft()
        for p in cfg.pred[b]:
            if p in cfg.reach and p not in can:
                can.add(p)
                dq.append(p)
    nodes = [b for b in cfg.reach if b in can]
    if 0 not in can:
        return (0, 0)
    # SCCs (Tarjan, iterative)
    index = {}
    low = {}
    onst = set()
    st = []
    comp = {}
    idx = [0]
    ncomp = [0]
    for root in nodes:
        if root in index:
            continue
        work = [(root, 0)]
        while work:
            v, pi = work[-1]
            if pi == 0:
                index[v] = low[v] = idx[0]
                idx[0] += 1
                st.append(v)
                onst.add(v)
            recurse = False
            succ = [s for s in cfg.succ[v] if s in can]
            for k in range(pi, len(succ)):
                s = succ[k]
                if s not in index:
                    work[-1] = (v, k + 1)
                    work.append((s, 0))
                    recurse = True
                    break
                elif s in onst:
                    low[v] = min(low[v], index[s])
            if recurse:
                continue
            if low[v] == index[v]:
                while True:
                    x = st.pop()
                    onst.discard(x)
                    comp[x] = ncomp[0]
                    if x == v:
                        break
                ncomp[0] += 1
            work.pop()
            if work:
                u = work[-1][0]
                low[u] = min(low[u], low[v])
    members = defaultdict(list)
    for b, c in comp.items():
        members[c].append(b)
    cyc = set()
    for c, ms in members.items():
        if len(ms) > 1 or any(m in cfg.succ[m] for m in ms):
            cyc.add(c)
    cw = {}
    for c, ms in members.items():
        lo = sum(w.get(m, (0, 0))[0] for m in ms) if len(ms) == 1 else 0
        hi = sum(w.get(m, (0, 0))[1] for m in ms)
        if c in cyc:
            lo = min((w.get(m, (0, 0))[0] for m in ms), default=0) if len(ms) == 1 else 0
            hi = INF if hi > 0 else 0
        cw[c] = (lo, hi)
    # DAG edges; Tarjan numbers components in reverse topological order
    cs = defaultdict(set)
    for b in nodes:
        for s in cfg.succ[b]:
            if s in can and comp[s] != comp[b]:
                cs[comp[b]].add(comp[s])
    tcomp = {comp[t] for t in targets}
    best = {}
    for c in range(ncomp[0]):   # reverse topo: successors first
        lo_s, hi_s = [], []
        if c in tcomp:
            lo_s.append(0)
            hi_s.append(0)
        for s in cs[c]:
            if s in best:
                lo_s.append(best[s][0])
                hi_s.append(best[s][1])
        if not lo_s:
            continue
        best[c] = (cw[c][0] + min(lo_s), min(INF, cw[c][1] + max(hi_s)))
    return best.get(comp[0], (0, 0))
