"""fvlib.codec — extract, from MIR, the ordered field sequences of canonical Serialize / Deserialize impls."""
import re

from .core import (CFG, assignments, calls, callee_matches, callee_name, describe, op_place, root_of)

SER_M = ("size_static", "size_dynamic", "encode_static", "encode_dynamic")
DE_M = ("decode_static", "decode_dynamic")
IMPL_RX = re.compile(r"^(?:<(?P<t1>.+) as fuel_types::canonical::(?P<tr1>Serialize|Deserialize)>|(?:[\w:]+::)?_::<impl fuel_types::canonical::(?P<tr2>Serialize|Deserialize) for (?P<t2>.+)>)::(?P<m>\w+)$")


def impls(F, crates=("fuel_types", "fuel_asm", "fuel_tx", "fuel_vm")):
    """{type: {"Serialize": {method: (name, fn)}, "Deserialize": {...}}}"""
    out = {}
    for c in crates:
        for n, f in F.fns(c).items():
            m = IMPL_RX.match(n)
            if not m:
                continue
            t = m.group("t1") or m.group("t2")
            tr = m.group("tr1") or m.group("tr2")
            out.setdefault(t, {}).setdefault(tr, {})[m.group("m")] = (n, f)
    return out


def _order(cfg):
    dom = cfg.dominators()
    return lambda b: (len(dom.get(b, ())), b)


def _field_of(desc):
    """'arg:self.salt' -> (None,'salt');  'arg:self@Coin.0.amount' -> ('Coin','0.amount')"""
    m = re.match(r"^arg:self(?:@(\w+))?\.(.+)$", desc)
    if not m:
        return None
    return m.group(1), m.group(2)


def self_field_calls(f, method):
    """ordered [(variant, field, callee-self-type, bb, line)] of calls `<_ as Trait>::method(&self.field, ..)`"""
    cfg = CFG(f)
    key = _order(cfg)
    out = []
    for i, c, args, dest, tgt, line in calls(f):
        if i not in cfg.reach:
            continue
        nm = callee_name(c)
        if not re.search(r"canonical::(Serialize|Deserialize)(>| for .*>)?::%s$" % method, nm) and not re.search(r"::%s$" % method, nm):
            continue
        if not args:
            continue
        fo = _field_of(describe(f, args[0], depth=6))
        if fo is None:
            continue
        out.append((fo[0], fo[1], callee_self(c), i, line))
    out.sort(key=lambda x: key(x[3]))
    return out


def callee_self(c):
    s = c.get("self")
    if s:
        return s
    nm = callee_name(c)
    m = IMPL_RX.match(nm)
    if m:
        return m.group("t1") or m.group("t2")
    m = re.match(r"^<(.+) as [\w:]+>::\w+$", nm)
    return m.group(1) if m else nm


def producer(f, o, depth=8):
    """what produced operand o: ('call', bb, callee) through `?`/copies, ('default',), ('const', k) or None"""
    for _ in range(depth):
        if o[0] == "k":
            return ("const", o[1])
        r = root_of(f, o[1][0], 14)
        if isinstance(r, tuple) and r[0] == "call":
            c = r[1]
            if callee_matches(c, r"Try(<[^>]*>)?>?::branch$") and r[2]:
                o = r[2][0]
                continue
            if callee_matches(c, r"default::Default(>| for .*>)?::default$"):
                return ("default",)
            return ("call", r[3], c)
        if isinstance(r, tuple) and r[0] == "const":
            return ("const", r[1])
        return None
    return None


def decode_static_layout(f, adt_rx):
    """For each aggregate of the ADT built in decode_static: (variant, [(field, producer)...] in *decoding order*)"""
    cfg = CFG(f)
    key = _order(cfg)
    out = []
    for i, j, p, rv, line in assignments(f):
        if rv[0] != "agg" or not re.search(adt_rx, rv[1]) or i not in cfg.reach:
            continue
        fields = []
        for name, o in zip(rv[4] if rv[4] else [str(k) for k in range(len(rv[3]))], rv[3]):
            fields.append((name, producer(f, o)))
        dec = [(nm, pr) for nm, pr in fields if pr and pr[0] == "call" and callee_matches(pr[2], r"::decode_static$")]
        dec.sort(key=lambda x: key(x[1][1]))
        out.append({"variant": rv[2], "bb": i, "line": line, "fields": fields, "decoded": dec})
    return out


# ------------------------------------------------------------------ small constant folder
def eval_promoted(f, idx):
    """Value of promoted #idx of f: int | ('variant', adt, name, [values]) | None"""
    pb = (f.get("pbodies") or [])
    if idx >= len(pb):
        return None
    env = {}

    def op(o):
        if o[0] == "k":
            k = o[1]
            if isinstance(k.get("v"), (int, bool)):
                return int(k["v"])
            return None
        p = o[1]
        v = env.get(p[0])
        for e in p[1:]:
            if e == "*":
                continue
            if isinstance(e, list) and e[0] == "f" and isinstance(v, tuple) and v and v[0] == "pair":
                v = v[1 + e[1]]
            elif isinstance(e, list) and e[0] == "f" and isinstance(v, tuple) and v and v[0] == "variant":
                v = v[3][e[1]] if e[1] < len(v[3]) else None
            else:
                return None
        return v
    for bb in pb[idx]:
        for s in bb["s"]:
            if s[0] != "=" or len(s[1]) != 1:
                continue
            rv = s[2]
            val = None
            if rv[0] == "use":
                val = op(rv[1])
            elif rv[0] in ("ref", "raw"):
                val = op(["cp", rv[2]])
            elif rv[0] == "cast":
                val = op(rv[2])
                if isinstance(val, tuple) and val[0] == "variant" and isinstance(val[4] if len(val) > 4 else None, int):
                    val = val[4]
            elif rv[0] == "bin":
                a, b = op(rv[2]), op(rv[3])
                o_ = re.sub(r"(WithOverflow|Unchecked)$", "", rv[1])
                if isinstance(a, int) and isinstance(b, int) and o_ in ("Add", "Sub", "Mul"):
                    r = {"Add": a + b, "Sub": a - b, "Mul": a * b}[o_]
                    val = ("pair", r, 0) if rv[1].endswith("WithOverflow") else r
            elif rv[0] == "agg":
                val = ("variant", rv[1], rv[2], [op(x) for x in rv[3]])
            env[s[1][0]] = val
    return env.get(0)


def fold(f, o, depth=10):
    """Constant value of operand o in f, or None.  Handles literals, promoteds, +,-,* chains, casts,
    discriminant-of-constant-enum, `.0` of a checked arithmetic pair."""
    if depth <= 0:
        return None
    if o[0] == "k":
        k = o[1]
        if "promoted" in k:
            return eval_promoted(f, k["promoted"])
        if isinstance(k.get("v"), (int, bool)):
            return int(k["v"])
        return None
    p = o[1]
    from .core import defs_of_local
    ds = [d for d in defs_of_local(f).get(p[0], []) if d[0] in ("assign", "call")]
    if len(ds) != 1 or ds[0][0] != "assign":
        return None
    rv = ds[0][3]
    rest = [e for e in p[1:] if e != "*"]
    val = None
    if rv[0] == "use":
        val = fold(f, rv[1], depth - 1)
    elif rv[0] in ("ref", "raw"):
        val = fold(f, ["cp", rv[2]], depth - 1)
    elif rv[0] == "cast":
        val = fold(f, rv[2], depth - 1)
    elif rv[0] == "disc":
        val = fold(f, ["cp", rv[1]], depth - 1)
    elif rv[0] == "bin":
        a, b = fold(f, rv[2], depth - 1), fold(f, rv[3], depth - 1)
        o_ = re.sub(r"(WithOverflow|Unchecked)$", "", rv[1])
        if isinstance(a, int) and isinstance(b, int) and o_ in ("Add", "Sub", "Mul"):
            r = {"Add": a + b, "Sub": a - b, "Mul": a * b}[o_]
            val = ("pair", r, 0) if rv[1].endswith("WithOverflow") else r
    for e in rest:
        if isinstance(e, list) and e[0] == "f" and isinstance(val, tuple) and val and val[0] == "pair":
            val = val[1 + e[1]]
        elif isinstance(e, list) and e[0] == "f" and isinstance(val, tuple) and val and val[0] == "variant":
            val = val[3][e[1]] if e[1] < len(val[3]) else None
        else:
            return None
    return val
