"""Tiny constant folder over straight-line MIR of zero-argument `const fn`s (offset helpers).
Not an execution of program logic on inputs: the functions have no inputs; this is constant
propagation over their MIR."""
import re

from .core import callee_name, kvalue


class NotConst(Exception):
    pass


def eval_fn(F, name, depth=12):
    f = F.fn(name)
    if f is None:
        raise NotConst("no body for " + name)
    if f["argc"] != 0:
        raise NotConst(name + " takes arguments")
    if depth <= 0:
        raise NotConst("depth")
    env = {}

    def val_op(o):
        if o[0] == "k":
            v = kvalue(f, o[1])
            if v is None:
                raise NotConst("non-integer constant in " + name)
            return int(v) if not isinstance(v, int) else v
        p = o[1]
        v = env.get(p[0])
        for e in p[1:]:
            if isinstance(e, list) and e[0] == "f":
                v = v[e[1]]
            else:
                raise NotConst("projection")
        if v is None:
            raise NotConst("unset local _%d in %s" % (p[0], name))
        return v

    b = 0
    steps = 0
    while True:
        steps += 1
        if steps > 200:
            raise NotConst("loop")
        bb = f["bbs"][b]
        for s in bb["s"]:
            if s[0] != "=":
                continue
            p, rv = s[1], s[2]
            if len(p) != 1:
                raise NotConst("partial assign")
            k = rv[0]
            if k == "use":
                env[p[0]] = val_op(rv[1])
            elif k == "cast":
                env[p[0]] = val_op(rv[2])
            elif k == "bin":
                a, c = val_op(rv[2]), val_op(rv[3])
                op = rv[1]
                base = op.replace("WithOverflow", "").replace("Unchecked", "")
                r = {"Add": a + c, "Sub": a - c, "Mul": a * c}.get(base)
                if r is None:
                    raise NotConst("binop " + op)
                env[p[0]] = (r, False) if op.endswith("WithOverflow") else r
            elif k == "agg" and rv[1] == "(tuple)":
                env[p[0]] = tuple(val_op(x) for x in rv[3])
            else:
                raise NotConst("rvalue " + k)
        t = bb["t"]
        if t[0] == "goto":
            b = t[1]
        elif t[0] == "assert":
            b = t[4]
        elif t[0] == "ret":
            return env.get(0)
        elif t[0] == "call":
            cn = callee_name(t[1])
            args = [val_op(a) for a in t[2]]
            m = re.search(r"::(saturating_add|saturating_mul|saturating_sub|wrapping_add|wrapping_mul)$", cn)
            if m and len(args) == 2:
                a, c = args
                r = {"saturating_add": min(a + c, 2 ** 64 - 1), "saturating_mul": min(a * c, 2 ** 64 - 1), "saturating_sub": max(a - c, 0),
                     "wrapping_add": (a + c) % 2 ** 64, "wrapping_mul": (a * c) % 2 ** 64}[m.group(1)]
            elif not args:
                r = eval_fn(F, cn, depth - 1)
            else:
                raise NotConst("call " + cn)
            if len(t[3]) != 1:
                raise NotConst("call dest")
            env[t[3][0]] = r
            b = t[4]
        else:
            raise NotConst("terminator " + t[0])
