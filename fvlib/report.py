"""Report: collects obligations / violations for one property run, handles known findings,
writes evidence JSON and replay files, prints the interface lines."""
import json
import os
import time

VERIF = os.path.dirname(os.path.dirname(os.path.abspath(__file__)))


EVDIR = os.environ.get("FV_EVIDENCE_DIR") or os.path.join(VERIF, "evidence")  # developer override only


class Report:
    def __init__(self, pid, tier="quick", level="other"):
        self.pid = pid
        self.tier = tier
        self.level = level
        self.t0 = time.time()
        self.obligations = []     # dicts: rule, key, ok(bool), detail
        self.violations = []      # dicts: rule, key, where, detail
        self.info = []
        self.rules = {}           # rule -> description
        self.samples = []
        self.assumptions = []
        self.undecided = []
        self.analysed_fns = set()
        self.extra = {}

    # -- recording ---------------------------------------------------------
    def rule(self, name, desc):
        self.rules[name] = desc

    def ok(self, rule, key, detail=None):
        self.obligations.append({"rule": rule, "key": key, "ok": True, "detail": detail})

    def bad(self, rule, key, where=None, detail=None):
        """A violated obligation. key must be stable (no line numbers)."""
        self.obligations.append({"rule": rule, "key": key, "ok": False, "detail": detail})
        self.violations.append({"rule": rule, "key": key, "where": where, "detail": detail})

    def check(self, cond, rule, key, where=None, detail=None):
        if cond:
            self.ok(rule, key, detail if isinstance(detail, str) and len(detail) < 200 else None)
        else:
            self.bad(rule, key, where, detail)
        return cond

    def note(self, text):
        self.info.append(text)

    def sample(self, s):
        if len(self.samples) < 40:
            self.samples.append(s)

    def floor(self, rule, what, count, minimum):
        """Fail closed when fewer instances than counted by hand were matched."""
        if count < minimum:
            self.undecided.append("%s: %s matched %d instances, floor is %d" % (rule, what, count, minimum))
        else:
            self.info.append("%s: %s = %d (floor %d)" % (rule, what, count, minimum))

    def anchor_missing(self, text):
        self.undecided.append("anchor missing: " + text)

    def saw(self, fn_name):
        self.analysed_fns.add(fn_name)

    # -- finishing ---------------------------------------------------------
    def finish(self):
        known = load_known(self.pid)
        new = []
        printed_known = []
        for v in self.violations:
            kk = "%s|%s" % (v["rule"], v["key"])
            if kk in known:
                printed_known.append((kk, known[kk]))
            else:
                new.append(v)
        wall = time.time() - self.t0
        os.makedirs(os.path.join(EVDIR, "replay"), exist_ok=True)
        n_ob = len(self.obligations)
        n_ok = sum(1 for o in self.obligations if o["ok"])
        cov = {
            "explanation": "Static analysis of the type-checked program (MIR facts dumped by the "
                           "fvfacts rustc driver from /repo's current working tree). Rules applied: "
                           + "; ".join("%s = %s" % kv for kv in sorted(self.rules.items())),
            "obligations": n_ob,
            "discharged": n_ok,
            "rules": self.rules,
            "functions_analysed": len(self.analysed_fns),
            "functions_analysed_sample": sorted(self.analysed_fns)[:25],
            "samples": self.samples or [o for o in self.obligations[:10]],
            "obligation_list": [
                {"rule": o["rule"], "key": o["key"], "ok": o["ok"]} for o in self.obligations[:400]
            ],
            "info": self.info[:200],
            "known_findings_matched": [k for k, _ in printed_known],
            "undecided": self.undecided,
        }
        cov.update(self.extra)
        if self.level == "proof":
            cov.setdefault("checker_cmd", "./check %s" % self.pid)
            cov.setdefault("trusted_base", ["rustc MIR construction", "fvfacts dump", "fvlib transfer functions"])
        ev = {
            "property_id": self.pid,
            "tier": self.tier,
            "seed": int(os.environ.get("VERIF_SEED", "0") or 0),
            "level": self.level,
            "coverage": cov,
            "assumptions": self.assumptions,
            "wall_s": round(wall, 2),
            "violations": len(new),
        }
        with open(os.path.join(EVDIR, self.pid + ".json"), "w") as fh:
            json.dump(ev, fh, indent=1, sort_keys=False)
        print("%s: %d obligations, %d discharged, %d functions analysed, %.1fs"
              % (self.pid, n_ob, n_ok, len(self.analysed_fns), wall))
        for kk, desc in printed_known:
            print("KNOWN-FINDING: property=%s %s [%s]" % (self.pid, desc, kk))
        rc = 0
        for idx, v in enumerate(new):
            path = os.path.join(EVDIR, "replay", "%s-%d.json" % (self.pid, idx))
            with open(path, "w") as fh:
                json.dump(v, fh, indent=1)
            print("VIOLATION property=%s replay=%s" % (self.pid, path))
            print("  rule=%s key=%s" % (v["rule"], v["key"]))
            if v.get("where"):
                print("  at %s" % v["where"])
            if v.get("detail"):
                d = v["detail"] if isinstance(v["detail"], str) else json.dumps(v["detail"])
                print("  %s" % d[:1500])
            rc = 1
        if rc == 0 and self.undecided:
            for u in self.undecided:
                print("UNDECIDED %s: %s" % (self.pid, u))
            rc = 2
        return rc


def load_known(pid):
    """known_findings.json: {"findings":[{"property":..,"key":"rule|key","desc":..}], "fixed":[...]}"""
    p = os.path.join(VERIF, "known_findings.json")
    out = {}
    if os.path.exists(p):
        with open(p) as fh:
            kf = json.load(fh)
        for f in kf.get("findings", []):
            if f["property"] == pid:
                out[f["key"]] = f["desc"]
    return out
