"""Case-splitting constant propagation over one function's MIR (an abstract interpretation, not an execution).

`explore(f, oracle)` walks the CFG from the entry with an environment local -> known int/bool (anything else is
unknown). `oracle(kind, desc)` fixes the abstract case under study: it may give a value to a call result (kind "call",
desc = describe() of the call) or to an enum discriminant (kind "disc", desc = describe() of the place); constants,
copies, casts, integer / boolean operators and comparisons are folded; a switch on a known value follows that edge, a
switch on an unknown value follows every edge (over-approximation). Returns the set of blocks that can be reached.
Rules use it for small predicates written with boolean flags (`let a = ..; let b = ..; if a && !b || ..`), where no
single branch corresponds to the specified condition."""
from .core import CMP_REGION, callee_name, describe, kvalue


STD_DISCR = {"None": 0, "Some": 1, "Ok": 0, "Err": 1, "Continue": 0, "Break": 1}


def _fold_bin(op, a, b):
    if a is None or b is None:
        # short-circuit knowledge of absorbing elements
        if op == "BitAnd" and (a is False or b is False or a == 0 and a is not None or b == 0 and b is not None):
            return False if isinstance(a, bool) or isinstance(b, bool) else 0
        if op == "BitOr" and (a is True or b is True):
            return True
        return None
    base = op.replace("WithOverflow", "").replace("Unchecked", "")
    try:
        if base == "Add":
            return a + b
        if base == "Sub":
            return a - b
        if base == "Mul":
            return a * b
        if base == "Eq":
            return a == b
        if base == "Ne":
            return a != b
        if base == "Lt":
            return a < b
        if base == "Le":
            return a <= b
        if base == "Gt":
            return a > b
        if base == "Ge":
            return a >= b
        if base == "BitAnd":
            return (a and b) if isinstance(a, bool) and isinstance(b, bool) else (int(a) & int(b))
        if base == "BitOr":
            return (a or b) if isinstance(a, bool) and isinstance(b, bool) else (int(a) | int(b))
        if base == "BitXor":
            return (a != b) if isinstance(a, bool) and isinstance(b, bool) else (int(a) ^ int(b))
    except Exception:
        return None
    return None


def explore(f, oracle, max_states=4000):
    bbs = f["bbs"]
    reached = set()
    seen = set()
    todo = [(0, {})]
    n = 0
    while todo:
        b, env = todo.pop()
        key = (b, tuple(sorted((k, v) for k, v in env.items() if v is not None)))
        if key in seen:
            continue
        seen.add(key)
        n += 1
        if n > max_states:
            return None
        reached.add(b)
        env = dict(env)
        bb = bbs[b]

        def val(o):
            if o[0] == "k":
                v = kvalue(f, o[1])
                if isinstance(v, (int, bool)):
                    return bool(v) if o[1].get("t") == "bool" else v
                c = oracle("const", str(o[1].get("const") or ""))
                return c
            p = o[1]
            if len(p) == 1:
                return env.get(p[0])
            if len(p) == 2 and isinstance(p[1], list) and p[1][0] == "f" and isinstance(env.get(p[0]), tuple):
                t = env[p[0]]
                return t[p[1][1]] if p[1][1] < len(t) else None
            if all(e == "*" or e == "oc" for e in p[1:]):
                return env.get(p[0])
            return None
        for s in bb["s"]:
            if s[0] != "=" or len(s[1]) != 1:
                continue
            d, rv = s[1][0], s[2]
            k = rv[0]
            v = None
            if k == "use":
                v = val(rv[1])
            elif k == "cast":
                v = val(rv[2])
                if isinstance(v, bool):
                    v = int(v)
            elif k in ("ref", "raw"):
                v = env.get(rv[2][0]) if len(rv[2]) == 1 else None
            elif k == "bin":
                v = _fold_bin(rv[1], val(rv[2]), val(rv[3]))
                if rv[1].endswith("WithOverflow") and v is not None:
                    v = (v, False)
            elif k == "un":
                a = val(rv[2])
                if a is not None and rv[1] == "Not":
                    v = (not a) if isinstance(a, bool) else None
            elif k == "disc":
                cur = env.get(rv[1][0]) if len(rv[1]) == 1 or all(e == "*" or e == "oc" for e in rv[1][1:]) else None
                if isinstance(cur, tuple) and len(cur) == 3 and cur[0] == "variant":
                    v = STD_DISCR.get(cur[2])
                    if v is None:
                        v = oracle("variant", "%s::%s" % (cur[1], cur[2]))
                else:
                    v = oracle("disc", describe(f, ["cp", rv[1]], depth=8))
            elif k == "agg" and rv[2]:
                v = ("variant", rv[1], rv[2])        # an enum value built here: its discriminant is known
            env[d] = v
        t = bb["t"]
        if t[0] == "goto":
            todo.append((t[1], env))
        elif t[0] == "switch":
            v = val(t[1])
            if v is None:
                for x in set([tg for _, tg in t[2]] + [t[3]]):
                    todo.append((x, env))
            else:
                iv = int(v)
                tgt = t[3]
                for cv, tg in t[2]:
                    if cv == iv:
                        tgt = tg
                todo.append((tgt, env))
        elif t[0] == "call":
            if t[4] is not None:
                if t[3] is not None and len(t[3]) == 1:
                    args = ",".join(describe(f, a, depth=8) for a in t[2])
                    r = oracle("call", "call:%s(%s)" % (callee_name(t[1]).rsplit("::", 1)[-1], args))
                    nm = callee_name(t[1])
                    if r is None and nm.endswith("::eq") and len(t[2]) == 2:
                        r = _fold_bin("Eq", val(t[2][0]), val(t[2][1]))
                    if r is None and nm.endswith("::ne") and len(t[2]) == 2:
                        r = _fold_bin("Ne", val(t[2][0]), val(t[2][1]))
                    env[t[3][0]] = r
                todo.append((t[4], env))
        elif t[0] == "assert":
            todo.append((t[4], env))
        elif t[0] == "drop":
            todo.append((t[2], env))
    return reached
