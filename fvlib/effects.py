"""Field write-set (may / must) analysis over MIR facts."""
import re
from collections import defaultdict

from .core import CFG, assignments, calls, callee_matches


def first_field_of(place, adt_rx):
    """Name of the first projected field that belongs to an ADT matching adt_rx, or None."""
    for e in place[1:]:
        if isinstance(e, list) and e[0] == "f" and re.search(adt_rx, e[3]):
            return e[2] if e[2] else str(e[1])
    return None


def direct_field_writes(f, adt_rx):
    """[(bb, field, kind, line)] kind in assign|mutref|calldest"""
    out = []
    for i, j, p, rv, line in assignments(f):
        fld = first_field_of(p, adt_rx)
        if fld is not None:
            out.append((i, fld, "assign", line))
        if rv[0] == "ref" and rv[1] == "mut" or rv[0] == "raw" and "Mut" in rv[1]:
            fld = first_field_of(rv[2], adt_rx)
            if fld is not None:
                out.append((i, fld, "mutref", line))
    for i, c, args, dest, tgt, line in calls(f):
        if dest is not None:
            fld = first_field_of(dest, adt_rx)
            if fld is not None:
                out.append((i, fld, "calldest", line))
    return out


def takes_mut_handle(f, ty_rx):
    """Does fn f take an argument whose type matches `&mut <ADT>` (ty_rx on the type string)?"""
    for t in f["locals"][1:f["argc"] + 1]:
        if re.search(r"^&mut " + ty_rx, t):
            return True
    return False


def closure_captures_handle(f, ty_rx):
    """closure bodies: _1 is the closure env; captured upvars appear as fields of (closure)."""
    return f["kind"] == "Closure"


class FieldEffects:
    """May-write sets of the fields of one ADT, per function, transitive through calls that
    pass a `&mut ADT` handle and through closures created by the function."""

    def __init__(self, cg, adt_rx, ty_rx=None):
        self.cg = cg
        self.adt_rx = adt_rx
        self.ty_rx = ty_rx or adt_rx
        self.direct = {}
        for n, f in cg.fns.items():
            w = direct_field_writes(f, adt_rx)
            if w:
                self.direct[n] = w
        # closures by parent
        self.closures = defaultdict(list)
        for n, f in cg.fns.items():
            if f["kind"] == "Closure":
                self.closures[f["parent"]].append(n)
        self._may = {}

    def _handle_callees(self, n):
        """Workspace callees of n that receive a &mut ADT handle, plus n's closures."""
        f = self.cg.fns[n]
        out = []
        for i, c, args, dest, tgt, line in calls(f):
            for t in self.cg.targets_of(c):
                g = self.cg.fns.get(t)
                if g is not None and takes_mut_handle(g, self.ty_rx):
                    out.append((i, t))
        for cn in self.closures.get(n, []):
            out.append((None, cn))
        return out

    def may(self, n, _stack=None):
        """field -> list of (fn, kind, line) witnesses"""
        if n in self._may:
            return self._may[n]
        _stack = _stack or set()
        if n in _stack:
            return {}
        _stack = _stack | {n}
        res = defaultdict(list)
        for (bb, fld, kind, line) in self.direct.get(n, []):
            res[fld].append((n, kind, line))
        for bb, t in self._handle_callees(n):
            for fld, ws in self.may(t, _stack).items():
                res[fld].extend(ws[:2])
        res = dict(res)
        if len(_stack) == 1:
            self._may[n] = res
        return res

    def must(self, n):
        """Fields written on *every* path from entry to return of n (block-level; a call to a
        handle-taking callee counts as writing that callee's may-set — used for small reset
        functions only)."""
        f = self.cg.fns[n]
        cfg = CFG(f)
        blocks = defaultdict(set)
        for (bb, fld, kind, line) in self.direct.get(n, []):
            blocks[fld].add(bb)
        for bb, t in self._handle_callees(n):
            if bb is None:
                continue
            for fld in self.may(t):
                blocks[fld].add(bb)
        out = set()
        for fld, bs in blocks.items():
            if cfg.must_pass(bs):
                out.add(fld)
        return out


RESET_CALLEES = re.compile(r"::(clear|reset|truncate)$")


def _exact_field(place, adt_rx):
    """If `place` is exactly <base>.field (field of ADT matching adt_rx is the last projection
    element, only derefs before it), return the field name."""
    proj = place[1:]
    if not proj:
        return None
    last = proj[-1]
    if isinstance(last, list) and last[0] == "f" and re.search(adt_rx, last[3]):
        if all(e == "*" or e == "oc" for e in proj[:-1]):
            return last[2] if last[2] else str(last[1])
    return None


def reset_writes(f, adt_rx):
    """Whole-field overwrites: [(bb, field, kind, line)], kind in
    assign (field = value), calldest (field = call()), reset-call (clear/reset/truncate(&mut field))."""
    from .core import forward_aliases, op_place, callee_name
    out = []
    seeds = {}
    for i, j, p, rv, line in assignments(f):
        fld = _exact_field(p, adt_rx)
        if fld is not None:
            out.append((i, fld, "assign", line))
        if len(p) == 1 and rv[0] == "ref" and rv[1] == "mut":
            fld = _exact_field(rv[2], adt_rx)
            if fld is not None:
                seeds[p[0]] = fld
    for i, c, args, dest, tgt, line in calls(f):
        if dest is not None:
            fld = _exact_field(dest, adt_rx)
            if fld is not None:
                out.append((i, fld, "calldest", line))
    if seeds:
        for s, fld in seeds.items():
            al = forward_aliases(f, {s})
            for i, c, args, dest, tgt, line in calls(f):
                if args and RESET_CALLEES.search(callee_name(c)):
                    p = op_place(args[0])
                    if p is not None and p[0] in al and all(e == "*" for e in p[1:]):
                        out.append((i, fld, "reset-call:" + callee_name(c).rsplit("::", 1)[-1], line))
    return out


class ResetCoverage:
    """must-reset analysis for an init function over the fields of one ADT."""

    def __init__(self, fe):
        self.fe = fe          # FieldEffects
        self.cg = fe.cg
        self._direct = {}

    def direct(self, n):
        if n not in self._direct:
            self._direct[n] = reset_writes(self.cg.fns[n], self.fe.adt_rx)
        return self._direct[n]

    def may_reset(self, n, stack=()):
        if n in stack:
            return set()
        s = {fld for (_, fld, _, _) in self.direct(n)}
        for bb, t in self.fe._handle_callees(n):
            s |= self.may_reset(t, stack + (n,))
        return s

    def must_reset(self, n):
        """fields reset on every entry->ok path of n (calls to handle-taking callees count with
        their may-reset set at the calling block)."""
        from .summ import ok_sites
        f = self.cg.fns[n]
        cfg = CFG(f)
        blocks = defaultdict(set)
        for (bb, fld, kind, line) in self.direct(n):
            blocks[fld].add(bb)
        for bb, t in self.fe._handle_callees(n):
            if bb is None:
                continue
            for fld in self.may_reset(t):
                blocks[fld].add(bb)
        oks = ok_sites(f, cfg)
        out = {}
        for fld, bs in blocks.items():
            if cfg.must_pass(bs, 0, oks):
                out[fld] = sorted(bs)
        return out
