"""fvlib.bits — abstract interpretation of loop-free MIR over a bit-provenance domain.

Every bit of every integer value is one of
    0 | 1 | ("b", input-name, bit-index) | "T"  (unknown)
Aggregates (newtype structs, tuples, arrays) are trees of such integers.  The transfer functions are exact for the
operations that occur in fuel-asm's pack/unpack code: constant shifts, BitAnd/BitOr (bitwise, with the lattice rules
0&x=0, 1&x=x, 0|x=x, 1|x=1, x&x=x|x=x, otherwise T), integer casts (zero-extend / truncate of unsigned values),
u32::{to,from}_be_bytes, array/tuple/struct aggregates and constant-index / field projections, Eq/Ne against a
constant (result: ("eq0", bits) = "all these bits are zero").  Anything else evaluates to T, which makes the
obligation using it undischarged (fail closed).  Calls to workspace functions are evaluated recursively (bounded depth).
No loops, no joins: a `switch` on an unknown value evaluates the function to T.
"""
import re

T = "T"
INT_W = {"u8": 8, "u16": 16, "u32": 32, "u64": 64, "usize": 64, "i32": 32, "i64": 64, "u128": 128, "bool": 1}


class Top(Exception):
    pass


def const_int(v, w):
    return ("int", w, [(v >> i) & 1 for i in range(w)])


def sym_int(name, w, live=None):
    """w-bit value whose low `live` bits are symbolic input bits and the rest zero"""
    live = w if live is None else live
    return ("int", w, [("b", name, i) if i < live else 0 for i in range(w)])


def b_and(a, b):
    if a == 0 or b == 0:
        return 0
    if a == 1:
        return b
    if b == 1:
        return a
    if a == b:
        return a
    return T


def b_or(a, b):
    if a == 1 or b == 1:
        return 1
    if a == 0:
        return b
    if b == 0:
        return a
    if a == b:
        return a
    return T


def b_xor(a, b):
    if a == 0:
        return b
    if b == 0:
        return a
    if a == b and a != T:
        return 0
    return T


def as_const(v):
    if v and v[0] == "int" and all(x in (0, 1) for x in v[2]):
        return sum(x << i for i, x in enumerate(v[2]))
    return None


class Interp:
    def __init__(self, facts, crates=("fuel_asm",), max_depth=12):
        self.F = facts
        self.crates = crates
        self.max_depth = max_depth
        self.trace = []
        self._fn_cache = {}
        self._cur = None

    def fn(self, name):
        if name not in self._fn_cache:
            f = None
            for c in self.crates:
                f = self.F.fns(c).get(name)
                if f is not None:
                    break
            self._fn_cache[name] = f
        return self._fn_cache[name]

    # ---- types
    def type_value_const(self, k, f=None):
        t = k.get("t", "")
        if "promoted" in k and f is not None:
            m = re.match(r"^&\[(u8|u16|u32|u64); (\d+)\]$", t)
            pr = (f.get("proms") or [])
            if m and k["promoted"] < len(pr) and len(pr[k["promoted"]]) == 1 and isinstance(pr[k["promoted"]][0].get("v"), int):
                return ("array", [const_int(pr[k["promoted"]][0]["v"], INT_W[m.group(1)])] * int(m.group(2)))
            return T
        if "v" in k and isinstance(k["v"], bool):
            return ("int", 1, [1 if k["v"] else 0])
        if "v" in k and isinstance(k["v"], int):
            if t in INT_W:
                return const_int(k["v"], INT_W[t])
            # newtype scalar constant (e.g. Imm12::MAX = 4095_fuel_asm::Imm12)
            adt = None
            try:
                adt = self.F.adt(t)
            except Exception:
                adt = None
            if adt and adt["kind"] == "Struct" and len(adt["variants"][0]["fields"]) == 1:
                ft = adt["variants"][0]["fields"][0][1]
                if ft in INT_W:
                    return ("struct", t, {0: const_int(k["v"], INT_W[ft])})
        if "vs" in k and isinstance(k["vs"], list) and all(isinstance(x, int) for x in k["vs"]):
            return ("array", [const_int(x, 8) for x in k["vs"]])
        return T

    # ---- places
    def read_place(self, env, p):
        v = env.get(p[0], T)
        for e in p[1:]:
            if v == T:
                return T
            if e == "*" or e == "oc":
                continue
            if e[0] == "f":
                if v[0] == "struct":
                    v = v[2].get(e[1], T)
                elif v[0] == "tuple":
                    v = v[1][e[1]] if e[1] < len(v[1]) else T
                else:
                    return T
            elif e[0] == "c":
                if v[0] == "array" and not e[3] and e[1] < len(v[1]):
                    v = v[1][e[1]]
                else:
                    return T
            else:
                return T
        return v

    def write_place(self, env, p, val):
        if len(p) == 1:
            env[p[0]] = val
            return
        # single-level field / const-index write into an existing aggregate
        base = env.get(p[0], T)
        e = p[1]
        if len(p) == 2 and base != T and isinstance(e, list):
            if e[0] == "f" and base[0] == "struct":
                d = dict(base[2])
                d[e[1]] = val
                env[p[0]] = ("struct", base[1], d)
                return
            if e[0] == "f" and base[0] == "tuple":
                l = list(base[1])
                l[e[1]] = val
                env[p[0]] = ("tuple", l)
                return
            if e[0] == "c" and base[0] == "array" and not e[3]:
                l = list(base[1])
                l[e[1]] = val
                env[p[0]] = ("array", l)
                return
        env[p[0]] = T

    def operand(self, env, o):
        if o[0] == "k":
            return self.type_value_const(o[1], self._cur)
        return self.read_place(env, o[1])

    # ---- rvalues
    def rvalue(self, f, env, rv, dest_ty):
        k = rv[0]
        if k == "use":
            return self.operand(env, rv[1])
        if k in ("ref", "raw"):
            return self.read_place(env, rv[2])          # references are transparent (no mutation through them here)
        if k == "cast":
            v = self.operand(env, rv[2])
            w = INT_W.get(rv[3])
            if v == T or w is None or v[0] != "int":
                return T
            bits = list(v[2][:w]) + [0] * max(0, w - len(v[2]))     # unsigned sources only (checked by caller's types)
            return ("int", w, bits)
        if k == "bin":
            op = re.sub(r"(WithOverflow|Unchecked)$", "", rv[1])
            a, b = self.operand(env, rv[2]), self.operand(env, rv[3])
            if a == T or b == T:
                return T
            if op in ("Shl", "Shr"):
                n = as_const(b)
                if a[0] != "int" or n is None:
                    return T
                w = a[1]
                if n >= w:
                    return T
                if op == "Shl":
                    return ("int", w, [0] * n + list(a[2][:w - n]))
                return ("int", w, list(a[2][n:]) + [0] * n)
            if op in ("BitAnd", "BitOr", "BitXor"):
                if a[0] != "int" or b[0] != "int" or a[1] != b[1]:
                    return T
                fn = {"BitAnd": b_and, "BitOr": b_or, "BitXor": b_xor}[op]
                return ("int", a[1], [fn(x, y) for x, y in zip(a[2], b[2])])
            if op in ("Eq", "Ne"):
                if a[0] == "int" and b[0] == "int":
                    ca, cb = as_const(a), as_const(b)
                    if ca is not None and cb is not None:
                        r = (ca == cb) if op == "Eq" else (ca != cb)
                        return ("int", 1, [1 if r else 0])
                    other, c = (a, cb) if cb is not None else (b, ca)
                    if c == 0:
                        return ("eq0" if op == "Eq" else "ne0", [x for x in other[2] if x != 0])
                return T
            if op in ("Lt", "Le", "Gt", "Ge"):
                ca, cb = as_const(a), as_const(b)
                if ca is not None and cb is not None:
                    r = {"Lt": ca < cb, "Le": ca <= cb, "Gt": ca > cb, "Ge": ca >= cb}[op]
                    return ("int", 1, [1 if r else 0])
                return T
            return T
        if k == "un":
            v = self.operand(env, rv[2])
            if rv[1] == "Not" and v != T:
                if v[0] == "eq0":
                    return ("ne0", v[1])
                if v[0] == "ne0":
                    return ("eq0", v[1])
                if v[0] == "int":
                    return ("int", v[1], [1 - x if x in (0, 1) else T for x in v[2]])
            return T
        if k == "agg":
            ops = [self.operand(env, x) for x in rv[3]]
            if rv[1] == "[array]":
                return ("array", ops)
            if rv[1] == "(tuple)":
                return ("tuple", ops)
            if rv[2] in (None, "") or True:
                return ("struct", rv[1], dict(enumerate(ops)))
        if k == "rep":
            v = self.operand(env, rv[1])
            n = rv[2] if isinstance(rv[2], int) else None
            if n is not None and n <= 64:
                return ("array", [v] * n)
            return T
        return T

    # ---- calls
    def intrinsic(self, name, args):
        if re.search(r"num::<impl u32>::to_be_bytes$", name):
            v = args[0]
            if v == T or v[0] != "int" or v[1] != 32:
                return T
            return ("array", [("int", 8, v[2][8 * (3 - i):8 * (4 - i)]) for i in range(4)])
        if re.search(r"num::<impl u32>::from_be_bytes$", name):
            v = args[0]
            if v == T or v[0] != "array" or len(v[1]) != 4 or any(x == T or x[0] != "int" for x in v[1]):
                return T
            bits = []
            for i in (3, 2, 1, 0):
                bits += v[1][i][2]
            return ("int", 32, bits)
        if re.search(r"cmp::PartialEq<\[U; N\]>>::eq$|array::equality::.*::eq$", name):
            a, b = args
            if a == T or b == T or a[0] != "array" or b[0] != "array" or len(a[1]) != len(b[1]):
                return T
            tested = []
            for x, y in zip(a[1], b[1]):
                if x == T or y == T:
                    return T
                cx, cy = as_const(x), as_const(y)
                if cy == 0:
                    tested += [z for z in x[2] if z != 0]
                elif cx == 0:
                    tested += [z for z in y[2] if z != 0]
                else:
                    return T
            return ("eq0", tested)
        return None

    def call(self, name, args, depth=0):
        """Abstract result of calling workspace function `name` with abstract argument values."""
        r = self.intrinsic(name, args)
        if r is not None:
            return r
        f = self.fn(name)
        if f is None or depth > self.max_depth:
            return T
        env = {}
        for i, a in enumerate(args):
            env[i + 1] = a
        return self._run(f, env, 0, depth, [400])

    def _run(self, f, env, bb, depth, fuel):
        while fuel[0] > 0:
            fuel[0] -= 1
            self._cur = f
            blk = f["bbs"][bb]
            for s in blk["s"]:
                if s[0] == "=":
                    ty = f["locals"][s[1][0]] if s[1][0] < len(f["locals"]) else ""
                    self.write_place(env, s[1], self.rvalue(f, env, s[2], ty))
            t = blk["t"]
            if t[0] == "goto":
                bb = t[1]
            elif t[0] == "assert":
                bb = t[4]
            elif t[0] == "drop":
                bb = t[2]
            elif t[0] == "call":
                c = t[1]
                if "ptr" in c or t[4] is None:
                    return T
                cname = c.get("res") or c["def"]
                av = [self.operand(env, a) for a in t[2]]
                self.write_place(env, t[3], self.call(cname, av, depth + 1))
                self._cur = f
                bb = t[4]
            elif t[0] == "ret":
                return env.get(0, T)
            elif t[0] == "switch":
                v = self.operand(env, t[1])
                c = as_const(v) if v != T and v[0] == "int" else None
                if c is None:
                    # short-circuit conjunction / disjunction of zero tests: `A == 0 && B == 0`
                    if v != T and v[0] in ("eq0", "ne0") and len(t[2]) == 1 and t[2][0][0] == 0:
                        fl, tr = t[2][0][1], t[3]       # value 0 -> fl ; otherwise -> tr
                        r_false = self._run(f, dict(env), fl, depth, fuel)
                        r_true = self._run(f, dict(env), tr, depth, fuel)
                        return self._join_bool(v, r_true, r_false)
                    return T
                nxt = t[3]
                for val, tg in t[2]:
                    if val == c:
                        nxt = tg
                bb = nxt
            else:
                return T
        return T

    @staticmethod
    def _join_bool(cond, r_true, r_false):
        """result of `if cond { r_true } else { r_false }` for boolean zero-tests"""
        def const(x):
            return as_const(x) if x != T and x[0] == "int" and x[1] == 1 else None
        if cond[0] == "eq0":
            # cond && rest :  false-branch must be constant false
            if const(r_false) == 0:
                if const(r_true) == 1:
                    return ("eq0", list(cond[1]))
                if r_true != T and r_true[0] == "eq0":
                    return ("eq0", list(cond[1]) + [x for x in r_true[1] if x not in cond[1]])
            return T
        if cond[0] == "ne0":
            # (X != 0) ? r_true : r_false  ==  !(X == 0) ...: `if x != 0 { false } else { rest }`
            if const(r_true) == 0:
                if const(r_false) == 1:
                    return ("eq0", list(cond[1]))
                if r_false != T and r_false[0] == "eq0":
                    return ("eq0", list(cond[1]) + [x for x in r_false[1] if x not in cond[1]])
            return T
        return T


def flatten(v):
    """all integer leaves of a value, in order: [(path, width, bits)] or None if any part is T"""
    out = []

    def rec(x, path):
        if x == T:
            raise Top()
        if x[0] == "int":
            out.append((path, x[1], x[2]))
        elif x[0] == "struct":
            for k in sorted(x[2]):
                rec(x[2][k], path + (k,))
        elif x[0] in ("tuple", "array"):
            for i, y in enumerate(x[1]):
                rec(y, path + (i,))
        else:
            raise Top()
    try:
        rec(v, ())
    except Top:
        return None
    return out
