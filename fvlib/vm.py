"""fuel-vm specific fact helpers: opcode handlers, register-file writers, gas accessors."""
import re
from collections import defaultdict

from .core import (AnchorMissing, forward_aliases, assignments, calls, callee_matches, callee_name, describe,
                   op_place, op_const, root_of, short, TRANSPARENT)

HANDLER_RX = re.compile(
    r"^fuel_vm::interpreter::executors::opcodes_impl::<impl fuel_vm::interpreter::executors::instruction::Execute<M, S, Tx, Ecal, V> for fuel_asm::_?op::(\w+)>::execute$")

REG_NAMES = {0: "ZERO", 1: "ONE", 2: "OF", 3: "PC", 4: "SSP", 5: "SP", 6: "FP", 7: "HP", 8: "ERR",
             9: "GGAS", 10: "CGAS", 11: "BAL", 12: "IS", 13: "RET", 14: "RETL", 15: "FLAG"}


def handlers(F):
    """opcode name -> (fn name, fn) for every `impl Execute for op::X`."""
    out = {}
    for n, f in F.fns("fuel_vm").items():
        m = HANDLER_RX.match(n)
        if m:
            out[m.group(1)] = (n, f)
    return out


def reg_consts(F):
    return {k.rsplit("::", 1)[-1]: v["v"] for k, v in F.consts("fuel_asm").items()
            if k.startswith("fuel_asm::RegId::")}


def _is_regfile_place(f, p):
    """Does place p denote (a projection of) a `registers` field / a [u64; 64] register array?"""
    for e in p[1:]:
        if isinstance(e, list) and e[0] == "f" and e[2] == "registers":
            return True
    return False


def _regfile_desc(d):
    return bool(re.search(r"\.registers$|\.registers\b", d)) and "split_registers" not in d


def register_writes(F, crates=("fuel_vm",)):
    """List of dicts {fn, line, kind, reg}: reg is an int (system/const index), 'dyn' (non-constant
    index into the full register file), 'prog' (index into ProgramRegisters by WriteRegKey),
    'prog-raw' (direct access to ProgramRegisters.0), or 'all' (whole-array mutable escape)."""
    out = []
    for cr in crates:
        for n, f in F.fns(cr).items():
            for i, c, args, dest, tgt, line in calls(f):
                nm = callee_name(c)
                st = c.get("self") or ""
                if nm.endswith("DerefMut>::deref_mut") or nm.endswith("deref::DerefMut::deref_mut"):
                    m = re.search(r"reg_key::RegMut<'_, (\d+)>", st)
                    if m:
                        out.append({"fn": n, "line": line, "kind": "RegMut", "reg": int(m.group(1))})
                    elif "reg_key::RegMut<" in st:
                        out.append({"fn": n, "line": line, "kind": "RegMut", "reg": "dyn"})
                    continue
                if re.search(r"IndexMut.*::index_mut$", nm) and args:
                    base = describe(f, args[0])
                    bty = _arg_type(f, args[0])
                    if "ProgramRegisters" in bty or "ProgramRegisters" in st:
                        out.append({"fn": n, "line": line, "kind": "IndexMut", "reg": "prog"})
                    elif _regfile_desc(base) or re.search(r"\[u64; 64\]", bty):
                        v = _const_of(f, args[1])
                        out.append({"fn": n, "line": line, "kind": "IndexMut",
                                    "reg": v if v is not None else "dyn", "idx": describe(f, args[1])})
                    continue
                m = re.search(r"GetRegMut(?:>)?::(\w+)_mut$", nm)
                if m:
                    out.append({"fn": n, "line": line, "kind": "GetRegMut", "reg": m.group(1).upper()})
                    continue
            # whole register array escaping mutably into a callee other than split/index
            seeds = set()
            for li, ty in enumerate(f["locals"][1:f["argc"] + 1], start=1):
                if re.match(r"&mut \[u64; 64\]$", ty):
                    seeds.add(li)
            for i, j, p, rv, line in assignments(f):
                if len(p) == 1 and rv[0] in ("ref", "raw") and (rv[1] == "mut" or "Mut" in str(rv[1])):
                    q = rv[2]
                    flds = [e for e in q[1:] if isinstance(e, list)]
                    if flds and flds[-1][0] == "f" and flds[-1][2] == "registers" and "[u64; 64]" in (flds[-1][4] if len(flds[-1]) > 4 else "[u64; 64]"):
                        seeds.add(p[0])
            if seeds:
                al = forward_aliases(f, seeds, None)
                for i, c, args, dest, tgt, line in calls(f):
                    nm = callee_name(c)
                    if re.search(r"reg_key::split_registers$|IndexMut.*::index_mut$|Index.*::index$", nm):
                        continue
                    for a in args:
                        p = op_place(a)
                        if p is not None and p[0] in al and all(e == "*" for e in p[1:]):
                            if f["locals"][p[0]].startswith("&mut") or f["locals"][p[0]].startswith("*mut"):
                                out.append({"fn": n, "line": line, "kind": "escape:" + nm.rsplit("::", 1)[-1], "reg": "all"})
            for i, j, p, rv, line in assignments(f):
                # direct place writes through a registers field with builtin indexing
                if _is_regfile_place(f, p):
                    k = [e for e in p[1:] if isinstance(e, list) and e[0] in ("i", "c")]
                    last_field = [e for e in p[1:] if isinstance(e, list) and e[0] == "f"][-1]
                    if last_field[2] != "registers":
                        continue
                    if not k:
                        out.append({"fn": n, "line": line, "kind": "assign-whole", "reg": "all"})
                    elif k[0][0] == "c":
                        out.append({"fn": n, "line": line, "kind": "assign-index", "reg": k[0][1]})
                    else:
                        r = root_of(f, k[0][1])
                        v = r[1].get("v") if isinstance(r, tuple) and r[0] == "const" else None
                        out.append({"fn": n, "line": line, "kind": "assign-index", "reg": v if v is not None else "dyn"})
                # ProgramRegisters.0 raw access
                if rv[0] == "ref" and rv[1] == "mut":
                    q = rv[2]
                    for e in q[1:]:
                        if isinstance(e, list) and e[0] == "f" and e[3].endswith("reg_key::ProgramRegisters"):
                            out.append({"fn": n, "line": line, "kind": "ProgramRegisters.0", "reg": "prog-raw"})
                for e in p[1:]:
                    if isinstance(e, list) and e[0] == "f" and e[3].endswith("reg_key::ProgramRegisters"):
                        out.append({"fn": n, "line": line, "kind": "ProgramRegisters.0", "reg": "prog-raw"})
    return out


def _arg_type(f, o):
    p = op_place(o)
    if p is None:
        return ""
    r = root_of(f, p[0], through_calls=None)
    base = f["locals"][p[0]]
    return base


def _const_of(f, o):
    v = op_const(o)
    if v is not None:
        return v
    p = op_place(o)
    if p is None:
        return None
    r = root_of(f, p[0])
    if isinstance(r, tuple) and r[0] == "const":
        return r[1].get("v")
    return None


def gas_accessors_called(f):
    """Names of GasCostsValues accessor methods called directly in f: [(bb, name, line)]"""
    out = []
    for i, c, args, dest, tgt, line in calls(f):
        nm = callee_name(c)
        m = re.match(r"^fuel_tx::[\w:]*GasCostsValues::(\w+)$", nm)
        if m:
            out.append((i, m.group(1), line))
    return out


def debugger_bypass_cases(F, f):
    """Case analysis (fvlib.cases) of instruction_per_inner: for {debugger inactive, active & continue, active & stop}
    is instruction_inner reached, and which other calls run. The stop / continue decision may be spelt
    `!debug.should_continue()` or as a match on DebugEval (Continue / Breakpoint), inline or in a private helper
    (new helpers are inlined at fact load). Returns {case: (reaches_instruction_inner, [callee short names reached])} or None."""
    from fvlib import cases
    from fvlib.core import callee_name, calls
    adt = F.adt("fuel_vm::state::debug::DebugEval")
    disc = {v["name"]: v.get("discr", k) for k, v in enumerate(adt["variants"])}
    inner = [i for i, c, *_ in calls(f) if callee_name(c).endswith("::instruction_inner")]
    out = {}
    for case, (active, cont) in {"inactive": (False, True), "continue": (True, True), "stop": (True, False)}.items():
        def oracle(kind, desc, active=active, cont=cont):
            if kind == "call" and desc.startswith("call:is_active("):
                return active
            if kind == "call" and desc.startswith("call:should_continue("):
                return cont
            if kind == "disc" and "eval_debugger_state(" in desc:
                return disc["Continue"] if cont else disc["Breakpoint"]
            return None
        reach = cases.explore(f, oracle)
        if reach is None:
            return None
        names = sorted({callee_name(f["bbs"][b]["t"][1]).rsplit("::", 1)[-1] for b in reach if f["bbs"][b]["t"][0] == "call" and "def" in f["bbs"][b]["t"][1]})
        out[case] = (any(b in reach for b in inner), names)
    return out
