"""fvlib.core — load fvfacts JSON and offer program-analysis primitives.

Facts format (see fvfacts/src/main.rs):
  place   = [local, proj...]; proj = "*" | ["f",idx,name,adt] | ["i",local] | ["c",off,min,from_end]
            | ["s",from,to,from_end] | ["d",variant,idx] | "oc"
  operand = ["cp",place] | ["mv",place] | ["k",{t,v?,const?,fn?,closure?}]
  rvalue  = ["use",op] | ["ref",m,place] | ["raw",k,place] | ["cast",kind,op,ty] | ["bin",op,a,b]
            | ["un",op,a] | ["disc",place] | ["agg",kind,variant,[ops],[names]] | ["rep",op,n] | ...
  stmt    = ["=",place,rvalue,line] | ["setdisc",place,idx] | ["intr",str]
  term    = ["goto",bb] | ["switch",op,[[v,bb]..],otherwise,line] | ["ret"] | ["unreachable"]
            | ["resume"] | ["abort"] | ["drop",place,bb] | ["call",callee,[ops],dest,target|null,line]
            | ["assert",kind,cond,expected,target,line] | ["tailcall",callee,args,line]
  callee  = {def, ga?, trait?, self?, res?, virt?, ik?} | {ptr: operand}
"""
import json
import os
import re
import sys
from collections import defaultdict, deque

WORKSPACE_CRATES = [
    "fuel_storage", "fuel_types", "fuel_derive", "fuel_compression", "fuel_merkle",
    "fuel_crypto", "fuel_asm", "fuel_tx", "fuel_vm",
]


class AnchorMissing(Exception):
    pass


class Facts:
    def __init__(self, directory):
        self.dir = directory
        self._crates = {}
        self._fnidx = None

    def crate(self, name):
        if name not in self._crates:
            p = os.path.join(self.dir, name + ".json")
            if not os.path.exists(p):
                raise AnchorMissing("fact file missing for crate %s (%s)" % (name, p))
            with open(p) as fh:
                raw = fh.read()
            # the driver prints definition paths without re-exports (`core::…`, `alloc::…`);
            # normalise the three std facade crates to one spelling so rules can say `std::`
            raw = re.sub(r'(?<![A-Za-z0-9_:])(core|alloc)::', 'std::', raw)
            self._crates[name] = json.loads(raw)
            if os.environ.get("FV_NO_INLINE") != "1":
                self.inlined = getattr(self, "inlined", 0) + inline_new_helpers(self._crates[name]["fns"], known_fns())
            if os.environ.get("FV_NO_PARAM_ALIAS") != "1":
                self.aliased = getattr(self, "aliased", 0) + alias_params(self._crates[name]["fns"])
            if os.environ.get("FV_NO_THREAD") != "1":
                self.threaded = getattr(self, "threaded", 0) + sum(thread_flags(f) for f in self._crates[name]["fns"].values())
        return self._crates[name]

    def fns(self, crate):
        return self.crate(crate)["fns"]

    def all_fns(self, crates=None):
        for c in crates or WORKSPACE_CRATES:
            for n, f in self.fns(c).items():
                yield n, f

    def fn(self, name):
        c = name.split("::", 1)[0]
        if c.startswith("<"):
            # "<T as Trait>::m" — look everywhere
            for cr in WORKSPACE_CRATES:
                if not os.path.exists(os.path.join(self.dir, cr + ".json")):
                    continue
                f = self.fns(cr).get(name)
                if f is not None:
                    return f
            return None
        if c in WORKSPACE_CRATES:
            return self.fns(c).get(name)
        return None

    def find(self, pattern, crates=None, one=False, required=True):
        """Find fns whose def path matches regex `pattern` (re.search)."""
        rx = re.compile(pattern)
        out = [(n, f) for n, f in self.all_fns(crates) if rx.search(n)]
        if one:
            if len(out) != 1:
                if not out and not required:
                    return None
                raise AnchorMissing("expected exactly one fn matching /%s/ in %s, found %d: %s"
                                    % (pattern, crates or "workspace", len(out), [n for n, _ in out][:6]))
            return out[0]
        if required and not out:
            raise AnchorMissing("no fn matching /%s/" % pattern)
        return out

    def adts(self, crate):
        return self.crate(crate)["adts"]

    def adt(self, path):
        c = path.split("::", 1)[0]
        a = self.adts(c).get(path)
        if a is None:
            raise AnchorMissing("ADT %s not found" % path)
        return a

    def consts(self, crate):
        return self.crate(crate)["consts"]

    def const(self, path):
        c = path.split("::", 1)[0]
        v = self.consts(c).get(path)
        if v is None:
            raise AnchorMissing("const %s not found" % path)
        x = v["v"]
        return int(x) if isinstance(x, str) else x

    def impls(self, crate):
        return self.crate(crate)["impls"]


# ----------------------------------------------------------------------------
# pretty printing

def pp_place(p, f=None):
    s = "_%d" % p[0]
    if f is not None:
        nm = f.get("_dbgmap")
        if nm is None:
            nm = {}
            for name, pl in f.get("dbg", []):
                if len(pl) == 1:
                    nm.setdefault(pl[0], name)
            f["_dbgmap"] = nm
        if p[0] in nm:
            s = "%s/_%d" % (nm[p[0]], p[0])
    for e in p[1:]:
        if e == "*":
            s = "(*%s)" % s
        elif e == "oc":
            pass
        elif e[0] == "f":
            s += "." + (e[2] if e[2] else str(e[1]))
        elif e[0] == "i":
            s += "[_%d]" % e[1]
        elif e[0] == "c":
            s += "[%s%d of %d]" % ("-" if e[3] else "", e[1], e[2])
        elif e[0] == "s":
            s += "[%d..%s%d]" % (e[1], "-" if e[3] else "", e[2])
        elif e[0] == "d":
            s = "(%s as %s)" % (s, e[1])
    return s


def pp_op(o, f=None):
    if o[0] in ("cp", "mv"):
        return ("move " if o[0] == "mv" else "") + pp_place(o[1], f)
    if o[0] == "k":
        k = o[1]
        if "fn" in k:
            return "fn:" + callee_name(k["fn"])
        if "closure" in k:
            return "closure:" + k["closure"]
        if "v" in k:
            c = ("%s=" % k["const"]) if "const" in k else ""
            return "%s%s_%s" % (c, k["v"], k["t"])
        if "const" in k:
            return "const:" + k["const"]
        return "k<%s>" % k["t"]
    return "?"


def pp_rv(r, f=None):
    k = r[0]
    if k == "use":
        return pp_op(r[1], f)
    if k == "ref":
        return "&%s%s" % ("mut " if r[1] == "mut" else "", pp_place(r[2], f))
    if k == "raw":
        return "&raw %s %s" % (r[1], pp_place(r[2], f))
    if k == "cast":
        return "%s as %s (%s)" % (pp_op(r[2], f), r[3], r[1])
    if k == "bin":
        return "%s(%s, %s)" % (r[1], pp_op(r[2], f), pp_op(r[3], f))
    if k == "un":
        return "%s(%s)" % (r[1], pp_op(r[2], f))
    if k == "disc":
        return "discriminant(%s)" % pp_place(r[1], f)
    if k == "agg":
        ops = [pp_op(x, f) for x in r[3]]
        names = r[4]
        if names and len(names) == len(ops):
            ops = ["%s: %s" % (n, o) for n, o in zip(names, ops)]
        v = ("::" + r[2]) if r[2] else ""
        return "%s%s{%s}" % (r[1], v, ", ".join(ops))
    if k == "rep":
        return "[%s; %s]" % (pp_op(r[1], f), r[2])
    return json.dumps(r)


def callee_name(c):
    if "ptr" in c:
        return "<fnptr>"
    return c.get("res") or c["def"]


def pp_fn(name, f, out=sys.stdout, locals_=True):
    out.write("fn %s  [%s:%s]\n" % (name, f["file"], f["line"]))
    for i, t in enumerate(f["locals"]):
        if locals_ or i <= f["argc"]:
            out.write("  let _%d: %s\n" % (i, t))
    for i, bb in enumerate(f["bbs"]):
        out.write(" bb%d%s:\n" % (i, " (cleanup)" if bb.get("cu") else ""))
        for s in bb["s"]:
            if s[0] == "=":
                out.write("    %s = %s   // L%s\n" % (pp_place(s[1], f), pp_rv(s[2], f), s[3]))
            else:
                out.write("    %s\n" % json.dumps(s))
        t = bb["t"]
        if t[0] == "call":
            c = t[1]
            extra = ""
            if "trait" in c and "res" not in c:
                extra = "  {trait %s self=%s}" % (c["trait"], c.get("self"))
            out.write("    %s = %s(%s) -> %s%s   // L%s\n" % (
                pp_place(t[3], f), callee_name(c), ", ".join(pp_op(a, f) for a in t[2]),
                ("bb%d" % t[4]) if t[4] is not None else "!", extra, t[5]))
        elif t[0] == "switch":
            out.write("    switch %s {%s, _ -> bb%d}   // L%s\n" % (
                pp_op(t[1], f), ", ".join("%s -> bb%d" % (v, b) for v, b in t[2]), t[3], t[4]))
        elif t[0] == "assert":
            out.write("    assert[%s](%s == %s) -> bb%d\n" % (t[1], pp_op(t[2], f), t[3], t[4]))
        elif t[0] == "drop":
            out.write("    drop(%s) -> bb%d\n" % (pp_place(t[1], f), t[2]))
        elif t[0] == "goto":
            out.write("    goto bb%d\n" % t[1])
        else:
            out.write("    %s\n" % json.dumps(t))


# ----------------------------------------------------------------------------
# CFG

_PARAMS = None


def alias_params(fns):
    """Read renamed parameters under their reviewed names (tables/param_names.json, see tools/mk_param_table.py): a
    parameter is identified by position; only when every parameter type is unchanged. Returns the number of functions
    aliased."""
    global _PARAMS
    if _PARAMS is None:
        p = os.path.join(os.path.dirname(os.path.dirname(os.path.abspath(__file__))), "tables", "param_names.json")
        _PARAMS = json.load(open(p)) if os.path.exists(p) else {}
    n = 0
    for name, f in fns.items():
        row = _PARAMS.get(name)
        if not row or len(row) != f.get("argc", 0):
            continue
        if any(f["locals"][l] != row[l - 1][1] for l in range(1, f["argc"] + 1)):
            continue
        cur = {}
        for nm, pl in f.get("dbg", []):
            if len(pl) == 1 and 1 <= pl[0] <= f["argc"]:
                cur.setdefault(pl[0], nm)
        ren = {l: row[l - 1][0] for l in range(1, f["argc"] + 1) if row[l - 1][0] and cur.get(l) and cur.get(l) != row[l - 1][0]}
        if not ren:
            continue
        for ent in f["dbg"]:
            if len(ent[1]) == 1 and ent[1][0] in ren:
                ent[0] = ren[ent[1][0]]
        f.pop("_dbgmap", None)
        n += 1
    return n


_KNOWN = None


def known_fns():
    """Definition paths of every function of the workspace on the reviewed tree (tables/known_fns.json)."""
    global _KNOWN
    if _KNOWN is None:
        p = os.path.join(os.path.dirname(os.path.dirname(os.path.abspath(__file__))), "tables", "known_fns.json")
        _KNOWN = set(json.load(open(p))) if os.path.exists(p) else None
    return _KNOWN


def _ren_place(p, off):
    out = [p[0] + off]
    for e in p[1:]:
        if isinstance(e, list) and e and e[0] == "i":
            out.append(["i", e[1] + off] + list(e[2:]))
        else:
            out.append(e)
    return out


def _ren_op(o, off):
    if o[0] in ("cp", "mv"):
        return [o[0], _ren_place(o[1], off)]
    return o


def _ren_rv(rv, off):
    k = rv[0]
    if k == "use":
        return ["use", _ren_op(rv[1], off)]
    if k in ("ref", "raw"):
        return [k, rv[1], _ren_place(rv[2], off)]
    if k == "cast":
        return ["cast", rv[1], _ren_op(rv[2], off), rv[3]]
    if k == "bin":
        return ["bin", rv[1], _ren_op(rv[2], off), _ren_op(rv[3], off)]
    if k == "un":
        return ["un", rv[1], _ren_op(rv[2], off)]
    if k == "disc":
        return ["disc", _ren_place(rv[1], off)] + list(rv[2:])
    if k == "agg":
        return ["agg", rv[1], rv[2], [_ren_op(o, off) for o in rv[3]], rv[4]]
    if k == "rep":
        return ["rep", _ren_op(rv[1], off), rv[2]]
    raise ValueError("rvalue kind " + str(k))


def _ren_callee(c, off):
    if isinstance(c, dict) and "ptr" in c:
        c = dict(c)
        c["ptr"] = _ren_op(c["ptr"], off)
    return c


def inline_new_helpers(fns, known, max_blocks=40, rounds=2):
    """MIR-level inlining of *new* private helpers: a function that does not exist on the reviewed tree (it is not in
    tables/known_fns.json — typically a few lines extracted from an anchored function into `fn helper(..)`) is inlined
    into its callers (fresh locals, parameters assigned from the arguments, `return` replaced by the assignment of the
    result and a jump to the continuation), so that every rule analyses the anchored function with its whole body, as
    before the extraction. Functions known to the rules are never inlined. Returns the number of call sites inlined."""
    if not known:
        return 0
    done = 0
    for _ in range(rounds):
        new = {n for n, f in fns.items() if n not in known and f.get("kind") != "Closure" and "{closure" not in n and not f.get("exp")
               and "::tests::" not in n and "::test::" not in n and sum(1 for b in f["bbs"] if not b.get("cu")) <= max_blocks}
        if not new:
            break
        changed = False
        for n, f in fns.items():
            if n in new:
                continue
            i = 0
            while i < len(f["bbs"]):
                bb = f["bbs"][i]
                t = bb["t"]
                i += 1
                if bb.get("cu") or t[0] != "call" or not isinstance(t[1], dict) or "def" not in t[1]:
                    continue
                cn = callee_name(t[1])
                if cn not in new or cn == n:
                    continue
                g = fns[cn]
                if len(t[2]) != g.get("argc", -1) or any(callee_name(x["t"][1]) == cn for x in g["bbs"] if x["t"][0] == "call" and isinstance(x["t"][1], dict) and "def" in x["t"][1]):
                    continue
                try:
                    off = len(f["locals"])
                    boff = len(f["bbs"])
                    nb = []
                    for gb in g["bbs"]:
                        st = []
                        for s_ in gb["s"]:
                            if s_[0] == "=":
                                st.append(["=", _ren_place(s_[1], off), _ren_rv(s_[2], off)] + list(s_[3:]))
                            elif s_[0] == "setdisc":
                                st.append(["setdisc", _ren_place(s_[1], off)] + list(s_[2:]))
                            else:
                                st.append(s_)
                        gt = gb["t"]
                        k = gt[0]
                        if k == "goto":
                            nt = ["goto", gt[1] + boff]
                        elif k == "switch":
                            nt = ["switch", _ren_op(gt[1], off), [[v, b_ + boff] for v, b_ in gt[2]], gt[3] + boff] + list(gt[4:])
                        elif k == "ret":
                            if t[3] is not None:
                                st.append(["=", list(t[3]), ["use", ["mv", [off]]], t[5]])
                            nt = ["goto", t[4]] if t[4] is not None else ["unreachable"]
                        elif k == "drop":
                            nt = ["drop", _ren_place(gt[1], off), gt[2] + boff]
                        elif k == "call":
                            nt = ["call", _ren_callee(gt[1], off), [_ren_op(o, off) for o in gt[2]], _ren_place(gt[3], off) if gt[3] is not None else None,
                                  (gt[4] + boff) if gt[4] is not None else None] + list(gt[5:])
                        elif k == "assert":
                            nt = ["assert", gt[1], _ren_op(gt[2], off), gt[3], gt[4] + boff] + list(gt[5:])
                        elif k in ("unreachable", "resume", "abort"):
                            nt = list(gt)
                        else:
                            raise ValueError("terminator " + str(k))
                        nbb = {"s": st, "t": nt}
                        if gb.get("cu"):
                            nbb["cu"] = gb["cu"]
                        nb.append(nbb)
                except (ValueError, IndexError, TypeError):
                    continue
                f["locals"].extend(g["locals"])
                for nm, pl in g.get("dbg", []):
                    f.setdefault("dbg", []).append([nm, _ren_place(pl, off)])
                # promoted constants of the callee are referenced by index: append and shift
                gp = g.get("proms") or []
                poff = len(f.get("proms") or [])
                if gp:
                    f.setdefault("proms", [])
                    f["proms"].extend(gp)
                    if g.get("pbodies") is not None:
                        f.setdefault("pbodies", [])
                        f["pbodies"].extend(g.get("pbodies") or [])
                    if poff:
                        def shift(o):
                            if isinstance(o, list):
                                for x in o:
                                    shift(x)
                            elif isinstance(o, dict):
                                if isinstance(o.get("promoted"), int):
                                    o["promoted"] += poff
                                for x in o.values():
                                    shift(x)
                        nb = json.loads(json.dumps(nb))
                        shift(nb)
                for k_, a in enumerate(t[2]):
                    bb["s"].append(["=", [off + 1 + k_], ["use", a], t[5]])
                bb["t"] = ["goto", boff]
                f["bbs"].extend(nb)
                for key in ("_defs", "_dbgmap"):
                    f.pop(key, None)
                done += 1
                changed = True
        if not changed:
            break
    # a new helper all of whose call sites were inlined no longer exists as a separate writer / caller
    if done:
        still = set()
        for n, f in fns.items():
            for bb in f["bbs"]:
                t = bb["t"]
                if t[0] == "call" and isinstance(t[1], dict) and "def" in t[1]:
                    still.add(callee_name(t[1]))
                for a in (t[2] if t[0] == "call" else []):
                    if a[0] == "k" and isinstance(a[1], dict) and "fn" in a[1]:
                        still.add(callee_name(a[1]["fn"]))
        for n in [n for n in fns if n not in known and "{closure" not in n and fns[n].get("kind") != "Closure" and n not in still
                  and "::tests::" not in n and "::test::" not in n and not fns[n].get("exp") and fns[n].get("vis") != "Public"]:
            del fns[n]
    return done


def thread_flags(f):
    """Jump threading over boolean flags. `let ok = a <= pc && pc < b; if ok {..}`, `matches!(..)` and
    `let found = ..; if found` lower to arms that store a constant / a comparison into a flag local and then meet in a
    join block that only copies the flag and switches on it. The join block is tail-duplicated into every
    goto-predecessor that assigns the flag (with fresh locals, the flag's local definition propagated into the copy,
    and the switch folded when the flag is a constant there), so that every rule sees the comparison as the branch
    condition — exactly as if the condition had been written inside the `if`. Semantics-preserving (tail duplication);
    returns the number of predecessor edges threaded."""
    bbs = f["bbs"]
    preds = defaultdict(list)
    for i, bb in enumerate(bbs):
        if bb.get("cu"):
            continue
        for x in succs(bb):
            preds[x].append(i)
    done = 0
    for j in range(1, len(bbs)):
        J = bbs[j]
        if J.get("cu") or J["t"][0] != "switch" or J["t"][1][0] == "k" or len(J["t"][1][1]) != 1:
            continue
        if len(preds[j]) < 2 or len(J["s"]) > 3:
            continue
        def _pure(x):
            if x[0] != "=" or len(x[1]) != 1:
                return False
            if x[2][0] == "use":
                return x[2][1][0] == "k" or len(x[2][1][1]) == 1
            return x[2][0] == "un" and x[2][1] == "Not" and x[2][2][0] != "k" and len(x[2][2][1]) == 1       # `if !flag`
        if not all(_pure(x) for x in J["s"]):
            continue
        # the flag: chase the switch operand back through J's copies
        flag = J["t"][1][1][0]
        for x in reversed(J["s"]):
            if x[1] == [flag]:
                o_ = x[2][1] if x[2][0] == "use" else x[2][2]
                if o_[0] != "k":
                    flag = o_[1][0]
        for p in preds[j]:
            P = bbs[p]
            if p == j or P["t"] != ["goto", j]:
                continue
            env = {}
            for x in P["s"]:
                if x[0] == "=" and len(x[1]) == 1:
                    env[x[1][0]] = x[2]
            if flag not in env or env[flag][0] not in ("use", "bin", "un", "disc"):
                continue
            ren = {}
            stmts = []
            for x in J["s"]:
                d = x[1][0]
                nd = len(f["locals"])
                f["locals"].append(f["locals"][d] if d < len(f["locals"]) else "?")
                neg_ = x[2][0] == "un"
                src = x[2][2] if neg_ else x[2][1]
                if src[0] != "k" and src[1][0] in ren:
                    src = [src[0], [ren[src[1][0]]]]
                if src[0] != "k" and src[1][0] in env:
                    rv = json.loads(json.dumps(env[src[1][0]]))
                else:
                    rv = ["use", src]
                if neg_:
                    if rv[0] == "use" and rv[1][0] == "k" and isinstance(rv[1][1].get("v"), int):
                        k_ = dict(rv[1][1])
                        k_["v"] = 0 if k_["v"] else 1
                        rv = ["use", ["k", k_]]
                    elif rv[0] == "bin" and rv[1] in ("Eq", "Ne", "Lt", "Le", "Gt", "Ge"):
                        rv = ["bin", {"Eq": "Ne", "Ne": "Eq", "Lt": "Ge", "Ge": "Lt", "Gt": "Le", "Le": "Gt"}[rv[1]], rv[2], rv[3]]
                    else:
                        rv = ["un", "Not", src]
                ren[d] = nd
                env[nd] = rv
                stmts.append(["=", [nd], rv, x[3] if len(x) > 3 else None])
            t = J["t"]
            sw = t[1][1][0]
            nsw = ren.get(sw, sw)
            rv = env.get(nsw)
            const = None
            if rv is not None and rv[0] == "use" and rv[1][0] == "k" and isinstance(rv[1][1].get("v"), int):
                const = rv[1][1]["v"]
            P["s"] = P["s"] + stmts
            if const is not None:
                tgt = t[3]
                for v, b in t[2]:
                    if v == const:
                        tgt = b
                P["t"] = ["goto", tgt]
            else:
                P["t"] = ["switch", [t[1][0], [nsw]], [list(x) for x in t[2]], t[3]] + list(t[4:])
            done += 1
    if done:
        for k in ("_defs", "_dbgmap"):
            f.pop(k, None)
    return done


def succs(bb):
    """Normal-flow successors of a block (unwind edges are not recorded in facts)."""
    t = bb["t"]
    k = t[0]
    if k == "goto":
        return [t[1]]
    if k == "switch":
        return [b for _, b in t[2]] + [t[3]]
    if k == "drop":
        return [t[2]]
    if k == "call":
        return [t[4]] if t[4] is not None else []
    if k == "assert":
        return [t[4]]
    return []


class CFG:
    def __init__(self, f):
        self.f = f
        self.bbs = f["bbs"]
        n = len(self.bbs)
        self.n = n
        self.succ = [succs(b) for b in self.bbs]
        self.pred = [[] for _ in range(n)]
        for i, ss in enumerate(self.succ):
            for s in ss:
                self.pred[s].append(i)
        # reachable from entry, ignoring cleanup blocks
        self.reach = self._reach_from([0])
        self._dom = None
        self._pdom = None

    def _reach_from(self, starts, avoid=()):
        seen = set()
        dq = deque(s for s in starts if s not in avoid)
        seen.update(dq)
        while dq:
            b = dq.popleft()
            for s in self.succ[b]:
                if s not in seen and s not in avoid:
                    seen.add(s)
                    dq.append(s)
        return seen

    def reachable_from(self, b, avoid=()):
        """Blocks reachable from the *successors* of b (b itself only if on a cycle)."""
        return self._reach_from(self.succ[b], avoid)

    def reachable_incl(self, b, avoid=()):
        return self._reach_from([b], avoid)

    def exits(self, kind="ret"):
        return [i for i in self.reach if self.bbs[i]["t"][0] == kind]

    def dominators(self):
        """dom[b] = set of blocks dominating b (incl. b). Iterative; fine for these sizes."""
        if self._dom is not None:
            return self._dom
        nodes = sorted(self.reach)
        allset = set(nodes)
        dom = {b: set(allset) for b in nodes}
        dom[0] = {0}
        changed = True
        order = self._rpo()
        while changed:
            changed = False
            for b in order:
                if b == 0:
                    continue
                ps = [p for p in self.pred[b] if p in allset]
                if not ps:
                    continue
                new = set.intersection(*(dom[p] for p in ps)) | {b}
                if new != dom[b]:
                    dom[b] = new
                    changed = True
        self._dom = dom
        return dom

    def _rpo(self):
        seen = set()
        post = []
        stack = [(0, iter(self.succ[0]))]
        seen.add(0)
        while stack:
            b, it = stack[-1]
            adv = False
            for s in it:
                if s not in seen:
                    seen.add(s)
                    stack.append((s, iter(self.succ[s])))
                    adv = True
                    break
            if not adv:
                post.append(b)
                stack.pop()
        return list(reversed(post))

    def dominates(self, a, b):
        return a in self.dominators().get(b, ())

    def must_pass(self, targets, frm=0, to=None, to_pred=None):
        """True iff every path from `frm` to any block in `to` (default: all ret exits)
        passes through a block in `targets` (strictly before arriving; a `to` block that is
        itself in targets counts)."""
        targets = set(targets)
        if to is None:
            to = set(self.exits("ret"))
        else:
            to = set(to)
        if frm in targets:
            return True
        seen = self._reach_from([frm], avoid=targets)
        return not (seen & to)

    def path_avoiding(self, targets, frm, to):
        """Return one path frm->(a block in `to`) that avoids `targets`, or None."""
        targets = set(targets)
        to = set(to)
        if frm in targets:
            return None
        prev = {frm: None}
        dq = deque([frm])
        while dq:
            b = dq.popleft()
            if b in to:
                path = []
                while b is not None:
                    path.append(b)
                    b = prev[b]
                return list(reversed(path))
            for s in self.succ[b]:
                if s not in prev and s not in targets:
                    prev[s] = b
                    dq.append(s)
        return None


# ----------------------------------------------------------------------------
# calls

def calls(f):
    """Yield (bb_index, callee, args, dest, target, line) for every call terminator in
    non-cleanup blocks."""
    for i, bb in enumerate(f["bbs"]):
        if bb.get("cu"):
            continue
        t = bb["t"]
        if t[0] == "call":
            yield i, t[1], t[2], t[3], t[4], t[5]
        elif t[0] == "tailcall":
            yield i, t[1], t[2], None, None, t[3]


def callee_matches(c, rx):
    if "ptr" in c:
        return False
    if isinstance(rx, str):
        rx = re.compile(rx)
    return bool(rx.search(c.get("res") or "") or rx.search(c["def"]))


def family(F, n, module_prefix, depth=2):
    """`n`, its closures, and the functions of the same module it calls (transitively, bounded) with their closures:
    the unit over which a formula is looked for, so that extracting part of it into a private helper does not hide it."""
    out, todo = {}, [(n, 0)]
    while todo:
        m, d = todo.pop()
        if m in out:
            continue
        g = F.fn(m)
        if g is None:
            continue
        out[m] = g
        for cn, cf in F.find("^" + re.escape(m) + r"::\{closure#\d+\}", None, required=False):
            out[cn] = cf
            todo.append((cn, d))
        if d < depth:
            for i, c, args, *_ in calls(g):
                cn = callee_name(c)
                if cn.startswith(module_prefix) and cn not in out:
                    todo.append((cn, d + 1))
    return out


def closure_env(pf, closure_name, through=None):
    """What the closure `closure_name` created in `pf` captured, by environment slot: [describe(captured operand)]."""
    tail = closure_name.rsplit("::", 1)[-1]
    for i, j, p, rv, line in assignments(pf):
        if rv[0] == "agg" and rv[1].startswith("closure:") and rv[1].endswith(tail) and closure_name.endswith(rv[1][len("closure:"):].rsplit("::", 1)[-1]):
            return [describe(pf, o, depth=24, through=through if through is not None else TRANSPARENT) for o in rv[3]]
    return None


def subst_env(desc, env):
    """Rewrite a description made inside a closure in the vocabulary of its parent: `arg:#1.K` -> what slot K captured."""
    if not env:
        return desc
    return re.sub(r"arg:#1\.(\d+)", lambda m: env[int(m.group(1))] if int(m.group(1)) < len(env) else m.group(0), desc)


def converts_to(c, target_rx):
    """Callee record `c` is a `From::from` / `.into()` conversion whose target type matches `target_rx`
    (`x.into()` resolves to the blanket `<T as Into<U>>::into`, `U::from(x)` to the From impl: same conversion)."""
    d = c.get("def", "") if isinstance(c, dict) else ""
    ga = c.get("ga") or []
    if d.endswith("convert::Into::into"):
        return len(ga) >= 2 and re.search(target_rx, ga[1]) is not None
    if d.endswith("convert::From::from"):
        return re.search(target_rx, c.get("self") or "") is not None or (ga and re.search(target_rx, ga[0]) is not None) or re.search("From<.*> for .*" + target_rx + "|" + target_rx + ".* as std::convert::From", callee_name(c)) is not None
    return False


def call_blocks(f, rx):
    rx = re.compile(rx) if isinstance(rx, str) else rx
    return [i for i, c, *_ in calls(f) if callee_matches(c, rx)]


def fn_refs(f):
    """Function items / closures referenced as values (passed as args, stored), per block."""
    out = []

    def scan_op(o, i):
        if o and o[0] == "k":
            k = o[1]
            if "fn" in k:
                out.append((i, "fn", k["fn"]))
            elif "closure" in k:
                out.append((i, "closure", k["closure"]))

    for i, bb in enumerate(f["bbs"]):
        if bb.get("cu"):
            continue
        for s in bb["s"]:
            if s[0] == "=":
                r = s[2]
                if r[0] in ("use", "cast"):
                    scan_op(r[1] if r[0] == "use" else r[2], i)
                elif r[0] == "agg":
                    if r[1].startswith("closure:"):
                        out.append((i, "closure", r[1][len("closure:"):]))
                    for o in r[3]:
                        scan_op(o, i)
        t = bb["t"]
        if t[0] == "call":
            for a in t[2]:
                scan_op(a, i)
    return out


class CallGraph:
    """Whole-workspace call graph: direct (resolved) edges, CHA edges for unresolved trait
    method calls (all workspace impls of that trait method + the trait's default body),
    closure-creation edges, and fn-item-as-value edges."""

    def __init__(self, facts, crates=None):
        self.facts = facts
        self.crates = crates or WORKSPACE_CRATES
        self.fns = {}
        for n, f in facts.all_fns(self.crates):
            self.fns[n] = f
        # trait method -> implementing fn names
        self.impl_index = defaultdict(list)   # (trait, method) -> [fn def path]
        for c in self.crates:
            for imp in facts.impls(c):
                tr = imp.get("trait")
                if not tr:
                    continue
                for name, dp, kind in imp["items"]:
                    if kind.startswith("Fn"):
                        self.impl_index[(tr, name)].append(dp)
        # conversion blanket impls of core: x.into() / x.try_into() dispatch to the workspace's
        # From / TryFrom impls; index them by (trait, source type, target type)
        self.conv_index = {}
        for c in self.crates:
            for imp in facts.impls(c):
                tr = imp.get("trait") or ""
                if tr.endswith("convert::From") or tr.endswith("convert::TryFrom"):
                    m = re.match(r"^.*convert::(?:Try)?From<(.*)>$", imp.get("traitref") or "")
                    if not m:
                        continue
                    for name, dp, kind in imp["items"]:
                        if kind.startswith("Fn") and name in ("from", "try_from"):
                            self.conv_index[(name, m.group(1), imp["self"])] = dp
        self.edges = {}
        for n, f in self.fns.items():
            self.edges[n] = self._out_edges(f)
        self.redges = defaultdict(set)
        for a, bs in self.edges.items():
            for b in bs:
                self.redges[b].add(a)

    def targets_of(self, c):
        """Possible workspace target fn names of a callee record."""
        if "ptr" in c:
            return []
        d0 = c["def"]
        if d0.endswith("convert::Into::into") or d0.endswith("convert::TryInto::try_into"):
            ga = c.get("ga") or []
            if len(ga) >= 2:
                t = self.conv_index.get(("from" if d0.endswith("into") and not d0.endswith("try_into") else "try_from", ga[0], ga[1]))
                if t:
                    return [t]
        if "res" in c:
            return [c["res"]]
        d = c["def"]
        if "trait" in c:
            m = d.rsplit("::", 1)[-1]
            outs = list(self.impl_index.get((c["trait"], m), []))
            if d in self.fns:   # default body
                outs.append(d)
            # if self type is concrete and resolution failed, still CHA
            return outs
        return [d]

    def _out_edges(self, f):
        out = set()
        for _, c, *_ in calls(f):
            for t in self.targets_of(c):
                out.add(t)
        for _, kind, ref in fn_refs(f):
            if kind == "fn":
                for t in self.targets_of(ref):
                    out.add(t)
            else:
                out.add(ref)
        return out

    def reachable(self, roots, stop=None):
        seen = set()
        dq = deque()
        for r in roots:
            if r not in seen:
                seen.add(r)
                dq.append(r)
        while dq:
            a = dq.popleft()
            if stop and stop(a):
                continue
            for b in self.edges.get(a, ()):
                if b not in seen:
                    seen.add(b)
                    dq.append(b)
        return seen

    def callers_of(self, rx):
        rx = re.compile(rx) if isinstance(rx, str) else rx
        out = []
        for n, f in self.fns.items():
            for i, c, args, dest, tgt, line in calls(f):
                if callee_matches(c, rx):
                    out.append((n, i, c, args, line))
        return out

    def path(self, src, dst_pred):
        prev = {src: None}
        dq = deque([src])
        while dq:
            a = dq.popleft()
            if dst_pred(a):
                p = []
                while a is not None:
                    p.append(a)
                    a = prev[a]
                return list(reversed(p))
            for b in self.edges.get(a, ()):
                if b not in prev:
                    prev[b] = a
                    dq.append(b)
        return None


# ----------------------------------------------------------------------------
# places / def-use

def place_fields(p):
    """List of (field name, adt) along the projection chain."""
    return [(e[2], e[3]) for e in p[1:] if isinstance(e, list) and e[0] == "f"]


def place_has_field(p, name, adt_rx=None):
    for e in p[1:]:
        if isinstance(e, list) and e[0] == "f" and e[2] == name:
            if adt_rx is None or re.search(adt_rx, e[3]):
                return True
    return False


def op_place(o):
    return o[1] if o and o[0] in ("cp", "mv") else None


def op_const(o):
    """Integer value of a constant operand, else None."""
    if o and o[0] == "k":
        return o[1].get("v")
    return None


def op_const_name(o):
    if o and o[0] == "k":
        return o[1].get("const")
    return None


def assignments(f):
    """Yield (bb, idx, place, rvalue, line) for non-cleanup blocks."""
    for i, bb in enumerate(f["bbs"]):
        if bb.get("cu"):
            continue
        for j, s in enumerate(bb["s"]):
            if s[0] == "=":
                yield i, j, s[1], s[2], s[3]


def defs_of_local(f):
    """local -> list of ('assign', bb, idx, rvalue) | ('call', bb, callee, args)"""
    d = f.get("_defs")
    if d is not None:
        return d
    d = defaultdict(list)
    for i, j, p, rv, line in assignments(f):
        if len(p) == 1:
            d[p[0]].append(("assign", i, j, rv))
        else:
            d[p[0]].append(("partial", i, j, rv, p))
    for i, c, args, dest, tgt, line in calls(f):
        if dest is not None:
            if len(dest) == 1:
                d[dest[0]].append(("call", i, c, args))
            else:
                d[dest[0]].append(("partialcall", i, c, args, dest))
    f["_defs"] = d
    return d


def root_of(f, local, depth=12, through_calls=None):
    """Chase a temporary back through copies/moves/refs/derefs/casts to a root description:
    returns a place (list) or ('call', callee, args, bb) or ('const', k) or None.
    `through_calls`: regex of callee names that are transparent on their first arg
    (e.g. Deref::deref, AsRef, Into::into, clone)."""
    seen = set()
    cur = [local]
    for _ in range(depth):
        l = cur[0]
        if l in seen:
            return cur
        seen.add(l)
        if l <= f["argc"] and l != 0:
            return cur            # argument
        ds = defs_of_local(f).get(l, [])
        full = [x for x in ds if x[0] in ("assign", "call")]
        if len(full) != 1 or len(cur) > 1 and False:
            return cur
        d = full[0]
        if d[0] == "call":
            c = d[2]
            if through_calls and callee_matches(c, through_calls) and d[3]:
                p = op_place(d[3][0])
                if p is None:
                    return ("call", c, d[3], d[1])
                cur = p + cur[1:]
                continue
            return ("call", c, d[3], d[1], cur[1:])
        rv = d[3]
        if rv[0] == "use":
            o = rv[1]
            if o[0] == "k":
                return ("const", o[1])
            cur = o[1] + cur[1:]
        elif rv[0] in ("ref", "raw"):
            # &place : following deref cancels
            rest = cur[1:]
            if rest and rest[0] == "*":
                rest = rest[1:]
            cur = rv[2] + rest
        elif rv[0] == "cast":
            o = rv[2]
            if o[0] == "k":
                return ("const", o[1])
            cur = o[1] + cur[1:]
        else:
            return ("rvalue", rv, d[1], cur[1:])
    return cur


TRANSPARENT = re.compile(
    r"(convert::AsRef::as_ref|convert::AsMut::as_mut|"
    r"convert::Into::into|convert::From::from|clone::Clone::clone|borrow::Borrow(Mut)?::borrow(_mut)?)")


def is_err_exit_block(f, cfg, b):
    """Heuristic classification of return paths is done by `ret_kinds` below."""
    raise NotImplementedError


def result_ctor_blocks(f):
    """Blocks where _0 (or a local later moved into _0) is assigned Result::Ok / Err /
    from_residual. Returns dict bb -> 'ok'|'err'."""
    out = {}
    for i, j, p, rv, line in assignments(f):
        if rv[0] == "agg" and rv[1].endswith("result::Result") and p[0] == 0 and len(p) == 1:
            out[i] = "ok" if rv[2] == "Ok" else "err"
    for i, c, args, dest, tgt, line in calls(f):
        if dest and dest[0] == 0 and len(dest) == 1:
            if callee_matches(c, r"FromResidual.*::from_residual"):
                out[i] = "err"
    return out


def ok_err_exits(f, cfg=None):
    """Classify: returns (ok_blocks, err_blocks, unknown_blocks) where each is the set of
    blocks that *assign the return place* on a path to return. A block assigning
    `_0 = Ok(..)` is an ok-site; `_0 = Err(..)`/from_residual an err-site; other direct
    assignments of _0 (e.g. `_0 = call()` or `_0 = move _5`) are 'unknown' (pass-through)."""
    ok, err, unk = set(), set(), set()
    for i, j, p, rv, line in assignments(f):
        if p[0] == 0 and len(p) == 1:
            if rv[0] == "agg" and rv[1].endswith("result::Result"):
                (ok if rv[2] == "Ok" else err).add(i)
            else:
                unk.add(i)
    for i, c, args, dest, tgt, line in calls(f):
        if dest and dest[0] == 0 and len(dest) == 1:
            if callee_matches(c, r"FromResidual.*::from_residual"):
                err.add(i)
            else:
                unk.add(i)
    return ok, err, unk


def const_ints_in(f):
    out = []
    for i, j, p, rv, line in assignments(f):
        for o in rv_operands(rv):
            v = op_const(o)
            if v is not None:
                out.append((i, v, op_const_name(o)))
    return out


def rv_operands(rv):
    k = rv[0]
    if k == "use":
        return [rv[1]]
    if k == "cast":
        return [rv[2]]
    if k == "bin":
        return [rv[2], rv[3]]
    if k == "un":
        return [rv[2]]
    if k == "agg":
        return list(rv[3])
    if k == "rep":
        return [rv[1]]
    return []


def rv_places_read(rv):
    out = []
    for o in rv_operands(rv):
        p = op_place(o)
        if p is not None:
            out.append(p)
    if rv[0] in ("ref", "raw"):
        out.append(rv[2])
    if rv[0] == "disc":
        out.append(rv[1])
    return out


def short(name):
    """Shorten a def path for reports (keeps the implemented-for type of trait impls)."""
    def rep(m):
        inner = m.group(1)
        mm = re.match(r"^(.*?)(<.*>)? for (.*)$", inner)
        if mm:
            tr = mm.group(1).rsplit("::", 1)[-1]
            ty = re.sub(r"<.*$", "", mm.group(3)).rsplit("::", 1)[-1]
            return "<impl %s for %s>" % (tr, ty)
        return "<impl " + re.sub(r"<.*$", "", inner).rsplit("::", 1)[-1] + ">"
    # innermost <impl ...> groups contain balanced <> ; handle one nesting level
    return re.sub(r"<impl ((?:[^<>]|<(?:[^<>]|<[^<>]*>)*>)*)>", rep, name)



# ----------------------------------------------------------------------------
# operand description / guards

def dbg_name(f, local):
    nm = f.get("_dbgmap")
    if nm is None:
        nm = {}
        for name, pl in f.get("dbg", []):
            if len(pl) == 1:
                nm.setdefault(pl[0], name)
        f["_dbgmap"] = nm
    return nm.get(local)


_DESC = {"canon": False, "F": None, "cdepth": 0, "argnames": False}


def describe_place(f, p):
    """Stable textual description of a root place: 'arg:name.field...' / 'local:name' .
    In canonical mode (site_guard) names of locals are not used and arguments are positional, so renaming
    a local or a parameter does not change the description."""
    l = p[0]
    name = dbg_name(f, l)
    if 0 < l <= f["argc"]:
        if _DESC["canon"] and name != "self" and not _DESC["argnames"]:
            # a closure's own parameters are as anonymous as locals: soft tokens (ignored by guards_match)
            base = ("arg:S_p%d" if f.get("kind") == "Closure" else "arg:p%d") % l
        else:
            base = "arg:%s" % (name or ("#%d" % l))
    elif name and not _DESC["canon"]:
        base = "var:%s" % name
    else:
        base = "tmp"
    for e in p[1:]:
        if e == "*" or e == "oc":
            continue
        if e[0] == "f":
            base += "." + (e[2] if e[2] else str(e[1]))
        elif e[0] == "d":
            base += "@" + e[1]
        elif e[0] == "i":
            r = root_of(f, e[1])
            if isinstance(r, tuple) and r[0] == "const" and isinstance(r[1].get("v"), int):
                base += "[%d]" % r[1]["v"]
            else:
                base += "[]"
        elif e[0] == "c":
            base += "[%d]" % e[1]
        elif e[0] == "s":
            base += "[..]"
    return base


def kdesc(f, k):
    """Describe a constant record (resolving promoteds like `&RegId::WRITABLE`)."""
    if "promoted" in k and f is not None:
        ps = f.get("proms") or []
        idx = k["promoted"]
        if isinstance(idx, int) and idx < len(ps):
            inner = [x for x in ps[idx] if "const" in x or "v" in x or "fn" in x]
            if len(inner) == 1:
                return kdesc(None, inner[0])
            if inner:
                return "const:[" + ",".join(kdesc(None, x)[6:] for x in inner) + "]"
    if "const" in k:
        return "const:%s" % k["const"]
    if "v" in k:
        return "const:%s" % k["v"]
    if "fn" in k:
        return "fn:%s" % callee_name(k["fn"])
    if "closure" in k and _DESC["canon"]:
        return "closure{" + " ".join(closure_tokens(k["closure"])) + "}"
    return "const<%s>" % k["t"]


def kvalue(f, k):
    """Integer value of a constant record (resolving promoteds), else None."""
    if "v" in k:
        return k["v"]
    if "promoted" in k and f is not None:
        ps = f.get("proms") or []
        idx = k["promoted"]
        if isinstance(idx, int) and idx < len(ps):
            inner = [x for x in ps[idx] if "v" in x]
            if len(inner) == 1:
                return inner[0]["v"]
    return None


def describe(f, o, depth=10, through=TRANSPARENT):
    """Describe an operand by chasing temporaries to their root."""
    if o[0] == "k":
        return kdesc(f, o[1])
    p = o[1]
    r = root_of(f, p[0], depth, through)
    if isinstance(r, list):
        if _DESC["canon"] and r[0] > f["argc"] and depth > 6:
            alt = _describe_defs(f, r, depth, through)
            if alt:
                return alt + describe_place(f, r + p[1:])[3:]
        return describe_place(f, r + p[1:])
    if r[0] == "const":
        return kdesc(f, r[1])
    if r[0] == "call":
        if _DESC.get("inline") and depth > 6:
            inl = _inline_call(f, r, depth, through)
            if inl is not None:
                return inl
        inner = ",".join(describe(f, a, depth - 3, through) for a in r[2]) if depth > 3 else "…"
        suffix = ""
        for e in (r[4] if len(r) > 4 else []) + p[1:]:
            if isinstance(e, list) and e[0] == "f":
                suffix += "." + (e[2] if e[2] else str(e[1]))
            elif isinstance(e, list) and e[0] == "d":
                suffix += "@" + e[1]
        if callee_name(r[1]).endswith("::branch") and suffix in ("@Continue.0", "@Continue"):
            suffix = ""
        return "call:%s(%s)%s" % (callee_name(r[1]).rsplit("::", 1)[-1], inner, suffix)
    if r[0] == "rvalue":
        rv = r[1]
        if rv[0] == "bin":
            if depth > 3:
                return "%s(%s,%s)" % (rv[1], describe(f, rv[2], depth - 3, through), describe(f, rv[3], depth - 3, through))
            return rv[1]
        if rv[0] == "agg":
            head = "agg:%s%s" % (rv[1].rsplit("::", 1)[-1], ("::" + rv[2]) if rv[2] else "")
            if _DESC["canon"] and rv[1].startswith("closure:"):
                head += "{" + " ".join(closure_tokens(rv[1][len("closure:"):])) + "}"
            if rv[3] and depth > 3:
                return head + "(" + ",".join(describe(f, x, depth - 3, through) for x in rv[3]) + ")"
            return head
        if rv[0] == "disc":
            if (dbg_name(f, rv[1][0]) and not _DESC["canon"]) or depth <= 3:
                inner = describe_place(f, rv[1])
            else:
                inner = describe(f, ["c", rv[1]], depth - 3, through)
                if inner in ("?", "tmp") or inner.startswith("tmp"):
                    inner = describe_place(f, rv[1])
            return "disc(%s)" % inner
        return rv[0]
    return "?"


class inline_mode:
    """Within this context describe() reads through calls to small straight-line helpers whose name matches `rx`:
    `pc.saturating_add(self.offset_bytes())` is described as if the body of offset_bytes() were written in place
    (parameters substituted by the arguments). Used by formula rules so that extracting a sub-expression into a
    private helper does not change the formula that is read."""

    def __init__(self, F, rx):
        self.F, self.rx = F, rx

    def __enter__(self):
        self.old = (_DESC.get("inline"), _DESC.get("F"))
        _DESC["inline"] = self.rx
        _DESC["F"] = self.F

    def __exit__(self, *a):
        _DESC["inline"], _DESC["F"] = self.old


def _inline_call(f, r, depth, through):
    c = r[1]
    if not isinstance(c, dict) or "def" not in c:
        return None
    name = callee_name(c)
    if not re.search(_DESC["inline"], name):
        return None
    F = _DESC.get("F")
    g = F.fn(name) if F is not None else None
    if g is None or g is f or g.get("kind") == "Closure" or len(r[2]) != g.get("argc", -1):
        return None
    live = [bb for bb in g["bbs"] if not bb.get("cu")]
    if len(live) > 14 or any(bb["t"][0] in ("switch", "assert") for bb in live):
        return None            # only straight-line bodies
    rets = [describe(g, rv[1], depth - 3, through) for i, j, p, rv, line in assignments(g) if p == [0] and rv[0] == "use"]
    rets += ["call:%s(%s)" % (callee_name(c2).rsplit("::", 1)[-1], ",".join(describe(g, a, depth - 3, through) for a in a2))
             for i, c2, a2, dest, *_ in calls(g) if dest == [0]]
    rets += [describe(g, ["cp", [0]], depth - 3, through)] if not rets else []
    if len(rets) != 1 or rets[0] in ("tmp", "?"):
        return None
    out = rets[0]
    # substitute parameters (longest names first so that `arg:a` does not clobber `arg:ab`)
    subs = []
    for li in range(1, g["argc"] + 1):
        nm = dbg_name(g, li)
        subs.append(("arg:%s" % (nm or ("#%d" % li)), describe(f, r[2][li - 1], depth - 3, through)))
    for k, v in sorted(subs, key=lambda kv: -len(kv[0])):
        out = re.sub(re.escape(k) + r"(?![A-Za-z0-9_])", lambda m: v, out)
    suffix = ""
    for e in (r[4] if len(r) > 4 else []):
        if isinstance(e, list) and e[0] == "f":
            suffix += "." + (e[2] if e[2] else str(e[1]))
        elif isinstance(e, list) and e[0] == "d":
            suffix += "@" + e[1]
    return out + suffix


def _describe_defs(f, place, depth, through):
    """Canonical mode: a local with several definitions (pattern binding of several match arms, a `mut` accumulator)
    is described by the alternatives of what is assigned to it instead of by its name."""
    l = place[0]
    stack = _DESC.setdefault("stack", [])
    if (id(f), l) in stack or len(stack) > 3:
        return ""
    stack.append((id(f), l))
    try:
        alts = []
        for d in defs_of_local(f).get(l, [])[:6]:
            if d[0] == "assign":
                rv = d[3]
                if rv[0] in ("use", "cast"):
                    alts.append(describe(f, rv[1] if rv[0] == "use" else rv[2], depth - 4, through))
                elif rv[0] in ("ref", "raw"):
                    alts.append(describe(f, ["cp", rv[2]], depth - 4, through))
                elif rv[0] == "bin":
                    alts.append("%s(%s,%s)" % (rv[1], describe(f, rv[2], depth - 4, through), describe(f, rv[3], depth - 4, through)))
                elif rv[0] == "agg":
                    alts.append("agg:%s%s" % (rv[1].rsplit("::", 1)[-1], ("::" + rv[2]) if rv[2] else ""))
            elif d[0] == "call":
                alts.append("call:%s(%s)" % (callee_name(d[2]).rsplit("::", 1)[-1], ",".join(describe(f, a, depth - 4, through) for a in d[3])))
        alts = sorted(set(a for a in alts if a and a != "tmp"))
        return ("alt(" + "|".join(alts) + ")") if alts else ""
    finally:
        stack.pop()


COMMUTATIVE = {"Eq", "Ne", "Add", "Mul", "BitAnd", "BitOr", "BitXor", "AddWithOverflow", "MulWithOverflow",
               "call:saturating_add", "call:saturating_mul", "call:checked_add", "call:checked_mul", "call:wrapping_add", "call:wrapping_mul",
               "call:overflowing_add", "call:overflowing_mul", "call:min", "call:max", "call:eq", "call:ne"}
MIRROR = {"Lt": "Gt", "Gt": "Lt", "Le": "Ge", "Ge": "Le", "call:lt": "call:gt", "call:gt": "call:lt", "call:le": "call:ge", "call:ge": "call:le"}
UNWRAP_HEADS = {"call:branch", "call:ok", "call:map_err", "call:ok_or", "call:ok_or_else", "call:from", "call:into", "call:clone", "call:copied", "call:cloned",
                "call:as_ref", "call:deref", "call:borrow", "call:to_owned"}
CONV_HEADS = {"call:try_into", "call:try_from"}
PLUMB_SUFFIX = re.compile(r"^(@Ok(\.0)?|@Some(\.0)?|@Continue(\.0)?)+")


def _parse_desc(d):
    """describe() string -> tree: (head, [children], suffix) for `head(a,b,..)suffix`, else the string."""
    i = d.find("(")
    if i <= 0 or not re.match(r"^[A-Za-z_][A-Za-z0-9_:]*$", d[:i]):
        return d
    depth = 0
    parts, cur, end = [], "", None
    for k in range(i, len(d)):
        c = d[k]
        if c in "([{":
            depth += 1
            if depth == 1:
                continue
        elif c in ")]}":
            depth -= 1
            if depth == 0:
                parts.append(cur)
                end = k
                break
        elif c == "," and depth == 1:
            parts.append(cur)
            cur = ""
            continue
        cur += c
    if end is None or "(" in d[end + 1:] or "," in d[end + 1:]:
        return d
    return (d[:i], [_parse_desc(p) for p in parts], d[end + 1:])


def _unparse(t):
    return t if isinstance(t, str) else "%s(%s)%s" % (t[0], ",".join(_unparse(c) for c in t[1]), t[2])


def simplify_desc(desc):
    """describe() string with Result/Option/Try plumbing removed: `branch(x)`, `ok(x)`, `map_err(x, f)`, `ok_or(x, e)`,
    `x.into()`, `.clone()` become x; `try_into(x)` / `try_from(x)` become `conv(x)`; `@Ok.0` / `@Some.0` / `@Continue.0`
    projections are dropped. So `u64::try_from(v).ok()?` and `match u64::try_from(v) { Ok(v) => v, .. }` read the same."""
    def simp(t):
        if isinstance(t, str):
            return PLUMB_SUFFIX.sub("", t) if "@" in t else t
        head, ch, suf = t
        ch = [simp(c) for c in ch]
        suf = PLUMB_SUFFIX.sub("", suf)
        if head in UNWRAP_HEADS and ch:
            inner = ch[0]
            if isinstance(inner, str):
                return inner + suf
            return (inner[0], inner[1], inner[2] + suf)
        if head in CONV_HEADS and ch:
            return ("conv", [ch[0]], suf)
        return (head, ch, suf)
    return _unparse(simp(_parse_desc(desc)))


def flatten_terms(desc, head="call:saturating_add"):
    """Operands of a (nested, either-side) chain of the associative-commutative operator `head`."""
    t = _parse_desc(desc)

    def fl(t):
        if not isinstance(t, str) and t[0] == head and len(t[1]) == 2 and not t[2]:
            return fl(t[1][0]) + fl(t[1][1])
        return [_unparse(t)]
    return fl(t)


def commuted_variants(desc, limit=256):
    """All spellings of a describe() expression under operand swaps of commutative operators / methods and mirrored
    comparisons (`Eq(a,b)`=`Eq(b,a)`, `Gt(a,b)`=`Lt(b,a)`, `a.saturating_add(b)`=`b.saturating_add(a)`): a rule
    pattern is matched against each."""
    def var(t):
        if isinstance(t, str):
            return [t]
        head, ch, suf = t
        kids = [var(c) for c in ch]
        out = []

        def prod(i, acc):
            if len(out) >= limit:
                return
            if i == len(kids):
                out.append((head, list(acc), suf))
                if len(acc) == 2 and head in COMMUTATIVE:
                    out.append((head, [acc[1], acc[0]], suf))
                elif len(acc) == 2 and head in MIRROR:
                    out.append((MIRROR[head], [acc[1], acc[0]], suf))
                return
            for k in kids[i]:
                prod(i + 1, acc + [k])
        prod(0, [])
        return out
    seen = []
    for v in var(_parse_desc(desc)):
        u = _unparse(v)
        if u not in seen:
            seen.append(u)
    return seen[:limit]


def match_commuted(rx, desc, simplify=False):
    """re.search(rx, v) for some commuted spelling v of desc (first match) else None."""
    for v in commuted_variants(simplify_desc(desc) if simplify else desc):
        m = re.search(rx, v)
        if m:
            return m
    return None


CMP_REGION = {
    "Lt": {"lt"}, "Le": {"lt", "eq"}, "Gt": {"gt"}, "Ge": {"gt", "eq"},
    "Eq": {"eq"}, "Ne": {"lt", "gt"},
}
ALL_ORD = {"lt", "eq", "gt"}
FLIP = {"lt": "gt", "gt": "lt", "eq": "eq"}


def bool_switch_targets(t):
    """For a switch on a bool: returns (true_target, false_target) or None."""
    if t[0] != "switch":
        return None
    arms = t[2]
    if len(arms) == 1 and arms[0][0] == 0:
        return t[3], arms[0][1]
    if len(arms) == 1 and arms[0][0] == 1:
        return arms[0][1], t[3]
    return None


def guards(f):
    """All conditional branches on an integer comparison:
    [{bb, op, a, b, a_desc, b_desc, t, f, neg}] where the branch goes to `t` iff (a op b)."""
    out = []
    for i, bb in enumerate(f["bbs"]):
        if bb.get("cu"):
            continue
        tt = bool_switch_targets(bb["t"])
        if not tt:
            continue
        o = bb["t"][1]
        p = op_place(o)
        if p is None:
            continue
        neg = False
        r = root_of(f, p[0])
        # unwrap Not
        for _ in range(3):
            if isinstance(r, tuple) and r[0] == "rvalue" and r[1][0] == "un" and r[1][1] == "Not":
                neg = not neg
                q = op_place(r[1][2])
                if q is None:
                    break
                r = root_of(f, q[0])
            else:
                break
        if isinstance(r, tuple) and r[0] == "call" and len(r[2]) == 2:
            m = re.search(r"cmp::Partial(?:Ord|Eq)(?:<[^>]*>)?(?:>)?::(lt|le|gt|ge|eq|ne)$", r[1]["def"])
            if m:
                opn = m.group(1).capitalize()
                t, fl = tt
                if neg:
                    t, fl = fl, t
                out.append({"bb": i, "op": opn, "a": r[2][0], "b": r[2][1],
                            "a_desc": describe(f, r[2][0]), "b_desc": describe(f, r[2][1]),
                            "t": t, "f": fl, "line": bb["t"][4], "via": "call"})
                continue
        if isinstance(r, tuple) and r[0] == "call" and len(r[2]) == 2 and isinstance(r[1], dict) and \
                re.search(r"ops::range::Range(Inclusive)?::<Idx>::contains$", r[1].get("def", "")):
            # `(a..b).contains(&x)` is `a <= x && x < b` (`..=`: `x <= b`): two comparisons decided by one branch
            incl = "RangeInclusive" in r[1]["def"]
            rp = op_place(r[2][0])
            rr = root_of(f, rp[0]) if rp is not None else None
            lo = hi = None
            if isinstance(rr, tuple) and rr[0] == "rvalue" and rr[1][0] == "agg" and rr[1][1].endswith("ops::range::Range") and len(rr[1][3]) == 2:
                lo, hi = rr[1][3]
            elif isinstance(rr, tuple) and rr[0] == "call" and callee_name(rr[1]).endswith("RangeInclusive::<Idx>::new") and len(rr[2]) == 2:
                lo, hi = rr[2]
            if lo is not None:
                t, fl = tt
                if neg:
                    t, fl = fl, t
                x = r[2][1]
                for opn, a_, b_ in (("Le", lo, x), ("Le" if incl else "Lt", x, hi)):
                    out.append({"bb": i, "op": opn, "a": a_, "b": b_, "a_desc": describe(f, a_), "b_desc": describe(f, b_),
                                "t": t, "f": fl, "line": bb["t"][4], "via": "contains"})
                continue
        if isinstance(r, tuple) and r[0] == "rvalue" and r[1][0] == "bin" and r[1][1] in CMP_REGION:
            rv = r[1]
            t, fl = tt
            if neg:
                t, fl = fl, t
            out.append({"bb": i, "op": rv[1], "a": rv[2], "b": rv[3],
                        "a_desc": describe(f, rv[2]), "b_desc": describe(f, rv[3]),
                        "t": t, "f": fl, "line": bb["t"][4]})
    return out


def comparisons(f):
    """Every integer comparison computed in f, whether branched on or used as a value (`a <= x && x <= b` as the
    returned expression computes its second comparison into the result): [{bb, op, a, b, a_desc, b_desc}]."""
    out = []
    for i, j, p, rv, line in assignments(f):
        if rv[0] == "bin" and rv[1] in CMP_REGION:
            out.append({"bb": i, "op": rv[1], "a": rv[2], "b": rv[3], "a_desc": describe(f, rv[2]), "b_desc": describe(f, rv[3]), "line": line})
    for i, c, args, dest, tgt, line in calls(f):
        m = re.search(r"cmp::Partial(?:Ord|Eq)(?:<[^>]*>)?(?:>)?::(lt|le|gt|ge|eq|ne)$", c.get("def", "")) if isinstance(c, dict) else None
        if m and len(args) == 2:
            out.append({"bb": i, "op": m.group(1).capitalize(), "a": args[0], "b": args[1], "a_desc": describe(f, args[0]), "b_desc": describe(f, args[1]), "line": line})
    return out


def guard_region(g, a_rx, b_rx):
    """If guard g compares X (matching a_rx) with Y (matching b_rx) in either order, return
    the set of orderings of X vs Y for which the branch goes to g['t']; else None."""
    if re.search(a_rx, g["a_desc"]) and re.search(b_rx, g["b_desc"]):
        return set(CMP_REGION[g["op"]])
    if re.search(a_rx, g["b_desc"]) and re.search(b_rx, g["a_desc"]):
        return {FLIP[x] for x in CMP_REGION[g["op"]]}
    return None


def agg_blocks(f, adt_rx, variant=None):
    """Blocks that construct an aggregate of ADT matching adt_rx (and variant)."""
    out = []
    for i, j, p, rv, line in assignments(f):
        if rv[0] == "agg" and re.search(adt_rx, rv[1]) and (variant is None or rv[2] == variant):
            out.append(i)
    return out


def forward_aliases(f, seeds, through_calls=TRANSPARENT):
    """Locals that (transitively) hold a copy / reborrow / cast of any seed local.
    A projection that only derefs keeps the alias; field/index projections do not."""
    al = set(seeds)
    changed = True

    def is_alias_place(p):
        return p[0] in al and all(e == "*" or e == "oc" for e in p[1:])

    while changed:
        changed = False
        for i, j, p, rv, line in assignments(f):
            if len(p) != 1 or p[0] in al:
                continue
            src = None
            if rv[0] == "use":
                src = op_place(rv[1])
            elif rv[0] == "cast":
                src = op_place(rv[2])
            elif rv[0] in ("ref", "raw"):
                src = rv[2]
            if src is not None and is_alias_place(src):
                al.add(p[0])
                changed = True
        if through_calls is not None:
            for i, c, args, dest, tgt, line in calls(f):
                if dest is None or len(dest) != 1 or dest[0] in al or not args:
                    continue
                if callee_matches(c, through_calls):
                    src = op_place(args[0])
                    if src is not None and is_alias_place(src):
                        al.add(dest[0])
                        changed = True
    return al


def origins(f, o, depth=14, _seen=None):
    """Set of root descriptions of an operand, branching over locals with several full
    assignments (e.g. a `let x = match .. { .. => Some(a), .. => None }`), and looking through
    `Some(v)` / `Ok(v)` wrappers when the use projects `@Some.0` / `@Ok.0` / `@Continue.0`."""
    _seen = _seen or set()
    if o[0] == "k":
        return {kdesc(f, o[1])}
    p = o[1]
    r = root_of(f, p[0], depth, TRANSPARENT)
    if not isinstance(r, list):
        return {describe(f, o, depth)}
    place = r + p[1:]
    l = place[0]
    if l in _seen or (0 < l <= f["argc"]):
        return {describe_place(f, place)}
    ds = [x for x in defs_of_local(f).get(l, []) if x[0] in ("assign", "call")]
    if len(ds) <= 1:
        return {describe(f, o, depth)}
    out = set()
    rest = place[1:]
    for d in ds:
        if d[0] == "call":
            inner = ",".join(describe(f, a, depth - 3) for a in d[3]) if depth > 3 else "…"
            out.add("call:%s(%s)%s" % (callee_name(d[2]).rsplit("::", 1)[-1], inner,
                                       "".join("@" + e[1] if isinstance(e, list) and e[0] == "d" else "" for e in rest)))
            continue
        rv = d[3]
        if rv[0] == "agg":
            variant = rv[2]
            dc = [e for e in rest if isinstance(e, list) and e[0] == "d"]
            if dc and dc[0][1] == variant and rv[3]:
                fi = [e for e in rest if isinstance(e, list) and e[0] == "f"]
                idx = fi[0][1] if fi else 0
                if idx < len(rv[3]):
                    out |= origins(f, rv[3][idx], depth - 2, _seen | {l})
                    continue
            if dc and dc[0][1] != variant:
                continue      # other variant: this def cannot reach the projected payload
            if not dc and rest and isinstance(rest[0], list) and rest[0][0] == "f" and rest[0][1] < len(rv[3]):
                sub = rv[3][rest[0][1]]
                if sub[0] == "k":
                    out.add(kdesc(f, sub[1]))
                else:
                    out |= origins(f, [sub[0], sub[1] + rest[1:]], depth - 2, _seen | {l})
                continue
            out.add("agg:%s%s" % (rv[1].rsplit("::", 1)[-1], ("::" + variant) if variant else ""))
        elif rv[0] == "use":
            if rv[1][0] == "k":
                out.add(kdesc(f, rv[1][1]))
            else:
                q = rv[1][1]
                out |= origins(f, ["cp", q + rest], depth - 2, _seen | {l})
        else:
            out.add(rv[0])
    return out or {describe(f, o, depth)}


def enum_switches(f, cfg, desc_rx):
    """Switch blocks whose discriminant describes (depth 8) as matching desc_rx."""
    out = []
    rx = re.compile(desc_rx)
    for b in sorted(cfg.reach):
        t = f["bbs"][b]["t"]
        if t[0] == "switch" and rx.search(describe(f, t[1], depth=8)):
            out.append((b, t))
    return out


def arm_regions(f, cfg, t, variants=None):
    """For a switch terminator t: {value-or-variant-name: set(blocks reachable only through that arm)}.
    `variants`: {discriminant value: name}; a single missing variant is mapped to the otherwise target."""
    arms = {}
    for v, tg in t[2]:
        arms[variants.get(v, str(v)) if variants else v] = tg
    if variants and len(arms) < len(variants):
        missing = [nm for nm in variants.values() if nm not in arms]
        if len(missing) == 1:
            arms[missing[0]] = t[3]
    out = {}
    for nm, tg in arms.items():
        mine = cfg.reachable_incl(tg)
        for n2, t2 in arms.items():
            if n2 != nm and t2 != tg:
                mine = mine - cfg.reachable_incl(t2)
        out[nm] = mine
    return out


def ops_in_blocks(f, blocks, call_rx=None):
    """Set of 'bin:Op' / 'un:Op' / 'call:name' tokens occurring in the given blocks."""
    got = set()
    for b in blocks:
        for s in f["bbs"][b]["s"]:
            if s[0] == "=" and s[2][0] == "bin":
                got.add("bin:" + re.sub(r"(WithOverflow|Unchecked)$", "", s[2][1]))
            if s[0] == "=" and s[2][0] == "un":
                got.add("un:" + s[2][1])
        t = f["bbs"][b]["t"]
        if t[0] == "call" and "ptr" not in t[1]:
            nm = callee_name(t[1])
            if call_rx is None or re.search(call_rx, nm):
                got.add("call:" + nm.rsplit("::", 1)[-1])
    return got


NOISE_TOKENS = {"call", "arg", "var", "const", "agg", "tmp", "fn", "deref", "branch", "into", "from", "as_ref", "clone", "copied", "cloned",
                "self", "tuple", "closure", "std", "core", "fuel_tx", "fuel_vm", "fuel_types", "fuel_asm", "impl", "num", "usize", "u64", "u32", "u16", "u8",
                "Not", "disc", "Continue", "Some", "Ok", "unwrap_or_default", "map_err", "ok_or", "try_from", "try_into", "IntToInt", "cast"}


def leaves(desc):
    """Order-free token set of a description (identifiers only, noise removed)."""
    if _DESC.get("canon"):
        desc = simplify_desc(desc)          # `x.ok_or(E)?` / `x.map_err(f)?` are x: the error value is not part of the condition
    toks = set(t for t in re.findall(r"[A-Za-z_][A-Za-z0-9_]*", desc) if t not in NOISE_TOKENS)
    toks |= set("#" + n for n in re.findall(r"const:(-?\d+)", desc))
    return sorted(toks)


def _guard_at(f, cfg, d, sides):
    """Descriptor of the switch terminating block `d`, for the successor set `sides` that leads to the site."""
    t = f["bbs"][d]["t"]
    tt = bool_switch_targets(t)
    adt = switch_disc_adt(f, d)
    if adt is not None:
        tt = None       # `let Some(x) = e else {..}` switches {0 -> else, _ -> some}: an enum test, not a boolean
    if tt:
        on_true = tt[0] in sides
        for g in guards(f):
            if g["bb"] == d:
                reg = set(CMP_REGION[g["op"]])
                # g['t'] is the branch taken when (a op b) holds (negation already folded in)
                side_region = reg if (g["t"] in sides) else ALL_ORD - reg
                a, b = leaves(describe(f, g["a"], depth=30)), leaves(describe(f, g["b"], depth=30))
                if a > b:
                    a, b = b, a
                    side_region = {FLIP[x] for x in side_region}
                return {"kind": "cmp", "bb": d, "region": "".join(sorted(side_region)), "a": a, "b": b}
        desc = describe(f, t[1], depth=30)
        neg = desc.startswith("Not(")
        return {"kind": "bool", "bb": d, "when": (not on_true) if neg else on_true, "tokens": leaves(desc)}
    desc = describe(f, t[1], depth=30)
    vals = sorted(str(v) for v, tg in t[2] if tg in sides) + (["_"] if t[3] in sides else [])
    if adt is not None and str(adt).endswith(PLUMBING_ADTS) and vals == ["_"] and len(t[2]) == 1 and t[2][0][0] in (0, 1):
        vals = [str(1 - t[2][0][0])]          # two-variant Option / Result / ControlFlow: `_` is the other variant
    return {"kind": "disc", "bb": d, "values": vals, "tokens": leaves(desc)}


def controlling_guard(f, cfg, block):
    """Nearest conditional on which `block` is control dependent, described semantically.
    Returns dict(kind=cmp|bool|disc|none, ...) ; for cmp: region of (a vs b) on the side that
    reaches `block`, plus leaf-token sets of both operands."""
    dom = cfg.dominators()
    cands = [d for d in dom.get(block, ()) if d != block and f["bbs"][d]["t"][0] == "switch"]
    # nearest = the dominator with the largest dominator set
    cands.sort(key=lambda d: len(dom[d]), reverse=True)
    for d in cands:
        succ = cfg.succ[d]
        sides = [s for s in set(succ) if block in cfg.reachable_incl(s)]
        if len(sides) == len(set(succ)):
            continue          # reached from every side: not control dependent on d
        return _guard_at(f, cfg, d, sides)
    return {"kind": "none"}


def controlling_guards(f, cfg, block):
    """Like controlling_guard, but a block entered from several predecessors that each have their own nearer
    condition (an or-pattern match arm with an `if` guard lowers to one guard test per alternative) is described by
    those conditions: [descriptor, ...]. Falls back to the single dominating condition."""
    g = controlling_guard(f, cfg, block)
    preds = sorted(set(p for p in cfg.pred[block] if p in cfg.reach))
    hops = 0
    while len(preds) == 1 and f["bbs"][preds[0]]["t"][0] == "goto" and hops < 4:      # the arms may meet a few plain jumps earlier
        block = preds[0]
        preds = sorted(set(p for p in cfg.pred[block] if p in cfg.reach))
        hops += 1
    if len(preds) < 2:
        return [g]
    dom = cfg.dominators()
    outer = len(dom[g["bb"]]) if "bb" in g else -1
    subs = []
    for p in preds:
        if block in dom.get(p, ()):        # back edge
            return [g]
        t = f["bbs"][p]["t"]
        if t[0] == "switch" and len(set(cfg.succ[p])) > 1:
            sp = _guard_at(f, cfg, p, [block])
        else:
            sp = controlling_guard(f, cfg, p)
        if "bb" not in sp or len(dom[sp["bb"]]) <= outer:
            return [g]
        subs.append(sp)
    return subs


def bool_consumers(f, call_bb):
    """Switches that branch on the boolean result of the call terminating `call_bb` (through copies and
    `Not`): [(switch_bb, target_if_result_true, target_if_result_false)]."""
    out = []
    for i, bb in enumerate(f["bbs"]):
        if bb.get("cu"):
            continue
        tt = bool_switch_targets(bb["t"])
        p = op_place(bb["t"][1]) if tt else None
        if p is None:
            continue
        neg = False
        r = root_of(f, p[0])
        for _ in range(3):
            if isinstance(r, tuple) and r[0] == "rvalue" and r[1][0] == "un" and r[1][1] == "Not":
                neg = not neg
                q = op_place(r[1][2])
                if q is None:
                    break
                r = root_of(f, q[0])
            else:
                break
        if isinstance(r, tuple) and r[0] == "call" and r[3] == call_bb:
            t, fl = tt
            out.append((i, fl, t) if neg else (i, t, fl))
    return out


def switch_arms(f, cfg, t, names=None):
    """{variant-name | '_' : blocks reachable only through that arm} for a switch terminator; the otherwise
    arm is '_' unless exactly one variant of `names` is not listed (then it carries that name)."""
    arms = {}
    for v, tg in t[2]:
        arms[(names or {}).get(v, str(v))] = tg
    if names:
        missing = [nm for nm in names.values() if nm not in arms]
        if len(missing) == 1:
            arms[missing[0]] = t[3]
        elif missing and f["bbs"][t[3]]["t"][0] != "unreachable":
            arms["_"] = t[3]
    elif f["bbs"][t[3]]["t"][0] != "unreachable":
        arms["_"] = t[3]
    out = {}
    for nm, tg in arms.items():
        mine = cfg.reachable_incl(tg)
        for n2, t2 in arms.items():
            if n2 != nm and t2 != tg:
                mine = mine - cfg.reachable_incl(t2)
        out[nm] = mine
    return out


def infeasible_continue_blocks(f):
    """`Err(e)?` lowers to branch(Result::Err{..}) followed by a switch whose Continue arm can never be taken.
    Returns those Continue-arm target blocks (safe to prune: the operand is a literal Err aggregate)."""
    out = set()
    for i, c, args, dest, tgt, line in calls(f):
        if not callee_matches(c, r"Try(<[^>]*>)?>?::branch$") or not args or args[0][0] == "k" or tgt is None:
            continue
        r = root_of(f, args[0][1][0])
        if isinstance(r, tuple) and r[0] == "rvalue" and r[1][0] == "agg" and r[1][1].endswith("result::Result") and r[1][2] == "Err":
            t = f["bbs"][tgt]["t"]
            if t[0] == "switch":
                for v, tg in t[2]:
                    if v == 0:
                        out.add(tg)
    return out


# ---------------------------------------------------------------- canonical guard descriptors (for reviewed tables)
# A reviewed table freezes, per construction site, the *condition* under which the site is reached. To survive
# behaviour-preserving edits the condition is described without names of locals / parameters, without iterator and
# Option/Result plumbing, through `let` bindings and through closures handed to combinators; and it is compared with
# guards_match(), which tolerates added identifier tokens and a changed control shape but not a changed relation,
# polarity, constant or arithmetic operator.
PLUMBING_TOKENS = {"find", "any", "all", "filter", "filter_map", "map", "count", "position", "iter", "iter_mut", "into_iter", "enumerate", "next",
                   "is_none", "is_some", "try_for_each", "for_each", "zip", "skip", "take", "rev", "collect", "collect_vec", "flat_map", "fold", "sum",
                   "last", "first", "get", "get_mut", "then", "then_some", "ok", "and_then", "is_ok", "is_err", "unwrap_or", "reduce", "peekable",
                   "by_ref", "chain", "ok_or_else", "unwrap_or_else", "map_or", "filter_map_ok", "flatten", "index", "as_slice", "as_mut", "borrow",
                   "alt", "Break", "Err", "None", "Residual", "from_residual", "T", "E", "A", "I", "F", "U", "B", "K", "V", "closure", "rep", "find_map",
                   "try_fold", "copied", "cloned", "as_deref", "conv", "S_conv", "S_branch", "S_ok_or", "S_as_ref", "S_deref", "S_into", "S_from", "deref_mut", "as_mut_slice", "to_vec", "to_owned", "borrow_mut", "start", "end"}
NEGATORS = {"is_none"}
OP_TOKENS = {"Add", "Sub", "Mul", "Div", "Rem", "Shl", "Shr", "BitAnd", "BitOr", "BitXor", "AddWithOverflow", "SubWithOverflow", "MulWithOverflow",
             "AddUnchecked", "SubUnchecked", "MulUnchecked", "ShlUnchecked", "ShrUnchecked", "Neg", "Offset"}
PLUMBING_ADTS = ("option::Option", "result::Result", "ops::control_flow::ControlFlow")
LAZY_COMBINATORS = {"ok_or_else": "none-of", "map_err": "err-of", "unwrap_or_else": "none-of", "or_else": "none-of"}


class canon_mode:
    """Within this context describe() is name-free and follows closures (needs the Facts to find closure bodies)."""

    def __init__(self, F, argnames=False):
        self.F = F
        self.argnames = argnames

    def __enter__(self):
        self.old = dict(_DESC)
        _DESC.update(canon=True, F=self.F, argnames=self.argnames)

    def __exit__(self, *a):
        _DESC.update(self.old)


def describe_nf(F, f, o, depth=24):
    """describe() that does not use names of locals: a local with several definitions (a pattern binding shared by
    several match arms, a `let x = if .. {a} else {b}`) reads `alt(<def 1>|<def 2>|..)`; parameter names are kept.
    Rules use it to recognise a variable by what flows into it instead of by what it is called."""
    with canon_mode(F, argnames=True):
        return describe(f, o, depth=depth)


def is_op_token(t):
    return t.startswith("#") or t.startswith("=") or t in OP_TOKENS


def _clean(ts):
    return sorted(set(t for t in ts if t not in PLUMBING_TOKENS))


def switch_disc_adt(f, bb):
    """ADT whose discriminant the switch terminating `bb` tests (None when it is not a discriminant switch)."""
    t = f["bbs"][bb]["t"]
    if t[0] != "switch" or t[1][0] == "k":
        return None
    r = root_of(f, t[1][1][0])
    if isinstance(r, tuple) and r[0] == "rvalue" and r[1][0] == "disc" and len(r[1]) > 2:
        return r[1][2]
    return None


def closure_tokens(name):
    """Condition tokens of a closure body: operands of its comparisons, described switch operands and the tested
    discriminant values of non-plumbing enums (`=4`). Used when a guard's condition lives in a closure handed to
    position / any / find / filter."""
    F = _DESC["F"]
    if F is None or _DESC["cdepth"] >= 2:
        return []
    cf = F.fn(name)
    if cf is None:
        return []
    _DESC["cdepth"] += 1
    try:
        toks = set()
        gs = {g["bb"]: g for g in guards(cf)}
        for i, bb in enumerate(cf["bbs"]):
            if bb.get("cu") or bb["t"][0] != "switch":
                continue
            if i in gs:
                toks |= set(leaves(describe(cf, gs[i]["a"], depth=30))) | set(leaves(describe(cf, gs[i]["b"], depth=30)))
                toks.add(gs[i]["op"] if gs[i]["op"] in ("Eq", "Ne") else "Ord")
                continue
            t = bb["t"]
            toks |= set(leaves(describe(cf, t[1], depth=30)))
            adt = switch_disc_adt(cf, i)
            if adt is not None and not str(adt).endswith(PLUMBING_ADTS):
                toks |= set("=%s" % v for v, tg in t[2])
        for i, c, args, dest, tgt, line in calls(cf):
            toks.add(callee_name(c).rsplit("::", 1)[-1])
        # what a closure computes is secondary to what the guard tests (a `.map(|w| w.len())` on the way does not change
        # whether the Option is None): its tokens are *soft* (prefix `~`, ignored by guards_match) except tested variants
        return sorted(t if t.startswith("=") else "S_" + t for t in _clean(toks))
    finally:
        _DESC["cdepth"] -= 1


def canon_guard(g, f=None):
    """Canonical form of a controlling_guard() descriptor (see section comment)."""
    bb = g.get("bb")
    g = dict(g)
    g.pop("bb", None)
    k = g.get("kind")
    if k == "cmp":
        a, b = _clean(g["a"]), _clean(g["b"])
        region = set(re.findall(r"lt|eq|gt", g["region"]))
        if a > b:
            a, b = b, a
            region = {FLIP[x] for x in region}
        return {"kind": "cmp", "region": "".join(sorted(region)), "a": a, "b": b}
    if k == "bool":
        raw = set(g.get("tokens", []))
        toks = _clean(raw)
        when = bool(g.get("when")) ^ bool(raw & NEGATORS)
        if not toks:
            return {"kind": "plumbing"}
        return {"kind": "bool", "when": when, "tokens": toks}
    if k == "disc":
        toks = _clean(g.get("tokens", []))
        adt = str(switch_disc_adt(f, bb)) if (f is not None and bb is not None) else ""
        vals = g.get("values") or []
        if adt.endswith("option::Option") and vals in (["0"], ["1"]):
            return {"kind": "none-of" if vals == ["0"] else "some-of", "tokens": toks}
        if adt.endswith("result::Result") and vals in (["0"], ["1"]):
            return {"kind": "err-of" if vals == ["1"] else "ok-of", "tokens": toks}
        if adt.endswith("ControlFlow") and vals in (["0"], ["1"]):
            return {"kind": "fail-of" if vals == ["1"] else "pass-of", "tokens": toks}
        if not toks and (not adt or adt == "None" or adt.endswith(PLUMBING_ADTS)):
            return {"kind": "plumbing"}
        return {"kind": "disc", "values": vals, "tokens": toks}
    if k in ("source", "none-of", "err-of"):
        return {"kind": k if k != "source" else LAZY_COMBINATORS.get(g.get("via"), "none-of"), "tokens": _clean(g.get("tokens", []))}
    return {"kind": k}


def parent_fn(name):
    return re.sub(r"(::\{closure#\d+\})+$", "", name)


def _closure_use(F, n):
    """(parent fn record, callee short name, other args) of the call in the parent that receives closure `n`."""
    m = re.match(r"^(.*)::\{closure#(\d+)\}$", n)
    if not m:
        return None
    pf = F.fn(m.group(1))
    if pf is None:
        return None
    mark = "closure#%s}" % m.group(2)
    for bi, c, args, dest, tgt, l in calls(pf):
        hit = []
        for k, a in enumerate(args):
            if a[0] == "k":
                if mark in str(a[1].get("closure", "")) + str(a[1].get("t", "")):
                    hit.append(k)
            else:
                r = root_of(pf, a[1][0])
                if isinstance(r, tuple) and r[0] == "rvalue" and r[1][0] == "agg" and r[1][1].endswith(mark):
                    hit.append(k)
        if hit:
            return pf, callee_name(c).rsplit("::", 1)[-1], [a for k, a in enumerate(args) if k not in hit], bi
    return None


def site_guard(F, n, f, cfg, block, value_local=None, value_rx=None):
    """Canonical descriptors ([..], usually one) of the condition under which `block` of function `n` runs.
      * a site inside a closure handed to ok_or_else / map_err / unwrap_or_else (and unguarded inside it) is described
        by the Option/Result the combinator is applied to (none-of / err-of);
      * a value built eagerly as the argument of `ok_or(value)` is described the same way (none-of the receiver);
      * otherwise the nearest controlling branch; for a site in any other closure the operands of the call that
        receives the closure are added as context tokens (what the closure iterates over)."""
    with canon_mode(F):
        use = _closure_use(F, n)
        gs = [canon_guard(g0, f) for g0 in controlling_guards(f, cfg, block)]
        if use is not None:
            pf, nm, others, bi = use
            toks = set()
            for a in others:
                toks |= set(leaves(describe(pf, a, depth=30)))
            if nm in LAZY_COMBINATORS and all(g["kind"] in ("none", "plumbing") for g in gs):
                return [{"kind": LAZY_COMBINATORS[nm], "tokens": _clean(toks)}]
            if toks:
                for g in gs:
                    g["ctx"] = _clean(toks)
        if value_local is not None or value_rx is not None:
            al = forward_aliases(f, [value_local]) if value_local is not None else set()
            grew = True
            while grew and al:          # the error value wrapped into an outer error (`CheckError::Validity(e)`) is still the value
                grew = False
                for i_, j_, p_, rv_, line_ in assignments(f):
                    if len(p_) == 1 and p_[0] not in al and rv_[0] == "agg" and any(o[0] != "k" and o[1][0] in al and len(o[1]) == 1 for o in rv_[3]):
                        al |= forward_aliases(f, [p_[0]])
                        grew = True
            for bi, c, args, dest, tgt, l in calls(f):
                if callee_matches(c, r"Option::<T>::ok_or$") and len(args) == 2 and bi in cfg.reachable_incl(block):
                    p = op_place(args[1])
                    vd = describe(f, args[1], depth=12)
                    if (p is not None and p[0] in al) or (value_rx is not None and value_rx in vd):
                        return [{"kind": "none-of", "tokens": _clean(leaves(describe(f, args[0], depth=30)))}]
        return gs


def _ids_ops(g):
    ids, ops = set(), set()
    for key in ("a", "b", "tokens", "ctx"):
        for t in g.get(key, []) or []:
            if _soft(t):
                continue
            (ops if is_op_token(t) else ids).add(t)
    return ids, ops


def _soft(t):
    return t.startswith("S_")


def _sup(new, old):
    """token list `new` keeps every token of `old`; operator / constant tokens must be identical; soft tokens are ignored."""
    n_ids = {t for t in new if not is_op_token(t) and not _soft(t)}
    o_ids = {t for t in old if not is_op_token(t) and not _soft(t)}
    n_ops = {t for t in new if is_op_token(t)}
    o_ops = {t for t in old if is_op_token(t)}
    return n_ids >= o_ids and n_ops == o_ops


def guard_match(old, new):
    """'exact' | 'tolerant' | 'shape-changed' | None (no match). Tolerance (a necessary-condition comparison, never an
    equivalence proof): same kind -> same relation / polarity / matched values, every reviewed identifier token still
    present, identical constants and arithmetic operators; different kind (the control shape was rewritten: loop <->
    iterator chain, match <-> ok_or, closure <-> inline) -> every reviewed identifier token still takes part."""
    if old == new:
        return "exact"
    ko, kn = old.get("kind"), new.get("kind")
    octx = old.get("ctx", [])
    if ko == kn:
        if ko == "cmp":
            for a, b, reg in ((new["a"], new["b"], new["region"]),
                              (new["b"], new["a"], "".join(sorted(FLIP[x] for x in re.findall(r"lt|eq|gt", new["region"]))))):
                if reg == old["region"] and _sup(a + new.get("ctx", []), old["a"]) and _sup(b + new.get("ctx", []), old["b"]):
                    return "tolerant"
            return None
        if ko == "bool":
            return "tolerant" if old["when"] == new["when"] and _sup(new["tokens"] + new.get("ctx", []), old["tokens"] + octx) else None
        if ko == "disc":
            return "tolerant" if old["values"] == new["values"] and _sup(new["tokens"] + new.get("ctx", []), old["tokens"] + octx) else None
        if "tokens" in old:
            return "tolerant" if _sup(new.get("tokens", []) + new.get("ctx", []), old["tokens"] + octx) else None
        return None
    if ko in ("none", "plumbing") or kn in ("none", "plumbing", "closure-unresolved"):
        return None
    oi, oo = _ids_ops(old)
    ni, no = _ids_ops(new)
    # a comparison against a constant (`count != 1`) has no equivalent without that constant (`any(..)` is weaker)
    return "shape-changed" if oi and ni >= oi and no >= oo else None


def guards_match(old_list, new_list):
    """Row comparison: every reviewed descriptor is matched by a current one and every current descriptor matches a
    reviewed one. Returns (ok, how) with how the weakest match used."""
    rank = {"exact": 0, "tolerant": 1, "shape-changed": 2}
    worst = "exact"
    for o in old_list:
        ms = [m for m in (guard_match(o, n) for n in new_list) if m]
        if not ms:
            return False, "reviewed condition %s has no counterpart" % json.dumps(o, sort_keys=True)
        best = min(ms, key=rank.get)
        worst = max(worst, best, key=rank.get)
    for n in new_list:
        ms = [m for m in (guard_match(o, n) for o in old_list) if m]
        if not ms:
            return False, "current condition %s matches no reviewed condition" % json.dumps(n, sort_keys=True)
        best = min(ms, key=rank.get)
        worst = max(worst, best, key=rank.get)
    return True, worst
