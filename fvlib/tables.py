"""Reviewed-table comparison shared by C19 (validity rules), C29 (internal-bug sites) and C02 (panic-capable decode sites).
Rows are keyed "<what> @ <function>" and hold canonical condition descriptors (core.site_guard); rows are compared with
core.guards_match, and a row whose site moved to another function (helper extracted / inlined) is followed by <what>."""
import json

from fvlib.core import guards_match


def compare(rep, rule, want, cur, missing_is_violation, new_is_violation, what, reason_key=None):
    """want: key -> [descriptor]; cur: key -> [(descriptor, where)]."""
    def uniq(ds):
        u = {json.dumps(d, sort_keys=True): d for d in ds}
        return [u[x] for x in sorted(u)]
    stats = {"exact": 0, "tolerant": 0, "shape-changed": 0, "moved": 0}
    extra = [k for k in sorted(cur) if k not in want]
    consumed = set()
    for k in sorted(want):
        row = want[k]
        old = uniq(row["guards"] if isinstance(row, dict) else row)
        why = (row.get(reason_key, "") if isinstance(row, dict) and reason_key else "")
        if k in cur:
            new = uniq(d for d, _ in cur[k])
            ok, how = guards_match(old, new)
            if ok:
                stats[how] += 1
            rep.check(ok, rule, ("guard:" if reason_key else "") + k, cur[k][0][1],
                      "the condition of %s %s changed: %s; reviewed %s, now %s%s" % (what, k, how, json.dumps(old, sort_keys=True), json.dumps(new, sort_keys=True), (" (%s)" % why) if why else ""))
            continue
        head = k.split(" @ ")[0]
        cands = [e for e in extra if e.split(" @ ")[0] == head and e not in consumed]
        new = uniq(d for e in cands for d, _ in cur[e])
        ok, how = guards_match(old, new) if cands else (False, "")
        if ok:
            consumed.update(cands)
            stats["moved"] += 1
            rep.check(True, rule, ("guard:" if reason_key else "") + k, cur[cands[0]][0][1], "")
            rep.note("%s: %s now lives in %s with a matching condition (%s)" % (rule, k, [e.split(" @ ", 1)[1] for e in cands], how))
        elif missing_is_violation:
            rep.bad(rule, k, None, "%s disappeared: %s is no longer constructed in %s%s" % (what, head, k.split(" @ ", 1)[1],
                    (" (same variant elsewhere with a different condition: %s)" % json.dumps(new, sort_keys=True)) if cands else ""))
    for k in extra:
        if k in consumed:
            continue
        ds = uniq(d for d, _ in cur[k])
        if new_is_violation:
            rep.bad(rule, "UNREVIEWED:" + k, cur[k][0][1], "new %s %s (condition %s): must be reviewed and added to the table" % (what, k, json.dumps(ds, sort_keys=True)))
        else:
            rep.note("new %s (not in the reviewed table): %s %s" % (what, k, json.dumps(ds, sort_keys=True)))
    rep.note("%s: rows matched exact=%d tolerant=%d shape-changed=%d moved=%d" % (rule, stats["exact"], stats["tolerant"], stats["shape-changed"], stats["moved"]))
    return stats
