#!/bin/bash
# mk_nt.sh <ID> [prefix] : scratch worktree /tmp/<prefix>-<ID> of /repo HEAD with PROPERTY.txt (property text only)
set -e
ID=$1; PFX=${2:-nt}
D=/tmp/$PFX-$ID
git -C /repo worktree add --detach $D HEAD >/dev/null 2>&1
python3 - "$ID" "$D" <<'P'
import json,sys
for l in open('/verif/properties.jsonl'):
    p=json.loads(l)
    if p['id']==sys.argv[1]:
        json.dump(p,open(sys.argv[2]+'/PROPERTY.txt','w'),indent=1)
P
echo $D
