#!/usr/bin/env python3
"""save_seed.py <ID> <dirname> <property> "<summary>" "<needs>" — copy a verified seed from /tmp/wt-<ID>/seed into /verif/seeded/<dirname>"""
import json, os, shutil, sys
wid, name, prop, summary, needs = sys.argv[1:6]
also = sys.argv[6].split(",") if len(sys.argv) > 6 and sys.argv[6] else []
src = "/tmp/wt-%s/seed" % wid
dst = "/verif/seeded/" + name
os.makedirs(dst, exist_ok=True)
for f in ("patch.diff", "NOTES.md", "VERIFY.txt"):
    shutil.copy(os.path.join(src, f), dst)
for f in os.listdir(os.path.join(src, "demo")):
    shutil.copy(os.path.join(src, "demo", f), dst)
ver = open(os.path.join(src, "VERIFY.txt")).read()
meta = {"property": prop, "summary": summary, "needs": needs,
        "demo": "copy seed_demo.rs to fuel-vm/tests/seed_demo.rs; cargo test -p fuel-vm --offline --test seed_demo",
        "confirmed": "tools/verify_seed.sh in a scratch worktree (demo fails with patch, passes without; cargo test --workspace passes with patch): " + " | ".join(ver.strip().splitlines()),
        "origin": "independent sub-agent given only the property text"}
if also:
    meta["also_breaks"] = also
json.dump(meta, open(os.path.join(dst, "meta.json"), "w"), indent=1)
print("saved", dst)
