#!/bin/bash
# vw.sh <n> <command...> : run a /verif developer command against scratch worktree /tmp/vw<n> (own facts cache and evidence dir)
N=$1; shift
FV_REPO=/tmp/vw$N FV_CACHE=/tmp/vw$N-cache FV_EVIDENCE_DIR=/tmp/vw$N-ev "$@"
