#!/usr/bin/env python3
"""Write tables/param_names.json: for every non-test function of the workspace crates, the names and types of its
parameters on the reviewed tree. The rules' patterns name parameters (`arg:idx`, `arg:create`); at fact load a function
whose parameter *types* are unchanged but whose parameter *names* differ is read with the reviewed names (a parameter is
identified by its position), so renaming a parameter is invisible to every rule.
Usage: tools/mk_param_table.py <facts-dir> [<facts-dir> ...]   (developer tool; run on the clean tree)"""
import json, os, sys
VERIF = os.path.dirname(os.path.dirname(os.path.abspath(__file__)))
sys.path.insert(0, VERIF)
os.environ["FV_NO_PARAM_ALIAS"] = "1"
from fvlib.core import Facts, WORKSPACE_CRATES, dbg_name  # noqa: E402
tab = {}
for d in sys.argv[1:]:
    F = Facts(d)
    for c in WORKSPACE_CRATES:
        if not os.path.exists(os.path.join(d, c + ".json")):
            continue
        for n, f in F.fns(c).items():
            if "::tests::" in n or "::test::" in n or "{closure" in n or f.get("exp") or f["argc"] == 0:
                continue
            names = [dbg_name(f, l) for l in range(1, f["argc"] + 1)]
            if all(x in (None, "self") for x in names):
                continue
            tab.setdefault(n, [[names[l - 1], f["locals"][l]] for l in range(1, f["argc"] + 1)])
json.dump(tab, open(os.path.join(VERIF, "tables", "param_names.json"), "w"), indent=0, sort_keys=True)
print("param table: %d functions" % len(tab))
