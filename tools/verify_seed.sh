#!/bin/bash
# usage: verify_seed.sh <worktree> <demo test target name, e.g. seed_demo> [package]
# Confirms in the scratch worktree: (1) with patch, existing workspace tests pass (demo moved away),
# (2) demo fails with patch, (3) demo passes without patch.  Writes <wt>/seed/VERIFY.txt
WT="$1"; T="${2:-seed_demo}"; PKG="${3:-fuel-vm}"
cd "$WT" || exit 9
export CARGO_NET_OFFLINE=true CARGO_TARGET_DIR="$WT/target"
DEMO="$PKG/tests/$T.rs"
OUT="$WT/seed/VERIFY.txt"; : > "$OUT"
git apply --check -R seed/patch.diff 2>/dev/null || { git checkout -- . ; git apply seed/patch.diff || { echo "patch does not apply" >> "$OUT"; exit 9; }; }
[ -f "$DEMO" ] || cp seed/demo/$T.rs "$DEMO"
# (2) demo with patch
cargo test -p $PKG --offline -j 8 --test $T > seed/demo_with_patch.log 2>&1; r2=$?
echo "demo_with_patch_exit=$r2 (expect non-zero)" >> "$OUT"; grep -E "^test result" seed/demo_with_patch.log >> "$OUT"
# (3) demo without patch
git apply -R seed/patch.diff
cargo test -p $PKG --offline -j 8 --test $T > seed/demo_without_patch.log 2>&1; r3=$?
echo "demo_without_patch_exit=$r3 (expect 0)" >> "$OUT"; grep -E "^test result" seed/demo_without_patch.log >> "$OUT"
git apply seed/patch.diff
# (1) existing suite with patch, demo moved away
mv "$DEMO" /tmp/$T.$$.rs
cargo test --workspace --offline -j 8 --no-fail-fast > seed/suite_with_patch.log 2>&1; r1=$?
mv /tmp/$T.$$.rs "$DEMO"
echo "suite_with_patch_exit=$r1 (expect 0)" >> "$OUT"
grep -E "^test result" seed/suite_with_patch.log | awk '{p+=$4; f+=$6} END {print "suite passed=" p " failed=" f}' >> "$OUT"
cat "$OUT"
