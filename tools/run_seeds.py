#!/usr/bin/env python3
"""Apply every kept seeded mutation to /repo in turn, run the check(s) of the property it breaks,
restore /repo, and report which rule caught it.  Usage: tools/run_seeds.py [name-substring ...]"""
import json, os, subprocess, sys
VERIF = os.path.dirname(os.path.dirname(os.path.abspath(__file__)))
REPO = os.environ.get("FV_REPO", "/repo")
sel = sys.argv[1:]
rows = []
shard = os.environ.get("FV_SHARD")        # "i/n": developer runs split over scratch worktrees (results merged into RESULTS.json under a lock)
allnames = sorted(n for n in os.listdir(os.path.join(VERIF, "seeded")) if os.path.isdir(os.path.join(VERIF, "seeded", n)))
if shard:
    si, sn = (int(x) for x in shard.split("/"))
    allnames = [n for k, n in enumerate(allnames) if k % sn == si]
for name in allnames:
    d = os.path.join(VERIF, "seeded", name)
    if not os.path.isdir(d) or (sel and not any(s in name for s in sel)):
        continue
    meta = json.load(open(os.path.join(d, "meta.json")))
    props = [meta["property"]] + meta.get("also_breaks", [])
    st = subprocess.run(["git", "-C", REPO, "status", "--porcelain"], capture_output=True, text=True).stdout.strip()
    if st:
        print("refusing: /repo not clean:", st); sys.exit(2)
    r = subprocess.run(["git", "-C", REPO, "apply", os.path.join(d, "patch.diff")])
    if r.returncode != 0:
        rows.append((name, "-", "PATCH DOES NOT APPLY", "")); continue
    try:
        for pid in props:
            if not os.path.exists(os.path.join(VERIF, "props", pid + ".py")):
                rows.append((name, pid, "no check yet", "")); continue
            p = subprocess.run([os.path.join(VERIF, "check"), pid], capture_output=True, text=True)
            rules = [l.strip() for l in p.stdout.splitlines() if l.startswith("  rule=")]
            rows.append((name, pid, "CAUGHT" if p.returncode == 1 else ("MISSED rc=%d" % p.returncode), "; ".join(rules[:3])))
    finally:
        subprocess.run(["git", "-C", REPO, "checkout", "--", "."])
for r in rows:
    print("%-42s %-4s %-12s %s" % r)
import fcntl
rp = os.path.join(VERIF, "seeded", "RESULTS.json")
lk = open(rp + ".lock", "w")
fcntl.flock(lk, fcntl.LOCK_EX)
old = json.load(open(rp)) if ((sel or shard) and os.path.exists(rp)) else []
done = {(r[0], r[1]) for r in rows}
merged = [list(r) for r in old if (r[0], r[1]) not in done] + [list(r) for r in rows]
merged.sort()
json.dump(merged, open(rp, "w"), indent=1)
