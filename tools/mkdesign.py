#!/usr/bin/env python3
"""Rewrite the AUTO regions of /verif/DESIGN.md from the machinery itself:
  <!-- AUTO:props -->   one section per claimed property, from the props module docstring (the rules as implemented)
  <!-- AUTO:summary --> table property -> rules / obligations on the last clean run / known findings
  <!-- AUTO:seeds -->   table seeded change -> property -> rule(s) that caught it
  <!-- AUTO:mutants --> self-test corpus counts per property
Run after `python3 mkmanifest.py` and a clean run of all checks (+ tools/run_seeds.py)."""
import importlib
import json
import os
import re
import sys

VERIF = os.path.dirname(os.path.dirname(os.path.abspath(__file__)))
sys.path.insert(0, VERIF)
props = [json.loads(l) for l in open(os.path.join(VERIF, "properties.jsonl"))]
titles = {p["id"]: p["title"] for p in props}


def region(text, name, body):
    rx = re.compile(r"(<!-- AUTO:%s -->\n).*?(<!-- /AUTO:%s -->)" % (name, name), re.S)
    assert rx.search(text), name
    return rx.sub(lambda m: m.group(1) + body + m.group(2), text)


def props_sections():
    out = []
    for p in props:
        pid = p["id"]
        if not os.path.exists(os.path.join(VERIF, "props", pid + ".py")):
            continue
        m = importlib.import_module("props." + pid)
        doc = (m.__doc__ or "").strip("\n")
        lines = doc.split("\n")
        out.append("### %s %s\n" % (pid, titles[pid]))
        out.append("```\n" + "\n".join(lines[1:] if lines and lines[0].startswith(pid) else lines).strip("\n") + "\n```\n")
        cf = getattr(m, "CFGS", ["A"])
        out.append("Facts: configuration%s %s. Check: `./check %s`.\n" % ("s" if len(cf) > 1 else "", "+".join(cf), pid))
    return "\n".join(out) + "\n"


def summary():
    kf = json.load(open(os.path.join(VERIF, "known_findings.json")))
    known = {}
    for f in kf.get("findings", []):
        known.setdefault(f["property"], []).append(f)
    rows = ["| id | claimed | rules (last clean run) | obligations | discharged | known findings |", "|----|---------|------------------------|-------------|------------|----------------|"]
    man = json.load(open(os.path.join(VERIF, "MANIFEST.json")))
    na = {x["property_id"]: x["reason"] for x in man["not_applicable"]}
    for p in props:
        pid = p["id"]
        ev = os.path.join(VERIF, "evidence", pid + ".json")
        if pid in na:
            rows.append("| %s | no | — | — | — | not applicable: %s |" % (pid, na[pid].split(";")[0].split("(DESIGN")[0].strip()[:110]))
            continue
        e = json.load(open(ev))
        cov = e["coverage"]
        rules = cov.get("rules") or {}
        rn = ", ".join(sorted(rules)) if isinstance(rules, dict) else ""
        rows.append("| %s | yes | %s | %s | %s | %s |" % (pid, rn, cov.get("obligations"), cov.get("discharged"), len(known.get(pid, [])) or ""))
    return "\n".join(rows) + "\n"


def seeds():
    rows = ["| seeded change | property | needs | caught by (rule: key) |", "|---------------|----------|-------|-----------------------|"]
    res = {}
    rp = os.path.join(VERIF, "seeded", "RESULTS.json")
    if os.path.exists(rp):
        for name, pid, verdict, rules in json.load(open(rp)):
            res.setdefault(name, []).append((pid, verdict, rules))
    for name in sorted(os.listdir(os.path.join(VERIF, "seeded"))):
        d = os.path.join(VERIF, "seeded", name)
        if not os.path.isdir(d):
            continue
        meta = json.load(open(os.path.join(d, "meta.json")))
        caught = []
        for pid, verdict, rules in res.get(name, []):
            rs = re.findall(r"rule=(\S+) key=([^;]+)", rules)
            caught.append("%s %s: %s" % (pid, verdict, "; ".join("%s: %s" % (a, b.strip()[:60]) for a, b in rs[:2])))
        rows.append("| %s | %s | %s | %s |" % (name, meta["property"] + ("+" + "+".join(meta.get("also_breaks", [])) if meta.get("also_breaks") else ""), meta["needs"][:140].replace("|", "/"), "<br>".join(caught).replace("|", "/")))
    return "\n".join(rows) + "\n"


def mutants():
    m = json.load(open(os.path.join(VERIF, "selftest", "mutants.json")))
    per = {}
    for x in m:
        for p in x["props"]:
            k = per.setdefault(p, [0, 0])
            k[1 if x.get("kind") == "neutral" else 0] += 1
    rows = ["| property | breaking mutants | neutral variants |", "|----------|------------------|------------------|"]
    for p in sorted(per):
        rows.append("| %s | %d | %d |" % (p, per[p][0], per[p][1]))
    rows.append("| total | %d | %d |" % (sum(v[0] for v in per.values()), sum(v[1] for v in per.values())))
    return "\n".join(rows) + "\n"


def main():
    path = os.path.join(VERIF, "DESIGN.md")
    t = open(path).read()
    t = region(t, "props", props_sections())
    t = region(t, "summary", summary())
    t = region(t, "seeds", seeds())
    t = region(t, "mutants", mutants())
    open(path, "w").write(t)
    print("DESIGN.md regions refreshed")


main()
