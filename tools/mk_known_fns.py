#!/usr/bin/env python3
"""Write tables/known_fns.json: the definition paths of every function (closures excluded) of the workspace crates on the
reviewed tree. A function that is not in this list is *new*; fvlib.core.inline_new_helpers inlines small new helpers into
their callers at fact load, so that extracting part of an anchored function into a private helper leaves every rule
looking at the same body. Usage: tools/mk_known_fns.py <facts-dir> [...]  (developer tool; run on the clean tree)"""
import json, os, sys
VERIF = os.path.dirname(os.path.dirname(os.path.abspath(__file__)))
sys.path.insert(0, VERIF)
os.environ["FV_NO_PARAM_ALIAS"] = "1"
os.environ["FV_NO_INLINE"] = "1"
from fvlib.core import Facts, WORKSPACE_CRATES  # noqa: E402
names = set()
for d in sys.argv[1:]:
    F = Facts(d)
    for c in WORKSPACE_CRATES:
        if os.path.exists(os.path.join(d, c + ".json")):
            names |= {n for n in F.fns(c) if "{closure" not in n}
json.dump(sorted(names), open(os.path.join(VERIF, "tables", "known_fns.json"), "w"), indent=0)
print("known functions: %d" % len(names))
