#!/bin/bash
# usage: verify_seed2.sh <worktree> "<demo cargo test args>" "<suite extra args after -->"
# For demos living inside the crate's own test module (cannot be moved away): the suite is run with
# the demo filtered out by name.
WT="$1"; DEMO_ARGS="$2"; SKIP="$3"
cd "$WT" || exit 9
export CARGO_NET_OFFLINE=true CARGO_TARGET_DIR="$WT/target"
OUT="$WT/seed/VERIFY.txt"; : > "$OUT"
git apply --check -R seed/patch.diff 2>/dev/null || { echo "patch not applied in worktree" >> "$OUT"; exit 9; }
cargo test --offline -j 8 $DEMO_ARGS > seed/demo_with_patch.log 2>&1; r2=$?
echo "demo_with_patch_exit=$r2 (expect non-zero)" >> "$OUT"; grep -E "^test result" seed/demo_with_patch.log >> "$OUT"
git apply -R seed/patch.diff
cargo test --offline -j 8 $DEMO_ARGS > seed/demo_without_patch.log 2>&1; r3=$?
echo "demo_without_patch_exit=$r3 (expect 0)" >> "$OUT"; grep -E "^test result" seed/demo_without_patch.log >> "$OUT"
git apply seed/patch.diff
cargo test --workspace --offline -j 8 --no-fail-fast -- $SKIP > seed/suite_with_patch.log 2>&1; r1=$?
echo "suite_with_patch_exit=$r1 (expect 0)" >> "$OUT"
grep -E "^test result" seed/suite_with_patch.log | awk '{p+=$4; f+=$6} END {print "suite passed=" p " failed=" f}' >> "$OUT"
cat "$OUT"
