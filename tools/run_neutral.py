#!/usr/bin/env python3
"""Apply each behaviour-preserving diff in <dir>/n*.diff to /repo in turn, run the given checks (or all), expect silence.
Usage: tools/run_neutral.py <dir> [Cxx ...]"""
import glob, json, os, subprocess, sys
VERIF = os.path.dirname(os.path.dirname(os.path.abspath(__file__)))
d = os.path.abspath(sys.argv[1])
props = sys.argv[2:] or sorted(p[:-3] for p in os.listdir(os.path.join(VERIF, "props")) if p.startswith("C") and p.endswith(".py"))
bad = 0
for diff in sorted(glob.glob(os.path.join(d, "n*.diff"))):
    st = subprocess.run(["git", "-C", "/repo", "status", "--porcelain"], capture_output=True, text=True).stdout.strip()
    if st:
        print("refusing: /repo not clean"); sys.exit(2)
    if subprocess.run(["git", "-C", "/repo", "apply", diff]).returncode != 0:
        print("%s: DOES NOT APPLY" % diff); continue
    try:
        for pid in props:
            p = subprocess.run([os.path.join(VERIF, "check"), pid], capture_output=True, text=True)
            lines = [l.strip() for l in p.stdout.splitlines() if l.startswith("  rule=") or l.startswith("UNDECIDED")]
            if p.returncode != 0:
                bad += 1
            print("%-28s %-4s %s %s" % (os.path.basename(os.path.dirname(diff.rstrip("/"))) + "/" + os.path.basename(diff), pid, "silent" if p.returncode == 0 else "ALARM rc=%d" % p.returncode, "; ".join(lines[:3])))
    finally:
        subprocess.run(["git", "-C", "/repo", "checkout", "--", "."])
print("neutral run: %d alarms" % bad)
