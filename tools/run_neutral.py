#!/usr/bin/env python3
"""Apply each behaviour-preserving diff in <dir>/n*.diff to /repo in turn, run the given checks (or all), expect silence.
Usage: tools/run_neutral.py <dir> [Cxx ...]"""
import glob, json, os, subprocess, sys
VERIF = os.path.dirname(os.path.dirname(os.path.abspath(__file__)))
REPO = os.environ.get("FV_REPO", "/repo")
d = os.path.abspath(sys.argv[1])
props = sys.argv[2:] or sorted(p[:-3] for p in os.listdir(os.path.join(VERIF, "props")) if p.startswith("C") and p.endswith(".py"))
bad = 0
for diff in sorted(glob.glob(os.path.join(d, "n*.diff"))):
    st = subprocess.run(["git", "-C", REPO, "status", "--porcelain"], capture_output=True, text=True).stdout.strip()
    if st:
        print("refusing: /repo not clean"); sys.exit(2)
    if subprocess.run(["git", "-C", REPO, "apply", diff]).returncode != 0:
        print("%s: DOES NOT APPLY" % diff); continue
    try:
        import concurrent.futures
        def run1(pid):
            return pid, subprocess.run([os.path.join(VERIF, "check"), pid], capture_output=True, text=True)
        # facts first (one check per configuration), then the rest in parallel (fact cache is digest-locked)
        first = [p for p in ("C07", "C28") if p in props] or props[:1]
        results = dict(run1(p) for p in first)
        with concurrent.futures.ThreadPoolExecutor(max_workers=int(os.environ.get("FV_PAR", "6"))) as ex:
            for pid, p in ex.map(run1, [p for p in props if p not in results]):
                results[pid] = p
        for pid in props:
            p = results[pid]
            lines = [l.strip() for l in p.stdout.splitlines() if l.startswith("  rule=") or l.startswith("UNDECIDED")]
            if p.returncode != 0:
                bad += 1
            print("%-28s %-4s %s %s" % (os.path.basename(os.path.dirname(diff.rstrip("/"))) + "/" + os.path.basename(diff), pid, "silent" if p.returncode == 0 else "ALARM rc=%d" % p.returncode, "; ".join(lines[:3])), flush=True)
    finally:
        subprocess.run(["git", "-C", REPO, "checkout", "--", "."])
print("neutral run: %d alarms" % bad)
