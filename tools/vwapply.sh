#!/bin/bash
# vwapply.sh <n> <diff|-> [checks...] : reset scratch worktree n, apply diff (or none with -), run the checks there (dev only)
N=$1; D=$2; shift 2
git -C /tmp/vw$N checkout -- . ; 
if [ "$D" != "-" ]; then git -C /tmp/vw$N apply $(readlink -f $D) || exit 3; fi
for p in "$@"; do FV_REPO=/tmp/vw$N FV_CACHE=/tmp/vw$N-cache FV_EVIDENCE_DIR=/tmp/vw$N-ev /verif/check $p 2>&1 | grep -v "^facts\[" ; done
