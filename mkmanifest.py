#!/usr/bin/env python3
"""Regenerate MANIFEST.json from the props modules (claimed) and the N/A table below."""
import importlib
import json
import os
import sys

VERIF = os.path.dirname(os.path.abspath(__file__))
sys.path.insert(0, VERIF)

NA = {
    "C09": "Equality of hash values with the RFC 6962 tree hash over all leaf counts is pure index/hash arithmetic; no code-shape clause is a robust necessary condition beyond what fixed test vectors pin (DESIGN §4).",
    "C10": "Prover/verifier agreement is arithmetic over (index, count, height); no shape-level necessary condition beyond the bound test already covered under C11 (DESIGN §4).",
    "C12": "History-independence of the sparse tree over 256-bit paths is an algorithmic/value property, not visible in code shape (DESIGN §4).",
    "C14": "Sparse proof soundness/completeness is value-level recomputation; same reason as C10/C12 (DESIGN §4).",
    "C16": "Agreement of two third-party secp256k1 libraries on numeric edge cases is decided inside code outside the workspace (one via FFI); nothing structural to cross-check (DESIGN §4).",
}

props = [json.loads(l) for l in open(os.path.join(VERIF, "properties.jsonl"))]
checks = []
na = []
for p in props:
    pid = p["id"]
    path = os.path.join(VERIF, "props", pid + ".py")
    if os.path.exists(path):
        m = importlib.import_module("props." + pid)
        if getattr(m, "DISABLED", False):
            na.append({"property_id": pid, "reason": m.DISABLED})
            continue
        checks.append({
            "property_id": pid,
            "quick_cmd": "./check %s --tier quick" % pid,
            "thorough_cmd": "./check %s --tier thorough" % pid,
            "evidence_file": "/verif/evidence/%s.json" % pid,
            "replay_cmd_template": "cat {path}",
            "engine": "fvfacts+fvlib",
            "level_claimed": {
                "category": getattr(m, "LEVEL", "other"),
                "text": getattr(m, "LEVEL_TEXT", (m.__doc__ or "").strip().split("\n\n")[0]),
                "design_ref": "DESIGN.md §3 " + pid,
            },
            "level_note": getattr(m, "LEVEL_NOTE", "Decides the named structural clauses (necessary conditions of the behaviour) for all inputs/paths; "
                                                   "does not decide runtime values. Trusted base: rustc's MIR construction and trait resolution, the fvfacts dump, fvlib's CFG/dominator/def-use code, and the reviewed tables in the props module."),
            "technique": getattr(m, "TECHNIQUE", "static analysis over rustc MIR (custom rustc_private driver + dominance / who-may-call / field-coverage rules)"),
        })
    elif pid in NA:
        na.append({"property_id": pid, "reason": NA[pid]})
    else:
        na.append({"property_id": pid, "reason": "check not yet built (work in progress); planned per DESIGN.md §3"})

manifest = {
    "version": 1,
    "setup_cmd": "cd /verif/fvfacts && CARGO_NET_OFFLINE=true cargo +nightly build --release --offline",
    "hooks": {
        "guard": "fuellabs_fuel_vm_verif",
        "enable": "no hooks: the analysis reads the compiler's MIR of the unmodified sources",
        "baseline_off_cmd": "cd /repo && cargo test --workspace --no-fail-fast --offline",
        "source_commits": [],
        "add_only": True,
    },
    "engines": [
        {"name": "fvfacts", "path": "/verif/fvfacts", "serves_properties": [c["property_id"] for c in checks],
         "kind_free_text": "rustc_private nightly driver (RUSTC_WORKSPACE_WRAPPER) dumping MIR/ADT/const/impl facts of every workspace crate"},
        {"name": "fvlib", "path": "/verif/fvlib", "serves_properties": [c["property_id"] for c in checks],
         "kind_free_text": "python rule library: call graph (CHA), CFG/dominators, must-pass-through, field write-sets, guard regions, def-use"},
    ],
    "checks": checks,
    "not_applicable": na,
    "notes": "Static analysis only. Each check regenerates facts when the content digest of /repo's sources changes. Exit 2 + 'UNDECIDED' = anchor missing (rename), never reported as VIOLATION. known_findings.json lists recorded defects.",
}
json.dump(manifest, open(os.path.join(VERIF, "MANIFEST.json"), "w"), indent=1)
print("claimed:", [c["property_id"] for c in checks])
print("n/a:", [n["property_id"] for n in na])
