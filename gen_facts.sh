#!/bin/bash
# usage: gen_facts.sh <workdir> <cfg: A|B> [cold]
# Runs the fvfacts driver (RUSTC_WORKSPACE_WRAPPER) over /repo's current working tree.
# <workdir>/target is a cargo target dir kept between runs so third-party dependencies are
# not re-checked; the fingerprints of all workspace members are deleted first, so every
# workspace crate is re-analysed from the current sources on every generation ("cold" wipes
# the whole target dir).  Facts land in <workdir>/facts/<crate>.json (old ones removed first).
set -u
WD="$1"; CFG="${2:-A}"; MODE="${3:-warm}"
REPO="${FV_REPO:-/repo}"
DRV=/verif/fvfacts/target/release/fvfacts
if [ ! -x "$DRV" ] || [ /verif/fvfacts/src/main.rs -nt "$DRV" ]; then
  (cd /verif/fvfacts && CARGO_NET_OFFLINE=true cargo +nightly build --release --offline >&2) || exit 3
fi
mkdir -p "$WD"
TD="$WD/target"; OUT="$WD/facts"
[ "$MODE" = cold ] && rm -rf "$TD"
rm -rf "$OUT"; mkdir -p "$OUT" "$TD"
for m in fuel_asm fuel_compression fuel_crypto fuel_derive fuel_merkle fuel_merkle_test_helpers fuel_storage fuel_tx fuel_types fuel_vm version_compatibility_tests \
         fuel-asm fuel-compression fuel-crypto fuel-derive fuel-merkle fuel-merkle-test-helpers fuel-storage fuel-tx fuel-types fuel-vm version-compatibility-tests; do
  rm -rf "$TD"/debug/.fingerprint/$m-* 2>/dev/null
done
case "$CFG" in
  A) FLAGS="--workspace --lib";;
  B) FLAGS="--manifest-path fuel-vm/Cargo.toml --lib --features da-compression";;
  T) FLAGS="--manifest-path fuel-vm/Cargo.toml --lib --features test-helpers";;
  *) echo "unknown cfg $CFG" >&2; exit 3;;
esac
cd "$REPO" || exit 3
FVFACTS_OUT="$OUT" \
LD_LIBRARY_PATH="$(rustc +nightly --print sysroot)/lib" \
RUSTFLAGS="-Zmir-opt-level=0 -Awarnings" \
RUSTC_WORKSPACE_WRAPPER="$DRV" CARGO_TARGET_DIR="$TD" CARGO_NET_OFFLINE=true CARGO_INCREMENTAL=0 \
cargo +nightly check --offline $FLAGS > "$WD/cargo.log" 2>&1
rc=$?
if [ $rc -ne 0 ]; then echo "gen_facts: cargo check failed (rc=$rc), see $WD/cargo.log" >&2; grep -E "^error" -A6 "$WD/cargo.log" | head -40 >&2; exit 3; fi
exit 0
