#!/bin/bash
# usage: gen_facts.sh <outdir> <cfg: A|B>
# Runs the fvfacts driver over /repo's current working tree with a fresh target dir.
set -u
OUT="$1"; CFG="${2:-A}"
REPO="${FV_REPO:-/repo}"
DRV=/verif/fvfacts/target/release/fvfacts
if [ ! -x "$DRV" ]; then (cd /verif/fvfacts && cargo +nightly build --release --offline >&2) || exit 3; fi
mkdir -p "$OUT"
TD=$(mktemp -d /tmp/fvtd.XXXXXX)
trap 'rm -rf "$TD"' EXIT
case "$CFG" in
  A) FLAGS="--workspace --lib"; TAG="";;
  B) FLAGS="-p fuel-tx -p fuel-compression -p fuel-vm --lib --features fuel-tx/da-compression,fuel-vm/da-compression"; TAG="";;
  *) echo "unknown cfg $CFG" >&2; exit 3;;
esac
cd "$REPO" || exit 3
FVFACTS_OUT="$OUT" FVFACTS_TAG="$TAG" \
LD_LIBRARY_PATH="$(rustc +nightly --print sysroot)/lib" \
RUSTFLAGS="-Zmir-opt-level=0 -Awarnings" \
RUSTC_WORKSPACE_WRAPPER="$DRV" CARGO_TARGET_DIR="$TD" CARGO_NET_OFFLINE=true \
cargo +nightly check --offline $FLAGS > "$OUT/cargo.log" 2>&1
rc=$?
if [ $rc -ne 0 ]; then echo "gen_facts: cargo check failed (rc=$rc), see $OUT/cargo.log" >&2; tail -30 "$OUT/cargo.log" >&2; exit 3; fi
exit 0
