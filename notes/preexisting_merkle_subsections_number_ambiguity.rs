//! NOT part of the seeded mutation. Observed on the UNMODIFIED code while preparing
//! the seed: `fuel_merkle::binary::verify` does not bind `num_leaves` to the root, so
//! for a root built over 5 subsections the tx (subsection_index = 2,
//! subsections_number = 3, proof_set = proof of leaf #4, witness = leaf #4) passes
//! `Upload::check_unique_rules`, is "sequentially connected" after parts 0 and 1, and
//! makes `upload_bytecode_subsection` mark the root `Completed(l0 || l1 || l4)` (300 of
//! 500 bytes). Afterwards the real parts are rejected with `BytecodeAlreadyUploaded`.
//!
//! Copy to fuel-vm/tests/ and run
//!   cargo test --offline -p fuel-vm --test preexisting_merkle_subsections_number_ambiguity -- --nocapture
//! It PASSES (i.e. the forged completion happens) with and without the seed patch.
use fuel_asm::op;
use fuel_tx::{Input, Output, Script, Transaction, UploadSubsection, policies::Policies};
use fuel_types::AssetId;
use fuel_vm::{
    checked_transaction::IntoChecked,
    fuel_storage::StorageAsRef,
    interpreter::{InterpreterParams, MemoryInstance},
    storage::{MemoryStorage, UploadedBytecode, UploadedBytecodes},
    transactor::Transactor,
};

#[test]
fn forged_subsections_number_completes_upload_with_truncated_bytecode() {
    let mut client: Transactor<MemoryInstance, MemoryStorage, Script> = Transactor::new(
        MemoryInstance::new(),
        MemoryStorage::default(),
        InterpreterParams::default(),
    );
    let code: Vec<u8> = (0..500usize).map(|i| (i / 100) as u8 * 17 + 1).collect();
    let parts = UploadSubsection::split_bytecode(&code, 100).unwrap();
    assert_eq!(parts.len(), 5);
    let root = parts[0].root;
    let mk = |s: UploadSubsection| {
        let predicate = vec![op::ret(1)].into_iter().collect::<Vec<u8>>();
        let owner = Input::predicate_owner(&predicate);
        let input = Input::coin_predicate(
            Default::default(), owner, 1000, AssetId::BASE,
            Default::default(), Default::default(), predicate, vec![],
        );
        Transaction::upload_from_subsection(
            s,
            Policies::new().with_max_fee(1000),
            vec![input],
            vec![Output::change(Default::default(), 0, AssetId::BASE)],
            vec![],
        )
        .into_checked_basic(Default::default(), &Default::default())
    };
    client.upload(mk(parts[0].clone()).unwrap()).unwrap();
    client.upload(mk(parts[1].clone()).unwrap()).unwrap();

    let forged = UploadSubsection {
        root,
        subsection: parts[4].subsection.clone(),
        subsection_index: 2,
        subsections_number: 3,
        proof_set: parts[4].proof_set.clone(),
    };
    client
        .upload(mk(forged).expect("forged tx passes the validity check"))
        .expect("forged tx is executed");

    let s: &MemoryStorage = client.as_ref();
    let entry = s
        .storage_as_ref::<UploadedBytecodes>()
        .get(&root)
        .unwrap()
        .unwrap()
        .into_owned();
    let UploadedBytecode::Completed(b) = entry else { panic!("not completed") };
    assert_eq!(b.len(), 300);
    assert_ne!(b, code);
}
