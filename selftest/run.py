#!/usr/bin/env python3
"""Checker self-test: apply each mutant (an exact-once text replacement in /repo), run the named
check, expect VIOLATION (kind=break) or silence (kind=neutral), then restore the file.
Usage: selftest/run.py [id-substring ...]   — never run concurrently with other checks."""
import json
import os
import subprocess
import sys

VERIF = os.path.dirname(os.path.dirname(os.path.abspath(__file__)))
REPO = os.environ.get("FV_REPO", "/repo")
muts = json.load(open(os.path.join(VERIF, "selftest", "mutants.json")))
sel = sys.argv[1:]
results = []
shard = os.environ.get("FV_SHARD")        # "i/n": developer runs split over scratch worktrees
if shard:
    si, sn = (int(x) for x in shard.split("/"))
    muts = [m for k, m in enumerate(muts) if k % sn == si]
for m in muts:
    if sel and not any(s in m["id"] for s in sel):
        continue
    path = os.path.join(REPO, m["file"])
    src = open(path).read()
    if src.count(m["old"]) != 1:
        print("SKIP %s: pattern occurs %d times" % (m["id"], src.count(m["old"])))
        results.append((m["id"], "skip"))
        continue
    try:
        open(path, "w").write(src.replace(m["old"], m["new"]))
        outs = {}
        plist = m["props"]
        if m.get("kind") == "neutral" and os.environ.get("FV_NEUTRAL_ALL") == "1":   # a neutral edit must leave *every* check silent
            plist = sorted(p[:-3] for p in os.listdir(os.path.join(VERIF, "props")) if p.startswith("C") and p.endswith(".py"))
        for pid in plist:
            p = subprocess.run([os.path.join(VERIF, "check"), pid], capture_output=True, text=True)
            outs[pid] = (p.returncode, [l for l in p.stdout.splitlines() if l.startswith("VIOLATION") or l.startswith("  rule=") or l.startswith("UNDECIDED")])
    finally:
        open(path, "w").write(src)
    for pid, (rc, lines) in outs.items():
        want = 1 if m.get("kind", "break") == "break" else 0
        ok = rc == want
        print("%s %s %s rc=%d %s" % ("OK  " if ok else "FAIL", m["id"], pid, rc, "; ".join(lines[:4])), flush=True)
        results.append((m["id"] + ":" + pid, "ok" if ok else "FAIL"))
bad = [r for r in results if r[1] == "FAIL"]
print("selftest: %d run, %d failed, %d skipped" % (len(results), len(bad), len([r for r in results if r[1] == "skip"])))
sys.exit(1 if bad else 0)
