//! Minimal JSON value + writer (no dependencies).
pub enum J {
    Null,
    Bool(bool),
    Num(i128),
    Str(String),
    Arr(Vec<J>),
    Obj(Vec<(String, J)>),
}

impl J {
    pub fn s(x: &str) -> J {
        J::Str(x.to_string())
    }

    pub fn write(&self, out: &mut String) {
        match self {
            J::Null => out.push_str("null"),
            J::Bool(b) => out.push_str(if *b { "true" } else { "false" }),
            J::Num(n) => out.push_str(&n.to_string()),
            J::Str(s) => esc(s, out),
            J::Arr(v) => {
                out.push('[');
                for (i, x) in v.iter().enumerate() {
                    if i > 0 {
                        out.push(',');
                    }
                    x.write(out);
                }
                out.push(']');
            }
            J::Obj(v) => {
                out.push('{');
                for (i, (k, x)) in v.iter().enumerate() {
                    if i > 0 {
                        out.push(',');
                    }
                    esc(k, out);
                    out.push(':');
                    x.write(out);
                }
                out.push('}');
            }
        }
    }
}

fn esc(s: &str, out: &mut String) {
    out.push('"');
    for c in s.chars() {
        match c {
            '"' => out.push_str("\\\""),
            '\\' => out.push_str("\\\\"),
            '\n' => out.push_str("\\n"),
            '\r' => out.push_str("\\r"),
            '\t' => out.push_str("\\t"),
            c if (c as u32) < 0x20 => out.push_str(&format!("\\u{:04x}", c as u32)),
            c => out.push(c),
        }
    }
    out.push('"');
}
