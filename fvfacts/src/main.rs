//! fvfacts: a rustc_private driver that dumps type-checked program facts (MIR,
//! ADTs, consts, impls) of each workspace crate as one JSON file per crate.
//!
//! Used as RUSTC_WORKSPACE_WRAPPER: argv[1] is the real rustc path (dropped).
//! Output directory: $FVFACTS_OUT (required for dumping; otherwise behaves as rustc).
#![feature(rustc_private)]
#![allow(clippy::all)]

extern crate rustc_abi;
extern crate rustc_driver;
extern crate rustc_hir;
extern crate rustc_interface;
extern crate rustc_middle;
extern crate rustc_session;
extern crate rustc_span;

mod json;
use json::J;

use rustc_driver::{Callbacks, Compilation};
use rustc_hir::def::DefKind;
use rustc_hir::def_id::{DefId, LocalDefId};
use rustc_interface::interface::Compiler;
use rustc_middle::mir::{
    self, AggregateKind, BasicBlockData, Body, Const, ConstOperand, Operand, Place,
    PlaceElem, Rvalue, StatementKind, TerminatorKind,
};
use rustc_middle::ty::print::{with_no_trimmed_paths, with_no_visible_paths, with_resolve_crate_name, PrintTraitRefExt};
use rustc_middle::ty::{self, Instance, Ty, TyCtxt, TypingEnv};
use rustc_span::Span;

struct Cb;

fn dps(tcx: TyCtxt<'_>, did: DefId) -> String {
    with_resolve_crate_name!(with_no_visible_paths!(with_no_trimmed_paths!(tcx.def_path_str(did))))
}
fn tys(t: Ty<'_>) -> String {
    with_resolve_crate_name!(with_no_visible_paths!(with_no_trimmed_paths!(format!("{}", t))))
}

fn span_loc(tcx: TyCtxt<'_>, sp: Span) -> (String, usize) {
    let sm = tcx.sess.source_map();
    let sp = sp.source_callsite();
    let lo = sm.lookup_char_pos(sp.lo());
    let name = match &lo.file.name {
        rustc_span::FileName::Real(r) => match r.local_path() {
            Some(p) => p.display().to_string(),
            None => format!("{:?}", lo.file.name),
        },
        other => format!("{:?}", other),
    };
    (name, lo.line)
}

struct Ctx<'a, 'tcx> {
    tcx: TyCtxt<'tcx>,
    body: &'a Body<'tcx>,
    def: DefId,
    env: TypingEnv<'tcx>,
}

impl<'a, 'tcx> Ctx<'a, 'tcx> {
    fn place(&self, p: &Place<'tcx>) -> J {
        let mut v = vec![J::Num(p.local.as_u32() as i128)];
        let mut pty = mir::PlaceTy::from_ty(self.body.local_decls[p.local].ty);
        for elem in p.projection.iter() {
            let j = match elem {
                PlaceElem::Deref => J::s("*"),
                PlaceElem::Field(f, fty) => {
                    let idx = f.as_u32() as i128;
                    let mut name = String::new();
                    let mut adt = String::new();
                    match pty.ty.kind() {
                        ty::Adt(def, _) => {
                            adt = dps(self.tcx, def.did());
                            let vidx = pty.variant_index.unwrap_or(rustc_abi::FIRST_VARIANT);
                            if vidx.as_usize() < def.variants().len() {
                                let var = def.variant(vidx);
                                if (f.as_usize()) < var.fields.len() {
                                    name = var.fields[f].name.to_string();
                                }
                            }
                        }
                        ty::Tuple(_) => adt = "(tuple)".into(),
                        ty::Closure(..) => adt = "(closure)".into(),
                        _ => {}
                    }
                    J::Arr(vec![J::s("f"), J::Num(idx), J::Str(name), J::Str(adt), J::Str(tys(fty))])
                }
                PlaceElem::Index(l) => J::Arr(vec![J::s("i"), J::Num(l.as_u32() as i128)]),
                PlaceElem::ConstantIndex { offset, min_length, from_end } => J::Arr(vec![
                    J::s("c"),
                    J::Num(offset as i128),
                    J::Num(min_length as i128),
                    J::Bool(from_end),
                ]),
                PlaceElem::Subslice { from, to, from_end } => J::Arr(vec![
                    J::s("s"),
                    J::Num(from as i128),
                    J::Num(to as i128),
                    J::Bool(from_end),
                ]),
                PlaceElem::Downcast(name, vi) => J::Arr(vec![
                    J::s("d"),
                    J::Str(name.map(|n| n.to_string()).unwrap_or_default()),
                    J::Num(vi.as_u32() as i128),
                ]),
                PlaceElem::OpaqueCast(_) => J::s("oc"),
                PlaceElem::UnwrapUnsafeBinder(_) => J::s("ub"),
            };
            v.push(j);
            pty = pty.projection_ty(self.tcx, elem);
        }
        J::Arr(v)
    }

    fn constant(&self, c: &ConstOperand<'tcx>) -> J {
        let ty = c.const_.ty();
        let mut o = vec![("t".to_string(), J::Str(tys(ty)))];
        // function item / closure used as a value
        match ty.kind() {
            ty::FnDef(did, args) => {
                o.push(("fn".into(), self.callee(*did, args)));
            }
            ty::Closure(did, _) => {
                o.push(("closure".into(), J::Str(dps(self.tcx, *did))));
            }
            _ => {}
        }
        if let Const::Unevaluated(uv, _) = c.const_ {
            // named const (or promoted)
            if uv.promoted.is_none() {
                o.push(("const".into(), J::Str(dps(self.tcx, uv.def))));
            } else {
                o.push(("promoted".into(), J::Num(uv.promoted.unwrap().as_u32() as i128)));
            }
        }
        let is_scalar = ty.is_integral() || ty.is_bool() || ty.is_char() || ty.is_adt();
        if is_scalar {
            if let Some(si) = c.const_.try_eval_scalar_int(self.tcx, self.env) {
                let size = si.size();
                let v: i128 = if ty.is_signed() {
                    si.to_int(size)
                } else {
                    let u = si.to_uint(size);
                    if u > i128::MAX as u128 { -1 } else { u as i128 }
                };
                if ty.is_signed() || si.to_uint(size) <= i128::MAX as u128 {
                    o.push(("v".into(), J::Num(v)));
                } else {
                    o.push(("vs".into(), J::Str(format!("{}", si.to_uint(size)))));
                }
            }
        }
        J::Obj(o)
    }

    fn operand(&self, op: &Operand<'tcx>) -> J {
        match op {
            Operand::Copy(p) => J::Arr(vec![J::s("cp"), self.place(p)]),
            Operand::Move(p) => J::Arr(vec![J::s("mv"), self.place(p)]),
            Operand::Constant(c) => J::Arr(vec![J::s("k"), self.constant(c)]),
            #[allow(unreachable_patterns)]
            _ => J::Arr(vec![J::s("?")]),
        }
    }

    fn callee(&self, did: DefId, args: ty::GenericArgsRef<'tcx>) -> J {
        let tcx = self.tcx;
        let mut o = vec![("def".to_string(), J::Str(dps(tcx, did)))];
        let ga: Vec<J> = args
            .iter()
            .filter_map(|a| a.as_type().map(|t| J::Str(tys(t))))
            .collect();
        if !ga.is_empty() {
            o.push(("ga".into(), J::Arr(ga)));
        }
        // trait method?
        if let Some(tr) = tcx.trait_of_assoc(did) {
            o.push(("trait".into(), J::Str(dps(tcx, tr))));
            if let Some(self_ty) = args.types().next() {
                o.push(("self".into(), J::Str(tys(self_ty))));
            }
        } else if let Some(imp) = tcx.inherent_impl_of_assoc(did) {
            let st = tcx.type_of(imp).instantiate_identity().skip_norm_wip();
            o.push(("self".into(), J::Str(tys(st))));
        }
        // resolution
        let res = std::panic::catch_unwind(std::panic::AssertUnwindSafe(|| {
            Instance::try_resolve(tcx, self.env, did, args)
        }));
        if let Ok(Ok(Some(inst))) = res {
            let rdid = inst.def_id();
            if rdid != did {
                o.push(("res".into(), J::Str(dps(tcx, rdid))));
            }
            match inst.def {
                ty::InstanceKind::Item(_) => {}
                ty::InstanceKind::Virtual(..) => o.push(("virt".into(), J::Bool(true))),
                other => {
                    let k = format!("{:?}", other);
                    let k = k.split('(').next().unwrap_or("").to_string();
                    o.push(("ik".into(), J::Str(k)));
                }
            }
        }
        J::Obj(o)
    }

    fn rvalue(&self, rv: &Rvalue<'tcx>) -> J {
        match rv {
            Rvalue::Use(op, ..) => J::Arr(vec![J::s("use"), self.operand(op)]),
            Rvalue::Repeat(op, n) => {
                let nv = n
                    .try_to_target_usize(self.tcx)
                    .map(|x| J::Num(x as i128))
                    .unwrap_or(J::Null);
                J::Arr(vec![J::s("rep"), self.operand(op), nv])
            }
            Rvalue::Ref(_, bk, p) => {
                let m = match bk {
                    mir::BorrowKind::Mut { .. } => "mut",
                    mir::BorrowKind::Shared => "shr",
                    mir::BorrowKind::Fake(_) => "fake",
                };
                J::Arr(vec![J::s("ref"), J::s(m), self.place(p)])
            }
            Rvalue::RawPtr(k, p) => {
                J::Arr(vec![J::s("raw"), J::Str(format!("{:?}", k)), self.place(p)])
            }
            Rvalue::Cast(kind, op, ty) => {
                let k = format!("{:?}", kind);
                let k = k.split('(').next().unwrap_or("").to_string();
                J::Arr(vec![J::s("cast"), J::Str(k), self.operand(op), J::Str(tys(*ty))])
            }
            Rvalue::BinaryOp(op, ab) => J::Arr(vec![
                J::s("bin"),
                J::Str(format!("{:?}", op)),
                self.operand(&ab.0),
                self.operand(&ab.1),
            ]),
            Rvalue::UnaryOp(op, a) => {
                J::Arr(vec![J::s("un"), J::Str(format!("{:?}", op)), self.operand(a)])
            }
            Rvalue::Discriminant(p) => {
                let pty = p.ty(&self.body.local_decls, self.tcx).ty;
                let adt = match pty.kind() {
                    ty::Adt(def, _) => dps(self.tcx, def.did()),
                    _ => String::new(),
                };
                J::Arr(vec![J::s("disc"), self.place(p), J::Str(adt)])
            }
            Rvalue::Aggregate(kind, ops) => {
                let (k, variant, names): (String, J, Vec<String>) = match &**kind {
                    AggregateKind::Array(_) => ("[array]".into(), J::Null, vec![]),
                    AggregateKind::Tuple => ("(tuple)".into(), J::Null, vec![]),
                    AggregateKind::Adt(did, vidx, _, _, _) => {
                        let def = self.tcx.adt_def(*did);
                        let var = def.variant(*vidx);
                        (
                            dps(self.tcx, *did),
                            J::Str(var.name.to_string()),
                            var.fields.iter().map(|f| f.name.to_string()).collect(),
                        )
                    }
                    AggregateKind::Closure(did, _) => {
                        (format!("closure:{}", dps(self.tcx, *did)), J::Null, vec![])
                    }
                    AggregateKind::Coroutine(did, _) => {
                        (format!("coroutine:{}", dps(self.tcx, *did)), J::Null, vec![])
                    }
                    AggregateKind::CoroutineClosure(did, _) => {
                        (format!("closure:{}", dps(self.tcx, *did)), J::Null, vec![])
                    }
                    AggregateKind::RawPtr(..) => ("(rawptr)".into(), J::Null, vec![]),
                };
                // For single-field active unions etc. names may not align; keep best effort.
                let opsj: Vec<J> = ops.iter().map(|o| self.operand(o)).collect();
                J::Arr(vec![
                    J::s("agg"),
                    J::Str(k),
                    variant,
                    J::Arr(opsj),
                    J::Arr(names.into_iter().map(J::Str).collect()),
                ])
            }
            Rvalue::CopyForDeref(p) => {
                J::Arr(vec![J::s("use"), J::Arr(vec![J::s("cp"), self.place(p)])])
            }
            Rvalue::ThreadLocalRef(d) => J::Arr(vec![J::s("tls"), J::Str(dps(self.tcx, *d))]),
            Rvalue::WrapUnsafeBinder(op, _) => J::Arr(vec![J::s("use"), self.operand(op)]),
            #[allow(unreachable_patterns)]
            other => J::Arr(vec![J::s("other"), J::Str(format!("{:?}", other))]),
        }
    }

    fn line(&self, sp: Span) -> J {
        J::Num(span_loc(self.tcx, sp).1 as i128)
    }

    fn block(&self, bb: &BasicBlockData<'tcx>) -> J {
        let mut stmts = Vec::new();
        for st in &bb.statements {
            match &st.kind {
                StatementKind::Assign(b) => {
                    let (p, rv) = &**b;
                    stmts.push(J::Arr(vec![
                        J::s("="),
                        self.place(p),
                        self.rvalue(rv),
                        self.line(st.source_info.span),
                    ]));
                }
                StatementKind::SetDiscriminant { place, variant_index } => {
                    stmts.push(J::Arr(vec![
                        J::s("setdisc"),
                        self.place(place),
                        J::Num(variant_index.as_u32() as i128),
                    ]));
                }
                StatementKind::Intrinsic(i) => {
                    stmts.push(J::Arr(vec![J::s("intr"), J::Str(format!("{:?}", i))]));
                }
                _ => {}
            }
        }
        let term = bb.terminator();
        let t = match &term.kind {
            TerminatorKind::Goto { target } => {
                J::Arr(vec![J::s("goto"), J::Num(target.as_u32() as i128)])
            }
            TerminatorKind::SwitchInt { discr, targets } => {
                let arms: Vec<J> = targets
                    .iter()
                    .map(|(v, t)| {
                        J::Arr(vec![
                            if v <= i128::MAX as u128 { J::Num(v as i128) } else { J::Str(v.to_string()) },
                            J::Num(t.as_u32() as i128),
                        ])
                    })
                    .collect();
                J::Arr(vec![
                    J::s("switch"),
                    self.operand(discr),
                    J::Arr(arms),
                    J::Num(targets.otherwise().as_u32() as i128),
                    self.line(term.source_info.span),
                ])
            }
            TerminatorKind::Return => J::Arr(vec![J::s("ret")]),
            TerminatorKind::Unreachable => J::Arr(vec![J::s("unreachable")]),
            TerminatorKind::UnwindResume => J::Arr(vec![J::s("resume")]),
            TerminatorKind::UnwindTerminate(_) => J::Arr(vec![J::s("abort")]),
            TerminatorKind::Drop { place, target, .. } => J::Arr(vec![
                J::s("drop"),
                self.place(place),
                J::Num(target.as_u32() as i128),
            ]),
            TerminatorKind::Call { func, args, destination, target, fn_span, .. } => {
                let cal = match func {
                    Operand::Constant(c) => match c.const_.ty().kind() {
                        ty::FnDef(did, ga) => self.callee(*did, ga),
                        _ => J::Obj(vec![("ptr".into(), self.operand(func))]),
                    },
                    _ => J::Obj(vec![("ptr".into(), self.operand(func))]),
                };
                let a: Vec<J> = args.iter().map(|a| self.operand(&a.node)).collect();
                J::Arr(vec![
                    J::s("call"),
                    cal,
                    J::Arr(a),
                    self.place(destination),
                    target.map(|t| J::Num(t.as_u32() as i128)).unwrap_or(J::Null),
                    self.line(*fn_span),
                ])
            }
            TerminatorKind::TailCall { func, args, fn_span } => {
                let cal = match func {
                    Operand::Constant(c) => match c.const_.ty().kind() {
                        ty::FnDef(did, ga) => self.callee(*did, ga),
                        _ => J::Obj(vec![("ptr".into(), self.operand(func))]),
                    },
                    _ => J::Obj(vec![("ptr".into(), self.operand(func))]),
                };
                let a: Vec<J> = args.iter().map(|a| self.operand(&a.node)).collect();
                J::Arr(vec![J::s("tailcall"), cal, J::Arr(a), self.line(*fn_span)])
            }
            TerminatorKind::Assert { cond, expected, msg, target, .. } => {
                let kind = format!("{:?}", msg);
                let kind = kind.split('(').next().unwrap_or("").to_string();
                J::Arr(vec![
                    J::s("assert"),
                    J::Str(kind),
                    self.operand(cond),
                    J::Bool(*expected),
                    J::Num(target.as_u32() as i128),
                    self.line(term.source_info.span),
                ])
            }
            TerminatorKind::FalseEdge { real_target, .. } => {
                J::Arr(vec![J::s("goto"), J::Num(real_target.as_u32() as i128)])
            }
            TerminatorKind::FalseUnwind { real_target, .. } => {
                J::Arr(vec![J::s("goto"), J::Num(real_target.as_u32() as i128)])
            }
            other => J::Arr(vec![J::s("other"), J::Str(format!("{:?}", other))]),
        };
        let mut o = vec![("s".to_string(), J::Arr(stmts)), ("t".to_string(), t)];
        if bb.is_cleanup {
            o.push(("cu".into(), J::Bool(true)));
        }
        J::Obj(o)
    }
}

fn dump_fn<'tcx>(tcx: TyCtxt<'tcx>, ldid: LocalDefId) -> Option<(String, J)> {
    let did = ldid.to_def_id();
    let kind = tcx.def_kind(did);
    let is_fn = matches!(kind, DefKind::Fn | DefKind::AssocFn | DefKind::Closure);
    if !is_fn {
        return None;
    }
    if tcx.is_constructor(did) {
        return None;
    }
    let body = tcx.optimized_mir(did);
    let env = TypingEnv::post_analysis(tcx, did);
    let cx = Ctx { tcx, body, def: did, env };
    let _ = cx.def;
    let name = dps(tcx, did);
    let (file, line) = span_loc(tcx, tcx.def_span(did));
    let mut o: Vec<(String, J)> = vec![
        ("file".into(), J::Str(file)),
        ("line".into(), J::Num(line as i128)),
        ("kind".into(), J::Str(format!("{:?}", kind))),
        ("exp".into(), J::Bool(tcx.def_span(did).from_expansion())),
        ("argc".into(), J::Num(body.arg_count as i128)),
    ];
    if matches!(kind, DefKind::Fn | DefKind::AssocFn) {
        o.push(("vis".into(), J::Str(format!("{:?}", tcx.visibility(did)))));
        if let Some(imp) = tcx.impl_of_assoc(did) {
            let st = tcx.type_of(imp).instantiate_identity().skip_norm_wip();
            o.push(("self".into(), J::Str(tys(st))));
            if tcx.impl_opt_trait_ref(imp).is_some() {
                let tr = tcx.impl_trait_ref(imp).instantiate_identity().skip_norm_wip();
                o.push(("trait".into(), J::Str(dps(tcx, tr.def_id))));
                o.push(("traitref".into(), J::Str(with_resolve_crate_name!(with_no_visible_paths!(with_no_trimmed_paths!(format!("{}", tr.print_only_trait_path())))))));
            }
        } else if let Some(tr) = tcx.trait_of_assoc(did) {
            // default method in trait
            o.push(("trait_default".into(), J::Str(dps(tcx, tr))));
        }
        o.push(("iname".into(), J::Str(tcx.item_name(did).to_string())));
    } else {
        // closure: parent fn
        let parent = tcx.typeck_root_def_id(did);
        o.push(("parent".into(), J::Str(dps(tcx, parent))));
    }
    // locals
    let locals: Vec<J> = body.local_decls.iter().map(|d| J::Str(tys(d.ty))).collect();
    o.push(("locals".into(), J::Arr(locals)));
    // debug names
    let mut dbg = Vec::new();
    for vdi in &body.var_debug_info {
        if let mir::VarDebugInfoContents::Place(p) = &vdi.value {
            dbg.push(J::Arr(vec![J::Str(vdi.name.to_string()), cx.place(p)]));
        }
    }
    o.push(("dbg".into(), J::Arr(dbg)));
    let blocks: Vec<J> = body.basic_blocks.iter().map(|bb| cx.block(bb)).collect();
    o.push(("bbs".into(), J::Arr(blocks)));
    // promoted bodies: list the constants each one mentions (e.g. `&RegId::WRITABLE`)
    let proms = tcx.promoted_mir(did);
    let mut pj = Vec::new();
    for pb in proms.iter() {
        let pcx = Ctx { tcx, body: pb, def: did, env };
        let mut ks = Vec::new();
        for bb in pb.basic_blocks.iter() {
            for st in &bb.statements {
                if let StatementKind::Assign(b) = &st.kind {
                    let (_, rv) = &**b;
                    let mut ops: Vec<&Operand<'tcx>> = Vec::new();
                    match rv {
                        Rvalue::Use(op, ..) => ops.push(op),
                        Rvalue::Cast(_, op, _) => ops.push(op),
                        Rvalue::Aggregate(_, fs) => { for f in fs.iter() { ops.push(f); } }
                        Rvalue::BinaryOp(_, ab) => { ops.push(&ab.0); ops.push(&ab.1); }
                        Rvalue::UnaryOp(_, a) => ops.push(a),
                        Rvalue::Repeat(op, _) => ops.push(op),
                        _ => {}
                    }
                    for op in ops {
                        if let Operand::Constant(c) = op {
                            ks.push(pcx.constant(c));
                        }
                    }
                }
            }
        }
        pj.push(J::Arr(ks));
    }
    o.push(("proms".into(), J::Arr(pj)));
    // full bodies of the promoteds (same block format), for constant folding of e.g. `&{0u64 + 1u64}` or `&Ok(Repr::X)`
    let mut pb_full = Vec::new();
    for pb in proms.iter() {
        let pcx = Ctx { tcx, body: pb, def: did, env };
        let blocks: Vec<J> = pb.basic_blocks.iter().map(|bb| pcx.block(bb)).collect();
        pb_full.push(J::Arr(blocks));
    }
    if !pb_full.is_empty() {
        o.push(("pbodies".into(), J::Arr(pb_full)));
    }
    Some((name, J::Obj(o)))
}

fn dump_adts<'tcx>(tcx: TyCtxt<'tcx>) -> J {
    let mut out = Vec::new();
    for id in tcx.hir_free_items() {
        let did = id.owner_id.to_def_id();
        let kind = tcx.def_kind(did);
        if !matches!(kind, DefKind::Struct | DefKind::Enum | DefKind::Union) {
            continue;
        }
        let def = tcx.adt_def(did);
        let mut vars = Vec::new();
        for (vidx, var) in def.variants().iter_enumerated() {
            let discr = if def.is_enum() {
                let d = def.discriminant_for_variant(tcx, vidx);
                if d.val <= i128::MAX as u128 { J::Num(d.val as i128) } else { J::Str(d.val.to_string()) }
            } else {
                J::Null
            };
            let fields: Vec<J> = var
                .fields
                .iter()
                .map(|f| {
                    let fty = tcx.type_of(f.did).instantiate_identity().skip_norm_wip();
                    J::Arr(vec![
                        J::Str(f.name.to_string()),
                        J::Str(tys(fty)),
                        J::Str(format!("{:?}", f.vis)),
                    ])
                })
                .collect();
            vars.push(J::Obj(vec![
                ("name".into(), J::Str(var.name.to_string())),
                ("discr".into(), discr),
                ("fields".into(), J::Arr(fields)),
            ]));
        }
        let (file, line) = span_loc(tcx, tcx.def_span(did));
        out.push((
            dps(tcx, did),
            J::Obj(vec![
                ("kind".into(), J::Str(format!("{:?}", kind))),
                ("repr".into(), J::Str(format!("{:?}", def.repr().int))),
                ("file".into(), J::Str(file)),
                ("line".into(), J::Num(line as i128)),
                ("variants".into(), J::Arr(vars)),
            ]),
        ));
    }
    J::Obj(out)
}

fn dump_consts<'tcx>(tcx: TyCtxt<'tcx>) -> J {
    let mut out = Vec::new();
    for ldid in tcx.hir_body_owners() {
        let did = ldid.to_def_id();
        let kind = tcx.def_kind(did);
        if !matches!(kind, DefKind::Const { .. } | DefKind::AssocConst { .. }) {
            continue;
        }
        let ty = tcx.type_of(did).instantiate_identity().skip_norm_wip();
        if !(ty.is_integral() || ty.is_bool() || ty.is_adt()) {
            continue;
        }
        // skip generic contexts
        if tcx.generics_of(did).requires_monomorphization(tcx) {
            continue;
        }
        let r = std::panic::catch_unwind(std::panic::AssertUnwindSafe(|| {
            tcx.const_eval_poly(did)
        }));
        if let Ok(Ok(val)) = r {
            if let Some(si) = val.try_to_scalar_int() {
                let size = si.size();
                let j = if ty.is_signed() {
                    J::Num(si.to_int(size))
                } else {
                    let u = si.to_uint(size);
                    if u <= i128::MAX as u128 { J::Num(u as i128) } else { J::Str(u.to_string()) }
                };
                out.push((dps(tcx, did), J::Obj(vec![("t".into(), J::Str(tys(ty))), ("v".into(), j)])));
            }
        }
    }
    J::Obj(out)
}

fn dump_impls<'tcx>(tcx: TyCtxt<'tcx>) -> J {
    let mut out = Vec::new();
    for id in tcx.hir_free_items() {
        let did = id.owner_id.to_def_id();
        if !matches!(tcx.def_kind(did), DefKind::Impl { .. }) {
            continue;
        }
        let st = tcx.type_of(did).instantiate_identity().skip_norm_wip();
        let mut o = vec![("self".to_string(), J::Str(tys(st)))];
        if tcx.impl_opt_trait_ref(did).is_some() {
            let tr = tcx.impl_trait_ref(did).instantiate_identity().skip_norm_wip();
            o.push(("trait".into(), J::Str(dps(tcx, tr.def_id))));
            o.push(("traitref".into(), J::Str(with_resolve_crate_name!(with_no_visible_paths!(with_no_trimmed_paths!(format!("{}", tr.print_only_trait_path())))))));
        }
        let (file, line) = span_loc(tcx, tcx.def_span(did));
        o.push(("file".into(), J::Str(file)));
        o.push(("line".into(), J::Num(line as i128)));
        o.push(("exp".into(), J::Bool(tcx.def_span(did).from_expansion())));
        let mut items = Vec::new();
        for it in tcx.associated_items(did).in_definition_order() {
            items.push(J::Arr(vec![
                J::Str(it.opt_name().map(|n| n.to_string()).unwrap_or_default()),
                J::Str(dps(tcx, it.def_id)),
                J::Str(format!("{:?}", it.kind).split(|c| c == ' ' || c == '{' || c == '(').next().unwrap_or("").to_string()),
            ]));
        }
        o.push(("items".into(), J::Arr(items)));
        out.push(J::Obj(o));
    }
    J::Arr(out)
}

impl Callbacks for Cb {
    fn after_analysis<'tcx>(&mut self, _c: &Compiler, tcx: TyCtxt<'tcx>) -> Compilation {
        let outdir = match std::env::var("FVFACTS_OUT") {
            Ok(d) => d,
            Err(_) => return Compilation::Continue,
        };
        let krate = tcx.crate_name(rustc_hir::def_id::LOCAL_CRATE).to_string();
        // only library targets of interest; skip build scripts
        if krate == "build_script_build" {
            return Compilation::Continue;
        }
        let t0 = std::time::Instant::now();
        let mut fns = Vec::new();
        for ldid in tcx.hir_body_owners() {
            if let Some((n, j)) = dump_fn(tcx, ldid) {
                fns.push((n, j));
            }
        }
        let nfns = fns.len();
        let cfgs: Vec<J> = std::env::args()
            .collect::<Vec<_>>()
            .windows(2)
            .filter(|w| w[0] == "--cfg")
            .map(|w| J::Str(w[1].clone()))
            .collect();
        let top = J::Obj(vec![
            ("crate".into(), J::Str(krate.clone())),
            ("cfgs".into(), J::Arr(cfgs)),
            ("fns".into(), J::Obj(fns)),
            ("adts".into(), dump_adts(tcx)),
            ("consts".into(), dump_consts(tcx)),
            ("impls".into(), dump_impls(tcx)),
        ]);
        let mut s = String::with_capacity(1 << 24);
        top.write(&mut s);
        let tag = std::env::var("FVFACTS_TAG").unwrap_or_default();
        let path = format!("{}/{}{}.json", outdir, krate, tag);
        let tmp = format!("{}.tmp{}", path, std::process::id());
        std::fs::write(&tmp, s).expect("write facts");
        std::fs::rename(&tmp, &path).expect("rename facts");
        eprintln!(
            "fvfacts: {} fns={} {:.1}s -> {}",
            krate,
            nfns,
            t0.elapsed().as_secs_f64(),
            path
        );
        Compilation::Continue
    }
}

fn main() {
    let mut args: Vec<String> = std::env::args().collect();
    // RUSTC_WORKSPACE_WRAPPER: argv[1] is the path to rustc
    if args.len() > 1 && (args[1].ends_with("rustc") || args[1].contains("/rustc")) {
        args.remove(1);
    }
    let mut cb = Cb;
    rustc_driver::run_compiler(&args, &mut cb);
}
