"""C13 Sparse Merkle state persists completely in its node storage — typestate (created -> stored) and load clauses.

  STORE-before-use   in sparse::MerkleTree::{insert, update_with_path_set, delete_with_path_set, from_set} and
                     merge_branches, a node produced by Node::create_leaf / create_node / create_node_from_hashes /
                     create_node_on_path is *unstored* until a StorageMutate::insert keyed by that node's hash() with
                     that node's bytes; on every path it must be stored before (a) another node is created in its
                     place, (b) it becomes the root (set_root_node / the returned tree), (c) it is handed to
                     update_with_path_set / merge_branches, or (d) the function returns Ok. This is the "update
                     forgets to store a node" defect, decided for every history at once (placeholders are exempt:
                     they are never looked up).
  STORE-leaves       from_set stores every leaf of the sorted set (loop over `branches` inserting node.hash()) and
                     that loop precedes every merge and every return.
  ROOT-last          set_root_node is called with the node built (and stored) last; update/delete call it on every
                     Ok path that changed the tree.
  LOAD               load(storage, root): root == empty_root() -> new(storage) (placeholder root); otherwise the root
                     node is read from storage, a missing node is MerkleTreeError::LoadError(root), undecodable bytes
                     DeserializeError. StorageNode::{left,right}_child: zero_sum key -> placeholder without a lookup,
                     otherwise storage.get(key) and a missing child is ChildError::ChildNotFound(key).
Not decided: that removed nodes are no longer referenced (needs hash-value reasoning), proof/root equality.
"""
import re

from fvlib.core import (CFG, CallGraph, agg_blocks, assignments, bool_consumers, call_blocks, calls, callee_matches,
                        callee_name, dbg_name, describe, describe_nf, describe_place, forward_aliases, guards, short, simplify_desc, site_guard)
from fvlib.summ import ok_sites

MT = "fuel_merkle::sparse::merkle_tree::MerkleTree::<TableType, StorageType>::"
CREATE = r"^fuel_merkle::sparse::merkle_tree::node::Node::create_(leaf|node|node_from_hashes|node_on_path)$"
INSERT = r"^fuel_storage::StorageMutate::insert$"
HANDOFF = r"(::update_with_path_set|::delete_with_path_set|branch::merge_branches|::set_root_node)$"


def names_of(f, dest):
    """textual names under which the created node may be referred to"""
    out = {describe_place(f, dest)}
    if len(dest) == 1:
        al = forward_aliases(f, {dest[0]}, None)
        for l in al:
            nm = dbg_name(f, l)
            if nm:
                out.add("var:" + nm)
                out.add("arg:" + nm)
        # moved into a field of something else (`branch.node = created`)
        for i, j, p, rv, line in assignments(f):
            if len(p) > 1 and rv[0] == "use" and rv[1][0] != "k" and rv[1][1] and rv[1][1][0] in al and len(rv[1][1]) == 1:
                out.add(describe(f, ["c", p], depth=9))
    out.discard("tmp")
    return out


def run(F, rep, tier, allfacts):
    rep.rule("STORE-before-use", "created node -> StorageMutate::insert(hash(node), node) before overwrite / root / hand-off / Ok return")
    rep.rule("STORE-leaves", "from_set inserts every leaf before merging")
    rep.rule("ROOT-last", "set_root_node receives the last built node")
    rep.rule("LOAD", "empty root -> placeholder; missing root node -> LoadError; missing child -> ChildNotFound; zero_sum -> placeholder")

    targets = [MT + "insert", MT + "update_with_path_set", MT + "delete_with_path_set", MT + "from_set",
               "fuel_merkle::sparse::merkle_tree::branch::merge_branches"]
    nsites = 0
    # private helpers of the module that only build and return a node (`fn rebuild_parent(..) -> Node`) create nodes too
    helpers_ = [hn for hn, hf in F.find(r"^fuel_merkle::sparse::merkle_tree::\w+$", ["fuel_merkle"], required=False)
                if any(callee_matches(c, CREATE) for _, c, *_ in calls(hf)) and not any(callee_matches(c, INSERT) for _, c, *_ in calls(hf))]
    CREATE_ = CREATE + "".join("|^" + re.escape(h) + "$" for h in helpers_)
    for tn in targets:
        n, f = F.find("^" + re.escape(tn) + "$", ["fuel_merkle"], one=True)
        rep.saw(n)
        cfg = CFG(f)
        creates = [(i, dest, tgt, line, callee_name(c).rsplit("::", 1)[-1]) for i, c, args, dest, tgt, line in calls(f) if callee_matches(c, CREATE_)]
        inserts = {i: args for i, c, args, dest, tgt, line in calls(f) if callee_matches(c, INSERT)}
        hand = [i for i, c, *_ in calls(f) if callee_matches(c, HANDOFF)]
        oks = ok_sites(f, cfg)
        # a returned aggregate MerkleTree {root_node: X} counts as "becomes the root"
        roots = [i for i, j, p, rv, line in assignments(f) if rv[0] == "agg" and rv[1].endswith("sparse::merkle_tree::MerkleTree")]
        for ci, dest, tgt, line, kind in creates:
            nsites += 1
            where = "%s:%s" % (f["file"], line)
            key = "%s:%s#%d" % (short(n).rsplit("::", 1)[-1], kind, [c[0] for c in creates if c[4] == kind].index(ci))
            if tgt is None:
                continue
            free = cfg._reach_from([tgt], avoid=set(inserts))
            sinks = {c[0] for c in creates} | set(hand) | set(oks) | set(roots)
            leaked = sorted(b for b in sinks if b in free)
            if leaked:
                what = []
                for b in leaked[:4]:
                    t = f["bbs"][b]["t"]
                    what.append("bb%d:%s" % (b, callee_name(t[1]).rsplit("::", 1)[-1] if t[0] == "call" and "def" in t[1] else "return/aggregate"))
                rep.bad("STORE-before-use", key, where, "node created by %s can reach %s without passing a StorageMutate::insert: it would be used/overwritten/returned unstored" % (kind, what))
                continue
            # the first inserts reached must be keyed by this node
            frontier = [b for b in inserts if b in cfg._reach_from([tgt], avoid=set(inserts) - {b}) and b in cfg.reachable_incl(tgt)]
            first = [b for b in frontier if b in cfg._reach_from([tgt], avoid=set(inserts) - {b})]
            nm = names_of(f, dest)
            cdesc = describe(f, ["c", dest], depth=9)
            okk = bool(first)
            got = []
            for b in first:
                a = inserts[b]
                kd, vd = describe(f, a[1], depth=12), describe(f, a[2], depth=9)
                got.append((kd, vd))
                m = re.match(r"^call:hash\((.+)\)$", kd)
                okk = okk and m is not None and (m.group(1) in nm or m.group(1) == cdesc) and vd == m.group(1)
            rep.check(okk, "STORE-before-use", key, where, "the insert following %s must be keyed by the created node's hash() and carry its bytes; node names %s, inserts %s" % (kind, sorted(nm), got))
    rep.floor("STORE-before-use", "node creation sites", nsites, 6)

    # ---------------- from_set leaves
    n, f = F.find("^" + re.escape(MT) + "from_set$", ["fuel_merkle"], one=True)
    cfg = CFG(f)
    where = "%s:%s" % (f["file"], f["line"])
    leaf_ins = [(i, describe(f, args[1], depth=12), describe(f, args[2], depth=12)) for i, c, args, *_ in calls(f)
                if callee_matches(c, INSERT) and re.search(r"call:hash\(.*\.node\)", describe(f, args[1], depth=12))]
    cl = [n2 for n2, f2 in F.find("^" + re.escape(MT) + r"from_set::\{closure#\d+\}$", ["fuel_merkle"]) if call_blocks(f2, CREATE)]
    ok = len(leaf_ins) == 1
    if ok:
        ib = leaf_ins[0][0]
        dom = cfg.dominators()
        heads = [d for d in dom[ib] if d != ib and f["bbs"][d]["t"][0] == "call" and callee_matches(f["bbs"][d]["t"][1], r"Iterator>?::next$")]
        heads.sort(key=lambda d: len(dom[d]), reverse=True)
        ok = bool(heads) and len(cl) == 1 and cl[0].rsplit("::", 1)[-1] in describe(f, f["bbs"][heads[0]]["t"][2][0], depth=30)
        if ok:
            h = heads[0]
            sinks = call_blocks(f, r"branch::merge_branches$") + call_blocks(f, r"::set_root_node$") + list(ok_sites(f, cfg))
            ok = bool(sinks) and all(cfg.dominates(h, s) for s in sinks) and ib in cfg.reachable_from(ib)
    rep.check(ok, "STORE-leaves", "from_set:leaf-loop-dominates-merges-and-returns", where,
              "from_set must insert every leaf produced by its leaf-creating closure (loop over the collected branches) before any merge or return; leaf inserts %s" % leaf_ins)
    rep.check(len(cl) == 1, "STORE-leaves", "from_set:leaves-created-by-one-closure", where, "closures creating nodes in from_set: %s" % cl)

    # ---------------- root last
    for m in ("update_with_path_set", "delete_with_path_set"):
        n, f = F.find("^" + re.escape(MT) + m + "$", ["fuel_merkle"], one=True)
        cfg = CFG(f)
        sr = [(i, describe(f, args[1], depth=8), describe_nf(F, f, args[1], depth=16)) for i, c, args, *_ in calls(f) if callee_matches(c, r"::set_root_node$")]
        oks = ok_sites(f, cfg)
        muts = [i for i, c, *_ in calls(f) if callee_matches(c, INSERT) or callee_matches(c, r"^fuel_storage::StorageMutate::remove$")]
        # the node handed to set_root_node is the running node of the bottom-up rebuild (whatever it is called): the
        # variable that the merge loop assigns create_node_from_hashes(..) to
        creators = {"create_node_from_hashes"} | {hn.rsplit("::", 1)[-1] for hn, hf in F.find(r"^fuel_merkle::sparse::merkle_tree::\w+$", ["fuel_merkle"], required=False)
                                                 if any(callee_name(c).endswith("::create_node_from_hashes") for _, c, *_ in calls(hf))}     # private helpers that rebuild a parent
        ok = len(sr) == 1 and sr[0][1].startswith("var:") and any(("call:%s(" % h) in sr[0][2] for h in creators)
        if ok:
            # every Ok exit reachable after a storage mutation passes set_root_node
            for o in oks:
                for mb in muts:
                    if o in cfg.reachable_from(mb) and o in cfg._reach_from([f["bbs"][mb]["t"][4]], avoid={sr[0][0]}):
                        ok = False
        rep.check(ok, "ROOT-last", m, "%s:%s" % (f["file"], f["line"]), "%s must finish with set_root_node(current_node) on every Ok path that mutated storage; set_root_node calls %s" % (m, [x[:2] for x in sr]))

    # ---------------- load
    n, f = F.find("^" + re.escape(MT) + "load$", ["fuel_merkle"], one=True)
    rep.saw(n)
    cfg = CFG(f)
    where = "%s:%s" % (f["file"], f["line"])
    eqs = [(i, [describe(f, a, depth=8) for a in args]) for i, c, args, *_ in calls(f) if callee_matches(c, r"PartialEq.*::eq$")]
    new = call_blocks(f, "^" + re.escape(MT) + "new$")
    get = [(i, [describe(f, a, depth=8) for a in args]) for i, c, args, *_ in calls(f) if callee_matches(c, r"StorageInspect::get$")]
    ok = len(eqs) == 1 and sorted(eqs[0][1]) == ["arg:root", "call:empty_root()"] and len(new) == 1 and len(get) == 1 and get[0][1][1] == "arg:root"
    if ok:
        bc = bool_consumers(f, eqs[0][0])
        ok = len(bc) == 1
        if ok:
            _, t, fl = bc[0]
            rt, rfl = cfg.reachable_incl(t), cfg.reachable_incl(fl)
            ok = new[0] in rt and new[0] not in rfl and get[0][0] in rfl and get[0][0] not in rt
    rep.check(ok, "LOAD", "load:empty-root->new;else->storage.get(root)", where, "eq %s new %s get %s" % (eqs, new, get))
    # a missing root fails with LoadError: the variant is built in load or in its ok_or_else closure, only on the path where
    # storage.get(root) yielded None
    fam_ = [(n, f)] + F.find("^" + re.escape(MT) + r"load::\{closure#\d+\}$", ["fuel_merkle"], required=False)
    le = [(gn, i) for gn, g in fam_ for i, j, p, rv, line in assignments(g) if rv[0] == "agg" and rv[2] == "LoadError"]
    okle = len(le) == 1
    if okle and le[0][0] == n:
        gs_ = site_guard(F, n, f, cfg, le[0][1])
        okle = any(g_.get("kind") == "none-of" and "get" not in g_ and any(t_ in ("root",) or True for t_ in g_.get("tokens", [])) for g_ in gs_) and bool(get) and cfg.dominates(get[0][0], le[0][1])
    elif okle:
        oo = [(callee_name(c), describe(f, args[1], depth=6)) for i, c, args, *_ in calls(f) if callee_matches(c, r"Option::<T>::ok_or(_else)?$")]
        okle = len(oo) == 1 and "closure#" in oo[0][1]
    rep.check(okle, "LOAD", "load:missing-root->LoadError", where, "LoadError construction sites %s" % le)
    agg = [dict(zip(rv[4], [simplify_desc(describe_nf(F, f, x, depth=30)) for x in rv[3]])) for i, j, p, rv, line in assignments(f) if rv[0] == "agg" and rv[1].endswith("sparse::merkle_tree::MerkleTree")]
    aggb = [i for i, j, p, rv, line in assignments(f) if rv[0] == "agg" and rv[1].endswith("sparse::merkle_tree::MerkleTree")]
    rep.check(len(agg) == 1 and re.search(r"conv\(.*call:get\(arg:storage,arg:root\)", agg[0].get("root_node", "")) is not None and agg[0].get("storage") == "arg:storage" and
              bool(get) and all(cfg.dominates(get[0][0], b) for b in aggb), "LOAD", "load:root_node=decode(storage[root])", where, "aggregate %s" % agg)
    for side in ("left", "right"):
        n, f = F.find(r"^<fuel_merkle::sparse::merkle_tree::node::StorageNode<'_, TableType, StorageType> as fuel_merkle::common::node::ParentNode>::%s_child$" % side, ["fuel_merkle"], one=True)
        rep.saw(n)
        cfg = CFG(f)
        where = "%s:%s" % (f["file"], f["line"])
        eqs = [(i, [describe(f, a, depth=8) for a in args]) for i, c, args, *_ in calls(f) if callee_matches(c, r"PartialEq.*::eq$")]
        eqs = [e for e in eqs if any("zero_sum" in a for a in e[1])]
        get = [(i, [describe(f, a, depth=8) for a in args]) for i, c, args, *_ in calls(f) if callee_matches(c, r"StorageInspect::get$")]
        ph = call_blocks(f, r"node::Node::create_placeholder$")
        nf = agg_blocks(f, r"ChildError$", "ChildNotFound")
        ok = len(eqs) == 1 and any(("%s_child_key" % side) in a for a in eqs[0][1]) and len(get) == 1 and ("%s_child_key" % side) in get[0][1][1] and len(ph) == 1 and len(nf) >= 1
        if ok:
            bc = bool_consumers(f, eqs[0][0])
            ok = len(bc) == 1
            if ok:
                _, t, fl = bc[0]
                rt, rfl = cfg.reachable_incl(t), cfg.reachable_incl(fl)
                ok = ph[0] in rt and ph[0] not in rfl and get[0][0] in rfl and get[0][0] not in rt and all(b in cfg.reachable_from(get[0][0]) for b in nf)
        rep.check(ok, "LOAD", "%s_child:zero_sum->placeholder;else->get;missing->ChildNotFound" % side, where, "eq %s get %s placeholder %s notfound %s" % (eqs, get, ph, nf))
