"""C18 Fee and refund arithmetic is monotone and bounded by the fee limit — formula-shape clauses.

The symbolic expression of each function's result is extracted from MIR (temporaries chased to their roots)
and compared with the specification formula:

  FORM-max_gas    every Chargeable::max_gas body (the default and every override) returns a chain of
                  saturating_add whose left-most leaf is self.min_gas(gas_costs, fee) with the same arguments
                  => min_gas <= max_gas for all inputs (saturating addition only increases).
  FORM-fees       min_fee / max_fee = gas_to_fee(min_gas|max_gas(..), gas_price, fee.gas_price_factor())
                  .saturating_add(tip); both identical up to min/max; gas_to_fee = checked_mul(gas as u128,
                  price as u128).div_ceil(factor as u128) (the ceiling formula, overflow impossible).
  FORM-refund     refund_fee = max_fee_limit().checked_sub( u64::try_from( gas_to_fee(min_gas(..).saturating_add(
                  used_gas), gas_price, factor).saturating_add(tip) ).ok()? ) => refund <= limit, no wrap-around,
                  non-increasing in used_gas (used_gas only appears inside saturating_add / monotone operators).
  NO-PANIC        none of the fee functions contains an overflow-checked (`Assert`) arithmetic operation or
                  an unwrap/expect other than the documented u64*u64 <= u128 multiplication.
  GUARD-from_tx   TransactionFee::checked_from_tx rejects min_fee > max_fee and narrowing failures.
  DISPATCH-min_gas  min_fee / max_fee / refund_fee / every max_gas body reach min_gas and max_gas through the Chargeable
                  *method* on self (so per-kind overrides such as Upload's storage surcharge apply); the free helper
                  fee::min_gas is called only from min_gas bodies.
Not decided: numeric equality with the specification beyond these shapes (they are the specification's formulas).
"""
import re

from fvlib.core import (CFG, CallGraph, assignments, calls, callee_matches, callee_name, describe, flatten_terms, guards, guard_region, match_commuted,
                        short, simplify_desc)

MIN = r"call:min_gas\(arg:self,arg:gas_costs,arg:fee\)"
WIT = r"call:saturating_mul\(call:saturating_sub\(call:witness_limit\(arg:self\),call:size_dynamic\(call:witnesses\(arg:self\)\)\),call:gas_per_byte\(arg:fee\)\)"
FACTOR = r"call:gas_price_factor\(arg:fee\)"
TIP = r"(call:tip\(arg:self\)|call:unwrap_or\(call:get\(call:policies\(arg:self\),agg:PolicyType::Tip\),const:0\))"


def result_expr(f, depth=40):
    """Description(s) of the value returned (calls writing _0 or assignments to _0)."""
    out = []
    for i, j, p, rv, line in assignments(f):
        if p == [0] and rv[0] == "use":
            out.append(describe(f, rv[1], depth=depth))
    for i, c, args, dest, tgt, line in calls(f):
        if dest == [0]:
            out.append("call:%s(%s)" % (callee_name(c).rsplit("::", 1)[-1], ",".join(describe(f, a, depth=depth) for a in args)))
    return out


def leftmost_leaf_of_saturating_add(expr):
    """Peel `call:saturating_add(X,Y)` from the left; returns (leaf, all peeled right operands)."""
    cur = expr
    rights = []
    while cur.startswith("call:saturating_add("):
        inner = cur[len("call:saturating_add("):-1]
        depth = 0
        split = None
        for k, ch in enumerate(inner):
            if ch == "(":
                depth += 1
            elif ch == ")":
                depth -= 1
            elif ch == "," and depth == 0:
                split = k
                break
        if split is None:
            break
        rights.append(inner[split + 1:])
        cur = inner[:split]
    return cur, rights


def fee_formula_fns(F, mg):
    out = list(mg)
    for m in ("min_fee", "max_fee", "refund_fee"):
        out += F.find(r"^fuel_tx::transaction::fee::Chargeable::%s$" % m, ["fuel_tx"])
    return out


def run(F, rep, tier, allfacts):
    rep.rule("FORM-max_gas", "max_gas = min_gas(..) saturating_add ... (left-most leaf is min_gas with the same arguments)")
    rep.rule("FORM-fees", "min_fee/max_fee = gas_to_fee(gas, price, factor).saturating_add(tip); gas_to_fee = checked_mul.div_ceil")
    rep.rule("FORM-refund", "refund = max_fee_limit.checked_sub(try_into(gas_to_fee(min_gas+used_gas,...)+tip))")
    rep.rule("NO-PANIC", "no Assert(overflow) terminators / stray expects in the fee functions")
    rep.rule("GUARD-from_tx", "checked_from_tx: min_fee > max_fee -> None")
    rep.rule("DISPATCH-min_gas", "fee formulas reach min_gas through the Chargeable method (so per-kind overrides apply); the free helper fee::min_gas is called only from min_gas bodies")
    cg = CallGraph(F, ["fuel_tx", "fuel_vm"])
    FREE = "fuel_tx::transaction::fee::min_gas"
    METH = "fuel_tx::transaction::fee::Chargeable::min_gas"
    nfree = 0
    for n, i, c, args, line in cg.callers_of("^" + re.escape(FREE) + "$"):
        if "::tests::" in n or "::test::" in n:
            continue
        nfree += 1
        f = cg.fns[n]
        ok = n == METH or re.search(r" as fuel_tx::transaction::fee::Chargeable>::min_gas$|Chargeable for .*>::min_gas$", n) is not None
        rep.check(ok, "DISPATCH-min_gas", "free-min_gas<-" + short(n), "%s:%s" % (f["file"], line),
                  "the free helper fee::min_gas (no per-kind surcharge) is called from %s; fee/refund code must call the Chargeable::min_gas method so that overrides (e.g. Upload's storage surcharge) apply" % n)
    rep.floor("DISPATCH-min_gas", "callers of the free helper", nfree, 2)

    mg = F.find(r"Chargeable(>| for .*>)?::max_gas$", ["fuel_tx"])
    rep.floor("FORM-max_gas", "max_gas bodies", len(mg), 2)
    for n, f in mg:
        rep.saw(n)
        ex = [simplify_desc(e) for e in result_expr(f)]
        ok = False
        if len(ex) == 1:
            # a saturating sum (associative, commutative): exactly the specified summands, in any order / nesting
            terms = flatten_terms(ex[0])
            want_terms = ["^" + MIN + "$", "^" + WIT + "$"] + ([r"^arg:self\.body\.script_gas_limit$"] if "script::" in n else [])
            ok = len(terms) == len(want_terms) and all(sum(1 for t in terms if match_commuted(w, t) is not None) == 1 for w in want_terms)
        rep.check(ok, "FORM-max_gas", short(n).replace("fuel_tx::transaction::", ""), "%s:%s" % (f["file"], f["line"]),
                  "max_gas must be min_gas(gas_costs, fee) + remaining witness gas (+ script gas limit) with saturating additions only; found %s" % ex)
        rep.sample({"fn": short(n), "expr": ex})
    for which in ("min", "max"):
        n, f = F.find(r"^fuel_tx::transaction::fee::Chargeable::%s_fee$" % which, ["fuel_tx"], one=True)
        rep.saw(n)
        ex = [simplify_desc(e) for e in result_expr(f)]
        want = r"^call:saturating_add\(call:gas_to_fee\(call:%s_gas\(arg:self,arg:gas_costs,arg:fee\),arg:gas_price,%s\),%s\)$" % (which, FACTOR, TIP)
        rep.check(len(ex) == 1 and match_commuted(want, ex[0]) is not None, "FORM-fees", which + "_fee", "%s:%s" % (f["file"], f["line"]),
                  "%s_fee must be gas_to_fee(%s_gas(..), gas_price, gas_price_factor).saturating_add(tip); found %s" % (which, which, ex))
    overrides = [n for n, f in F.find(r"Chargeable for .*>::(min_fee|max_fee|refund_fee)$", ["fuel_tx"], required=False)]
    rep.check(not overrides, "FORM-fees", "no-overrides-of-fee-formulas", None, "fee formulas are overridden for a transaction kind: %s" % overrides)
    n, f = F.find(r"^fuel_tx::transaction::fee::gas_to_fee$", ["fuel_tx"], one=True)
    rep.saw(n)
    ex = [simplify_desc(e) for e in result_expr(f)]
    rep.check(len(ex) == 1 and match_commuted(r"^call:div_ceil\(call:expect\(call:checked_mul\(arg:gas,arg:gas_price\),[^)]*\),arg:factor\)$", ex[0]) is not None, "FORM-fees", "gas_to_fee=ceil(gas*price/factor)",
              "%s:%s" % (f["file"], f["line"]), "gas_to_fee must be (gas * price).div_ceil(factor) in u128; found %s" % ex)
    casts = sorted(rv[3] for i, j, p, rv, line in assignments(f) if rv[0] == "cast")
    rep.check(casts == ["u128", "u128", "u128"], "FORM-fees", "gas_to_fee:widened-to-u128", "%s:%s" % (f["file"], f["line"]), "all three operands must be widened to u128; casts %s" % casts)
    n, f = F.find(r"^fuel_tx::transaction::fee::Chargeable::refund_fee$", ["fuel_tx"], one=True)
    rep.saw(n)
    ex = [simplify_desc(e) for e in result_expr(f)]
    ex = [e for e in ex if e.startswith("call:checked_sub(")]
    used = r"call:saturating_add\(call:gas_to_fee\(call:saturating_add\(%s,arg:used_gas\),arg:gas_price,%s\),%s\)" % (MIN, FACTOR, TIP)
    want = r"^call:checked_sub\(call:max_fee_limit\(arg:self\),conv\(%s\)\)$" % used
    rep.check(len(ex) == 1 and match_commuted(want, ex[0]) is not None, "FORM-refund", "refund_fee", "%s:%s" % (f["file"], f["line"]),
              "refund_fee must be max_fee_limit().checked_sub(u64::try_from(gas_to_fee(min_gas + used_gas, price, factor) + tip).ok()?); found %s" % ex)

    for n, f in fee_formula_fns(F, mg):
        for i, c, args, dest, tgt, line in calls(f):
            nm = callee_name(c)
            if nm.endswith("::min_gas") or nm.endswith("::max_gas"):
                want = "fuel_tx::transaction::fee::Chargeable::" + nm.rsplit("::", 1)[-1]
                rep.check(c.get("def") == want and describe(f, args[0]) == "arg:self", "DISPATCH-min_gas", "%s:calls-%s-as-method" % (short(n).replace("fuel_tx::transaction::", ""), nm.rsplit("::", 1)[-1]),
                          "%s:%s" % (f["file"], line), "%s must call self.%s(..) through the Chargeable trait; calls %s" % (n, nm.rsplit("::", 1)[-1], nm))

    # ---------------- no panic
    fee_fns = F.find(r"^fuel_tx::transaction::fee::", ["fuel_tx"]) + mg
    seen = set()
    for n, f in fee_fns:
        if n in seen or "::tests::" in n or "::_::" in n or f.get("exp"):
            continue
        seen.add(n)
        asserts = [b["t"][1] for b in f["bbs"] if b["t"][0] == "assert" and not b.get("cu")]
        rep.check(not asserts, "NO-PANIC", "no-assert:" + short(n).replace("fuel_tx::transaction::", ""), "%s:%s" % (f["file"], f["line"]),
                  "overflow-checked arithmetic (can panic) in a fee function: %s" % asserts)
        exps = [callee_name(c) for i, c, args, *_ in calls(f) if callee_matches(c, r"::(unwrap|expect)$")]
        allowed = 1 if n.endswith("::gas_to_fee") else 0
        rep.check(len(exps) <= allowed, "NO-PANIC", "no-unwrap:" + short(n).replace("fuel_tx::transaction::", ""), "%s:%s" % (f["file"], f["line"]),
                  "unwrap/expect in a fee function: %s" % exps)
    n, f = F.find(r"^fuel_tx::transaction::fee::TransactionFee::checked_from_tx$", ["fuel_tx"], one=True)
    rep.saw(n)
    cfg = CFG(f)
    okg = False
    for g in guards(f):
        reg = guard_region(g, r"min_fee\(", r"max_fee\(")
        if reg is not None:
            side = g["t"] if reg == {"gt"} else (g["f"] if reg == {"lt", "eq"} else None)
            nones = [i for i, j, p, rv, line in assignments(f) if p == [0] and rv[0] == "agg" and rv[2] == "None"]
            okg = side is not None and any(b in cfg.reachable_incl(side) for b in nones)
    rep.check(okg, "GUARD-from_tx", "min_fee>max_fee->None", "%s:%s" % (f["file"], f["line"]), "checked_from_tx must reject min_fee > max_fee")
