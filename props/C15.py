"""C15 Contract and predicate identifiers follow the specification — formula-shape and single-source clauses.

  FORM-contract-id     Contract::id feeds one default SHA-256 hasher with exactly ContractId::SEED, salt, root,
                       state_root in that order and returns its digest; Hasher wraps sha2::Sha256 and
                       input/digest resolve to Digest::update/finalize.
  FORM-predicate-owner Input::predicate_owner = digest(SEED, Contract::root_from_code(predicate));
                       is_predicate_owner_valid = (owner == predicate_owner(predicate)).
  TAB-code-root        root_from_code: chunks(LEAF_SIZE) with LEAF_SIZE = 16 KiB, MULTIPLE = 8, PADDING_BYTE = 0;
                       a chunk is pushed verbatim exactly when len == LEAF_SIZE or len % MULTIPLE == 0,
                       otherwise the pushed leaf is [PADDING_BYTE; LEAF_SIZE][..len.next_multiple_of(MULTIPLE)]
                       with the chunk copied to [0..len]; the result is the binary Merkle root of that tree.
  FORM-state-root      initial_state_root maps each slot to (MerkleTreeKey::new(key), value) — the hashing
                       constructor, itself SHA-256 — and returns sparse root_from_set of those pairs.
  WHO-single-source    every use of the identifiers goes through these definitions: callers of
                       root_from_code / initial_state_root / id / predicate_owner are the reviewed table;
                       ContractId::SEED is hashed nowhere else.
  VM-agreement         CreateMetadata::compute = (id(salt, root_from_code(bytecode), initial_state_root(slots)),
                       …) from the same transaction; deploy_inner deploys under the cached id or the same three
                       functions of the same create; CROO writes storage_contract(id).root(); check_predicate
                       and the validity rules both test Input::is_predicate_owner_valid(owner, predicate).
Not decided: the Merkle root computations themselves (C11/C12) and the byte value of ContractId::SEED.
"""
import re

from fvlib.core import (CFG, CallGraph, assignments, bool_switch_targets, call_blocks, calls, callee_matches,
                        callee_name, bool_consumers, dbg_name, describe, describe_nf, guards, short)

C = "fuel_tx::contract::Contract::"
INP = "fuel_tx::transaction::types::input::Input::"


def hasher_inputs(f):
    """ordered [(bb, hasher, desc-of-data, line)] of the data fed to a Hasher: `h.input(x)` (in place) or `h.chain(x)`
    (builder) — both are Digest::update; ordered by dominance."""
    out = []
    for i, c, args, dest, tgt, line in calls(f):
        if callee_matches(c, r"^fuel_crypto::hasher::Hasher::(input|chain)$"):
            out.append((i, describe(f, args[0], depth=30), describe(f, args[1], depth=12), line))
    dom = CFG(f).dominators()
    out.sort(key=lambda x: len(dom.get(x[0], ())))
    return out


def run(F, rep, tier, allfacts):
    cg = CallGraph(F, None)
    rep.rule("FORM-contract-id", "sha256(SEED ‖ salt ‖ root ‖ state_root) through one Hasher; Hasher = sha2::Sha256")
    rep.rule("FORM-predicate-owner", "sha256(SEED ‖ root_from_code(predicate)); validity = equality with it")
    rep.rule("TAB-code-root", "16 KiB chunks; verbatim iff full or multiple of 8; else zero-padded to next multiple of 8")
    rep.rule("FORM-state-root", "sparse root over (sha256(key), value)")
    rep.rule("WHO-single-source", "callers of the identifier functions ⊆ reviewed table; SEED hashed only there")
    rep.rule("VM-agreement", "metadata, deployment, CROO and predicate-owner checks use the same definitions with matching arguments")

    # ---------------- hasher
    h = F.adt("fuel_crypto::hasher::Hasher")
    fty = h["variants"][0]["fields"][0][1]
    rep.check("sha2::core_api::Sha256VarCore" in fty and "OidSha256" in fty, "FORM-contract-id", "Hasher-wraps-Sha256", "%s:%s" % (h["file"], h["line"]),
              "fuel_crypto::Hasher must wrap sha2::Sha256; field type is %s" % fty[:120])
    for m, want in (("input", r"digest::Digest>::update$"), ("chain", r"digest::(Digest>::chain_update|Update::chain)$"), ("digest", r"digest::Digest>::finalize$"), ("finalize", r"digest::Digest>::finalize$")):
        n, f = F.find(r"^fuel_crypto::hasher::Hasher::%s$" % m, ["fuel_crypto"], one=True)
        rep.saw(n)
        cs = [callee_name(c) for i, c, *_ in calls(f) if not callee_matches(c, r"(Clone>::clone|From<.*>::from|Into<U>>::into)$")]
        rep.check(len(cs) == 1 and re.search(want, cs[0]) is not None, "FORM-contract-id", "Hasher::%s" % m, "%s:%s" % (f["file"], f["line"]),
                  "Hasher::%s must be exactly Digest::%s on the wrapped state; calls %s" % (m, want, cs))

    def chain_ok(f, want):
        ins = hasher_inputs(f)
        cfg = CFG(f)
        # one hasher: every input() is on the same place; every chain() continues the previous chain()/default()
        same = len({h for _, h, _, _ in ins if "chain(" not in h and "default(" not in h}) <= 1 and all(("default(" in h) for _, h, _, _ in ins if "chain(" in h or h.startswith("call:default"))
        ok = [d for _, _, d, _ in ins] == want and same
        ok = ok and all(cfg.dominates(ins[k][0], ins[k + 1][0]) and ins[k + 1][0] not in cfg.reachable_from(ins[k + 1][0]) for k in range(len(ins) - 1))
        dg = [(i, describe(f, args[0], depth=30)) for i, c, args, *_ in calls(f) if callee_matches(c, r"^fuel_crypto::hasher::Hasher::(digest|finalize)$")]
        df = call_blocks(f, r"^<fuel_crypto::hasher::Hasher as std::default::Default>::default$")
        ok = ok and len(dg) == 1 and len(df) == 1 and bool(ins) and cfg.dominates(ins[-1][0], dg[0][0]) and cfg.dominates(df[0], ins[0][0])
        # returned value derives from the digest
        rets = [describe(f, args[0], depth=30) for i, c, args, dest, *_ in calls(f) if dest == [0]]
        rets += [describe(f, rv[1], depth=30) for i, j, p, rv, line in assignments(f) if p == [0] and rv[0] == "use"]
        ok = ok and len(rets) == 1 and re.search(r"call:(digest|finalize)\(", rets[0]) is not None and "default(" in rets[0]
        return ok, [d for _, _, d, _ in ins], rets

    SEED = "const:fuel_types::array_types::ContractId::SEED"
    n, f = F.find(r"^" + re.escape(C) + "id$", ["fuel_tx"], one=True)
    rep.saw(n)
    ok, got, rets = chain_ok(f, [SEED, "arg:salt", "arg:root", "arg:state_root"])
    rep.check(ok, "FORM-contract-id", "Contract::id", "%s:%s" % (f["file"], f["line"]),
              "Contract::id must hash SEED, salt, root, state_root in this order with one hasher and return its digest; inputs %s, returns %s" % (got, rets))
    n, f = F.find(r"^" + re.escape(INP) + "predicate_owner$", ["fuel_tx"], one=True)
    rep.saw(n)
    ok, got, rets = chain_ok(f, [SEED, "call:root_from_code(arg:predicate)"])
    rep.check(ok, "FORM-predicate-owner", "Input::predicate_owner", "%s:%s" % (f["file"], f["line"]),
              "predicate_owner must hash SEED then Contract::root_from_code(predicate); inputs %s, returns %s" % (got, rets))
    rf = [callee_name(c) for i, c, *_ in calls(f) if callee_matches(c, r"root_from_code$")]
    rep.check(rf == [C + "root_from_code"], "FORM-predicate-owner", "uses-Contract::root_from_code", "%s:%s" % (f["file"], f["line"]), "root function used: %s" % rf)
    n, f = F.find(r"^" + re.escape(INP) + "is_predicate_owner_valid$", ["fuel_tx"], one=True)
    rep.saw(n)
    eq = [(callee_name(c), [describe(f, a, depth=12) for a in args]) for i, c, args, dest, *_ in calls(f) if dest == [0]]
    rep.check(len(eq) == 1 and eq[0][0].endswith("::eq") and sorted(eq[0][1]) == ["arg:owner", "call:predicate_owner(arg:predicate)"], "FORM-predicate-owner",
              "is_predicate_owner_valid", "%s:%s" % (f["file"], f["line"]), "must be owner == predicate_owner(predicate); found %s" % eq)

    # ---------------- code root
    consts = {k: F.const("fuel_tx::contract::" + k) for k in ("LEAF_SIZE", "MULTIPLE", "PADDING_BYTE")}
    rep.check(consts == {"LEAF_SIZE": 16384, "MULTIPLE": 8, "PADDING_BYTE": 0}, "TAB-code-root", "constants", "fuel-tx/src/contract.rs",
              "LEAF_SIZE/MULTIPLE/PADDING_BYTE must be 16384/8/0; found %s" % consts)
    n, f = F.find(r"^" + re.escape(C) + "root_from_code$", ["fuel_tx"], one=True)
    rep.saw(n)
    where = "%s:%s" % (f["file"], f["line"])
    ch = [(describe(f, args[0], depth=12), describe(f, args[1])) for i, c, args, *_ in calls(f) if callee_matches(c, r"slice::<impl \[T\]>::chunks$")]
    rep.check(ch == [("arg:bytes", "const:fuel_tx::contract::LEAF_SIZE")], "TAB-code-root", "chunks(LEAF_SIZE)-of-all-bytes", where, "chunking: %s" % ch)
    new = call_blocks(f, r"^fuel_merkle::binary::root_calculator::MerkleRootCalculator::new$")
    fe = [i for i, c, *_ in calls(f) if callee_matches(c, r"Iterator::for_each$")]
    rt = [(i, dest) for i, c, args, dest, *_ in calls(f) if callee_matches(c, r"^fuel_merkle::binary::root_calculator::MerkleRootCalculator::root$")]
    cfg = CFG(f)
    rets = [describe(f, args[0], depth=12) for i, c, args, dest, *_ in calls(f) if dest == [0]]
    # every chunk is visited: `chunks(..).for_each(|leaf| ..)` or `for leaf in chunks(..) {..}` (pushes on a cycle headed by next())
    loop_push = [i for i, c, *_ in calls(f) if callee_matches(c, r"MerkleRootCalculator::push$") and i in cfg.reachable_from(i)]
    heads = [i for i, c, args, *_ in calls(f) if callee_matches(c, r"Iterator>?::next$") and "chunks(" in describe(f, args[0], depth=14)]
    visit = fe[:1] if len(fe) == 1 else (heads[:1] if (loop_push and len(heads) == 1) else [])
    rep.check(len(new) == 1 and len(visit) == 1 and len(rt) == 1 and cfg.dominates(new[0], visit[0]) and cfg.dominates(visit[0], rt[0][0]) and
              len(rets) == 1 and rets[0].startswith("call:root("), "TAB-code-root", "new->for_each->root", where,
              "root_from_code must build one binary Merkle calculator, push every chunk, and return its root; returns %s" % rets)
    cl0 = F.find(r"^" + re.escape(C) + r"root_from_code::\{closure#0\}$", ["fuel_tx"], required=False)
    if cl0 and fe:
        n, f = cl0[0]
        LEAF = r"arg:\w+"                       # the closure's parameter
    else:
        LEAF = r"call:next\([^@]*call:chunks\([^@]*\)@Some\.0"      # the loop variable
    rep.saw(n)
    cfg = CFG(f)
    where = "%s:%s" % (f["file"], f["line"])
    pushes = [(i, describe(f, args[1], depth=24)) for i, c, args, *_ in calls(f) if callee_matches(c, r"MerkleRootCalculator::push$")]
    verb = [p for p in pushes if re.match("^" + LEAF + "$", p[1])]
    padd = [p for p in pushes if not re.match("^" + LEAF + "$", p[1])]
    ok = len(verb) <= 1 and len(padd) == 1
    gl = [g for g in guards(f) if g["op"] in ("Eq", "Ne")]

    def sides(g):
        return sorted([describe(f, g["a"], depth=24), describe(f, g["b"], depth=24)])

    def is_full(g):
        x = sides(g)
        return any(re.match(r"^call:len\(" + LEAF + r"\)$", d) for d in x) and "const:fuel_tx::contract::LEAF_SIZE" in x

    def is_mult(g):
        x = sides(g)
        return any(re.match(r"^Rem\(call:len\(" + LEAF + r"\),const:fuel_tx::contract::MULTIPLE\)$", d) for d in x) and "const:0" in x
    G = [g for g in gl if is_full(g) or is_mult(g)]
    detail = "guards %s pushes %s" % ([(g["op"], sides(g)) for g in gl], pushes)
    if ok:
        # the unpadded push may only be reached through the *equal* edge of `len == LEAF_SIZE` or `len % MULTIPLE == 0`
        # (both imply the chunk already is a multiple of 8); every other chunk must take the padding path.
        eq_side = [(g["t"] if g["op"] == "Eq" else g["f"]) for g in G]
        pb = padd[0][0]
        neither = cfg._reach_from([0], avoid=set(eq_side))
        ok = pb in neither and all(g["t"] != g["f"] for g in G)
        if verb:
            ok = ok and bool(G) and verb[0][0] not in neither
    rep.check(ok, "TAB-code-root", "verbatim-only-if-full-or-multiple-of-8", where,
              "a chunk may be pushed unpadded only when len == LEAF_SIZE or len %% MULTIPLE == 0, all others through the padding path; %s" % detail)
    if padd:
        want = r"^call:index\(rep,agg:RangeTo::RangeTo\(call:next_multiple_of\(call:len\(" + LEAF + r"\),const:fuel_tx::contract::MULTIPLE\)\)\)$"
        rep.check(re.match(want, padd[0][1]) is not None, "TAB-code-root", "padded-leaf-length=next_multiple_of(len,8)", where, "padded push operand: %s" % padd[0][1])
    rp = [(rv[1], rv[2]) for i, j, p, rv, line in assignments(f) if rv[0] == "rep"]
    rep.check(len(rp) == 1 and describe(f, rp[0][0]) == "const:fuel_tx::contract::PADDING_BYTE", "TAB-code-root", "padding-is-PADDING_BYTE", where,
              "padded leaf must be initialised with PADDING_BYTE; repeat rvalues %s" % [(describe(f, a), b) for a, b in rp])
    cp = [(describe(f, args[0], depth=24), describe(f, args[1], depth=24)) for i, c, args, *_ in calls(f) if callee_matches(c, r"clone_from_slice$|copy_from_slice$")]
    rep.check(len(cp) == 1 and re.match(r"^call:index_mut\(rep,agg:(Range::Range\(const:0,|RangeTo::RangeTo\()call:len\(" + LEAF + r"\)\)\)$", cp[0][0]) is not None and
              re.match("^" + LEAF + "$", cp[0][1]) is not None,
              "TAB-code-root", "chunk-copied-to-[0..len]", where, "copy into padded leaf: %s" % cp)
    if padd and cp:
        cb = call_blocks(f, r"clone_from_slice$|copy_from_slice$")
        rep.check(cfg.dominates(cb[0], padd[0][0]), "TAB-code-root", "copy-before-push", where, "the chunk must be copied into the padded leaf before it is pushed")

    # ---------------- state root
    n, f = F.find(r"^" + re.escape(C) + "initial_state_root$", ["fuel_tx"], one=True)
    rep.saw(n)
    where = "%s:%s" % (f["file"], f["line"])
    rs = [(callee_name(c), describe(f, args[0], depth=20)) for i, c, args, dest, *_ in calls(f) if callee_matches(c, r"root_from_set$")]
    rets = [describe(f, args[0], depth=20) for i, c, args, dest, *_ in calls(f) if dest == [0]]
    rep.check(len(rs) == 1 and rs[0][0] == "fuel_merkle::sparse::in_memory::MerkleTree::root_from_set" and
              re.match(r"^call:map\(call:map\(arg:storage_slots,agg:\{closure#0\}\),agg:\{closure#1\}\)$", rs[0][1]) is not None and
              len(rets) == 1 and rets[0].startswith("call:root_from_set("), "FORM-state-root", "sparse-root-of-mapped-slots", where, "found %s returns %s" % (rs, rets))
    n0, f0 = F.find(r"^" + re.escape(C) + r"initial_state_root::\{closure#0\}$", ["fuel_tx"], one=True)
    n1, f1 = F.find(r"^" + re.escape(C) + r"initial_state_root::\{closure#1\}$", ["fuel_tx"], one=True)
    t0 = [[describe(f0, x, depth=12) for x in rv[3]] for i, j, p, rv, line in assignments(f0) if p == [0] and rv[0] == "agg"]
    rep.check(t0 == [["call:key(arg:slot)", "call:value(arg:slot)"]], "FORM-state-root", "pair=(slot.key,slot.value)", where, "closure#0 returns %s" % t0)
    t1 = [[describe(f1, x, depth=12) for x in rv[3]] for i, j, p, rv, line in assignments(f1) if p == [0] and rv[0] == "agg"]
    k1 = [callee_name(c) for i, c, *_ in calls(f1)]
    rep.check(k1 == ["fuel_merkle::sparse::merkle_tree::MerkleTreeKey::new"] and len(t1) == 1 and re.match(r"^call:new\(.*\.0\)$", t1[0][0]) is not None and t1[0][1].endswith(".1"),
              "FORM-state-root", "key=MerkleTreeKey::new(key)-hashing-ctor", where, "closure#1 calls %s returns %s" % (k1, t1))
    n, f = F.find(r"^fuel_merkle::sparse::merkle_tree::MerkleTreeKey::new$", ["fuel_merkle"], one=True)
    rep.saw(n)
    cs = [callee_name(c) + ("{%s}" % c.get("self", "")) for i, c, *_ in calls(f)]
    rep.check(any("Digest>::update" in x or "Update::update" in x for x in cs) and any("finalize" in x for x in cs) and any("Sha256" in x for x in cs + f["locals"]),
              "FORM-state-root", "MerkleTreeKey::new=sha256", "%s:%s" % (f["file"], f["line"]), "MerkleTreeKey::new must SHA-256 the storage key; calls %s" % cs)

    # ---------------- single source
    TABLE = {
        C + "root_from_code": {C + "root", "fuel_tx::transaction::types::create::CreateMetadata::compute", INP + "predicate_owner", "deploy_inner"},
        C + "initial_state_root": {C + "default_state_root", "fuel_tx::transaction::types::create::CreateMetadata::compute", "deploy_inner"},
        C + "id": {"fuel_tx::transaction::types::create::CreateMetadata::compute", "deploy_inner"},
        INP + "predicate_owner": {INP + "is_predicate_owner_valid"},
    }
    for target, allowed in TABLE.items():
        seen = set()
        for n, i, c, args, line in cg.callers_of(r"^" + re.escape(target) + "$"):
            fn = cg.fns[n]
            if "::tests::" in n or "::test::" in n or "test_helpers" in n or "::builder::" in n:
                continue
            key = "deploy_inner" if n.endswith("::deploy_inner") else n
            seen.add(key)
            rep.check(key in allowed, "WHO-single-source", "%s<-%s" % (target.rsplit("::", 1)[-1], short(key)), "%s:%s" % (fn["file"], line),
                      "UNREVIEWED caller of %s: %s" % (target, n))
        rep.floor("WHO-single-source", "callers of " + target.rsplit("::", 1)[-1], len(seen), 1)
    seed_users = set()
    for n, f in F.all_fns(None):
        if "::tests::" in n or f.get("exp"):
            continue
        for i, c, args, *_ in calls(f):
            for a in args:
                if a[0] == "k" and describe(f, a) == SEED:
                    seed_users.add(n)
    rep.check(seed_users == {C + "id", INP + "predicate_owner"}, "WHO-single-source", "ContractId::SEED-users", None,
              "ContractId::SEED must be hashed only by Contract::id and Input::predicate_owner; users %s" % sorted(seed_users))

    # ---------------- VM agreement
    n, f = F.find(r"^fuel_tx::transaction::types::create::CreateMetadata::compute$", ["fuel_tx"], one=True)
    rep.saw(n)
    where = "%s:%s" % (f["file"], f["line"])
    aggs = [dict(zip(rv[4], [describe(f, x, depth=24) for x in rv[3]])) for i, j, p, rv, line in assignments(f) if rv[0] == "agg" and rv[1].endswith("::CreateMetadata")]
    ROOT = r"call:root_from_code\(call:branch\(call:bytecode\(arg:tx\)\)\)"
    SROOT = r"call:initial_state_root\(call:iter\((?:call:deref\()?call:storage_slots\(arg:tx\)\)?\)\)"
    ok = len(aggs) == 1 and re.match("^" + ROOT + "$", aggs[0].get("contract_root", "")) is not None and re.match("^" + SROOT + "$", aggs[0].get("state_root", "")) is not None and \
        re.match(r"^call:id\(call:salt\(arg:tx\)," + ROOT + "," + SROOT + r"\)$", aggs[0].get("contract_id", "")) is not None
    rep.check(ok, "VM-agreement", "CreateMetadata::compute", where, "cached ids must be id(salt, root_from_code(bytecode), initial_state_root(slots)) of the same tx; found %s" % aggs)

    n, f = F.find(r"::deploy_inner$", ["fuel_vm"], one=True)
    rep.saw(n)
    where = "%s:%s" % (f["file"], f["line"])
    idc = [[describe(f, a, depth=24) for a in args] for i, c, args, *_ in calls(f) if callee_matches(c, r"^" + re.escape(C) + "id$")]
    rc = [[describe(f, a, depth=24) for a in args] for i, c, args, *_ in calls(f) if callee_matches(c, r"^" + re.escape(C) + "root_from_code$")]
    sc = [[describe(f, a, depth=24) for a in args] for i, c, args, *_ in calls(f) if callee_matches(c, r"^" + re.escape(C) + "initial_state_root$")]
    idn = [[describe_nf(F, f, a, depth=30) for a in args] for i, c, args, *_ in calls(f) if callee_matches(c, r"^" + re.escape(C) + "id$")]
    META = r"call:as_ref\(call:metadata\(arg:create\)\)@Some\.0\.body\."
    RFC = r"call:root_from_code\(call:branch\(call:bytecode\(arg:create\)\)\)"
    ISR = r"call:initial_state_root\(call:iter\(call:deref\(call:storage_slots\(arg:create\)\)\)\)"
    # either `let root = if let Some(m) = metadata { m.body.contract_root } else { root_from_code(..) }` or recomputed only
    # in the arm that has no metadata
    ROOT = r"(?:alt\(%scontract_root\|%s\)|%s)" % (META, RFC, RFC)
    STATE = r"(?:alt\(%sstate_root\|%s\)|%s)" % (META, ISR, ISR)
    # name-free: the 2nd / 3rd argument of Contract::id is a variable defined as {metadata.contract_root | root_from_code(bytecode)} /
    # {metadata.state_root | initial_state_root(storage_slots)} of the same `create`
    rep.check(rc == [["call:branch(call:bytecode(arg:create))"]] and sc == [["call:iter(call:deref(call:storage_slots(arg:create)))"]] and len(idn) == 1 and idn[0][0] == "call:salt(arg:create)" and
              re.match("^" + ROOT + "$", idn[0][1]) is not None and re.match("^" + STATE + "$", idn[0][2]) is not None, "VM-agreement", "deploy_inner:fallback-formulas", where,
              "fallback id must be Contract::id(create.salt(), root, storage_root) with root/storage_root from the same create (metadata field or recomputed); found id%s root%s state%s" % (idn, rc, sc))
    IDV = r"^alt\(%scontract_id\|call:id\(call:salt\(arg:create\),%s,%s\)\)$" % (META, ROOT, STATE)
    for cal in ("storage_contract_exists", "deploy_contract_with_id"):
        a = [[describe_nf(F, f, x, depth=34) for x in args] for i, c, args, *_ in calls(f) if callee_matches(c, r"InterpreterStorage::%s$" % cal)]
        rep.check(len(a) == 1 and re.match(IDV, a[0][-1]) is not None, "VM-agreement", "deploy_inner:%s(id)" % cal, where, "%s must receive the computed id {metadata.contract_id | Contract::id(salt, root, state_root)}; args %s" % (cal, a))
    a = [[describe(f, x, depth=8) for x in args] for i, c, args, *_ in calls(f) if callee_matches(c, r"InterpreterStorage::deploy_contract_with_id$")]
    rep.check(len(a) == 1 and a[0][1] == "call:deref(call:storage_slots(arg:create))" and a[0][2] == "call:branch(call:bytecode(arg:create))", "VM-agreement", "deploy_inner:deploys-same-code-and-slots", where,
              "deploy_contract_with_id must receive create.storage_slots() and create.bytecode(); args %s" % a)

    n, f = F.find(r"^fuel_vm::interpreter::blockchain::CodeRootCtx::<'_, S, V>::code_root$", ["fuel_vm"], one=True)
    rep.saw(n)
    where = "%s:%s" % (f["file"], f["line"])
    cfg = CFG(f)
    wr = [(i, [describe(f, x, depth=40) for x in args]) for i, c, args, *_ in calls(f) if callee_matches(c, r"MemoryInstance::write_bytes$")]
    ok = len(wr) == 1 and wr[0][1][2] == "arg:a" and re.search(r"call:root\(.*call:storage_contract\(arg:self\.storage,call:new\(call:.*read_bytes\(arg:self\.memory,arg:b\)", wr[0][1][3]) is not None
    rc = [callee_name(c) for i, c, *_ in calls(f) if callee_matches(c, r"::root$")]
    rep.check(ok and rc == [C + "root"], "VM-agreement", "CROO:writes-Contract::root(storage_contract(mem[b]))-at-a", where, "write_bytes args %s; root callee %s" % (wr, rc))
    n, f = F.find(r"^" + re.escape(C) + "root$", ["fuel_tx"], one=True)
    rr = [(callee_name(c), [describe(f, x) for x in args]) for i, c, args, dest, *_ in calls(f) if dest == [0]]
    rep.check(rr == [(C + "root_from_code", ["arg:self"])], "VM-agreement", "Contract::root=root_from_code(self)", "%s:%s" % (f["file"], f["line"]), "found %s" % rr)

    # predicate owner checks
    sites = []
    for n, i, c, args, line in cg.callers_of(r"^" + re.escape(INP) + "is_predicate_owner_valid$"):
        if "::tests::" in n or "test_helpers" in n:
            continue
        fn = cg.fns[n]
        sites.append((n, i, [describe(fn, a, depth=12) for a in args], line))
    rep.floor("VM-agreement", "is_predicate_owner_valid call sites", len(sites), 3)
    for n, i, ds, line in sites:
        fn = cg.fns[n]
        cfg = CFG(fn)
        sn = short(n).rsplit("::", 1)[-1]
        if "check_predicate_owners" in n:
            # fold closure: result && valid(owner, predicate) over every predicate input
            rep.check(ds[0].endswith(".0") and ds[1].endswith(".1)"), "VM-agreement", "owner-check@check_predicate_owners", "%s:%s" % (fn["file"], line), "args %s" % ds)
            continue
        dn_ = [describe_nf(F, fn, a_, depth=14) for a_ in fn["bbs"][i]["t"][2]]
        # name-free: first argument carries the owner / recipient (or recovered address) of the input, second its predicate bytes
        okargs = re.search(r"\.owner|\.recipient|address", dn_[0] + ds[0]) is not None and re.search(r"\.predicate\b", dn_[1]) is not None and ".predicate_data" not in dn_[1]
        err = False
        ERRS = ("InvalidOwner", "InputPredicateOwner")

        def has_err(blocks):
            return any(s[0] == "=" and s[2][0] == "agg" and s[2][2] in ERRS for b in blocks for s in fn["bbs"][b]["s"])
        for sb, t, fl in bool_consumers(fn, i):
            only_false = cfg.reachable_incl(fl) - cfg.reachable_incl(t)
            err = has_err(only_false) and not has_err(cfg.reachable_incl(t) - cfg.reachable_incl(fl))
        rep.check(okargs and err, "VM-agreement", "owner-check@%s" % sn, "%s:%s" % (fn["file"], line),
                  "is_predicate_owner_valid(owner, predicate) == false must lead to the owner error; args %s, error-on-false=%s" % (ds, err))
