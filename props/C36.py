"""C36 Storage reads honour the read contract for every offset and length — structural clauses.

  SIB-storage-read   the three StorageRead impls of MemoryStorage (contract code, contract state, blobs) have
                     identical normalised skeletons per method (same domain calls, same comparisons with the same
                     regions, same StorageReadError variants; slice / Option plumbing is not part of the skeleton):
                     a fix or defect in one is a disagreement.
  SHAPE-read         read_exact: missing key -> KeyNotFound; end = offset.saturating_add(buf.len());
                     end > len -> OutOfBounds (region {gt}); copies data[offset..end]; returns the total length.
                     read_zerofill: missing key -> KeyNotFound; the value cut at offset (split_at_checked(offset) or
                     get(offset..)) failing -> OutOfBounds; copies min(remaining, buf.len()) bytes and zero-fills
                     the rest on every Ok path.
  DOM-zero-fill      copy_from_storage_zero_fill: the destination comes from the ownership-checked write of
                     (dst_addr, dst_len); a read happens only when src_offset < src_len and its length is
                     min(src_len - offset, buffer); the tail fill(0) lies on every Ok path; KeyNotFound maps to
                     the caller's not_found_error, OutOfBounds to a full zero fill.
  TAB-gateway        LDC (contract, blob), CCP and BLDD load only through copy_from_storage_zero_fill, each
                     with its table, its id / offset / declared size, and — for LDC — the *padded* length as
                     destination length, so that the word padding is zero-filled.
Not decided: byte equality for every offset/length (an order-domain interpretation would be future work).
"""
import re

from fvlib.core import (CFG, CallGraph, agg_blocks, assignments, call_blocks, calls, callee_matches, callee_name,
                        describe, guards, guard_region, short, simplify_desc, CMP_REGION, FLIP)
from fvlib.summ import ok_sites

TABLES = {"ContractsRawCode": "contracts", "ContractsState": "contract_state", "BlobData": "blobs"}


def skeleton(f):
    """Normalised summary of a function body: calls, comparisons (with regions), constructed
    StorageReadError variants, constants 0 fills — with the map field name abstracted."""
    def norm(d):
        d = re.sub(r"arg:self\.memory\.\w+", "arg:self.memory.<MAP>", d)
        return d
    # plumbing (as_ref / deref / into / `?`) is not part of the skeleton; arguments are read through lets (depth) and compared as a set
    cs = sorted(set(callee_name(c).rsplit("::", 1)[-1] + "(" + ",".join(norm(simplify_desc(describe(f, a, depth=24))) for a in args) + ")" for i, c, args, *_ in calls(f)
                    if callee_name(c).rsplit("::", 1)[-1] not in ("as_ref", "deref", "into", "from", "branch", "from_residual", "borrow", "as_slice",
                                                                   "split_at_checked", "split_at_mut", "get", "index", "index_mut", "min", "len", "copy_from_slice", "fill")))
    gs = []
    for g in guards(f):
        a, b, op = norm(simplify_desc(describe(f, g["a"], depth=24))), norm(simplify_desc(describe(f, g["b"], depth=24))), g["op"]
        reg = sorted(CMP_REGION[op])
        if a > b:
            a, b = b, a
            reg = sorted(FLIP[x] for x in reg)
        gs.append("%s~%s:%s" % (a, b, "".join(reg)))
    errs = sorted(rv[2] for i, j, p, rv, line in assignments(f) if rv[0] == "agg" and rv[1].endswith("StorageReadError"))
    return {"calls": cs, "guards": sorted(gs), "errors": errs}


CFGS = ["A", "T"]   # T: fuel-vm with feature test-helpers (MemoryStorage lives behind it)


def run(F, rep, tier, allfacts):
    cg = CallGraph(F, ["fuel_vm", "fuel_storage"])
    FT = allfacts["T"]
    rep.rule("SIB-storage-read", "three MemoryStorage StorageRead impls: equal normalised skeleton per method")
    rep.rule("SHAPE-read", "read_exact / read_zerofill bounds regions, copy ranges, zero fill")
    rep.rule("DOM-zero-fill", "copy_from_storage_zero_fill: checked destination, guarded read, tail fill on every Ok path, error mapping")
    rep.rule("TAB-gateway", "LDC/CCP/BLDD use the gateway with the right table, id, offset, size and (LDC) padded length")

    impls = {}
    for imp in FT.impls("fuel_vm"):
        if imp["self"] == "fuel_vm::storage::memory::MemoryStorage" and (imp.get("trait") or "").endswith("fuel_storage::StorageRead"):
            m = re.search(r"StorageRead<.*?(\w+)>$", imp.get("traitref") or "")
            if m and m.group(1) in TABLES:
                impls[m.group(1)] = {name: dp for name, dp, kind in imp["items"] if kind.startswith("Fn")}
    rep.floor("SIB-storage-read", "StorageRead impls for MemoryStorage", len(impls), 3)
    for meth in ("read_exact", "read_zerofill", "read_alloc"):
        sk = {}
        for tab, items in impls.items():
            f = FT.fn(items.get(meth, ""))
            if f is None:
                rep.anchor_missing("StorageRead<%s>::%s" % (tab, meth))
                continue
            rep.saw(items[meth])
            sk[tab] = skeleton(f)
        ref_tab = sorted(sk)[0] if sk else None
        for tab in sorted(sk):
            if tab == ref_tab:
                continue
            diff = {k: (sk[ref_tab][k], sk[tab][k]) for k in sk[tab] if sk[tab][k] != sk[ref_tab][k]}
            rep.check(not diff, "SIB-storage-read", "%s:%s==%s" % (meth, ref_tab, tab), None,
                      "StorageRead<%s>::%s and StorageRead<%s>::%s disagree: %s" % (ref_tab, meth, tab, meth, {k: [x for x in set(v[0]) ^ set(v[1])][:4] for k, v in diff.items()}))
        if sk:
            rep.sample({"method": meth, "skeleton": sk[ref_tab]})
    # absolute shape on each impl
    for tab, items in sorted(impls.items()):
        f = FT.fn(items["read_exact"])
        cfg = CFG(f)
        where = "%s:%s" % (f["file"], f["line"])
        oob = agg_blocks(f, r"StorageReadError$", "OutOfBounds")
        knf = agg_blocks(f, r"StorageReadError$", "KeyNotFound")
        cps = [(i, [describe(f, a, depth=12) for a in args]) for i, c, args, *_ in calls(f) if callee_matches(c, r"copy_from_slice$")]
        okg = False
        for g in guards(f):
            reg = guard_region(g, r"saturating_add\(arg:offset,call:len\(arg:buf\)\)", r"^call:len\(")
            if reg is not None and oob and cps:
                side = g["t"] if reg == {"gt"} else (g["f"] if reg == {"lt", "eq"} else None)
                okg = side is not None and oob[0] in cfg.reachable_incl(side) and cps[0][0] not in cfg.reachable_incl(side) and cfg.dominates(g["bb"], cps[0][0])
        rep.check(okg and bool(knf), "SHAPE-read", "%s:read_exact:end>len->OutOfBounds" % tab, where,
                  "read_exact must fail with OutOfBounds exactly when offset + buf.len() > value length, before copying")
        rng = [[describe(f, o, depth=8) for o in rv[3]] for i, j, p, rv, line in assignments(f) if rv[0] == "agg" and rv[1].endswith("ops::range::Range")]
        rep.check(len(cps) == 1 and cps[0][1][0] == "arg:buf" and ["arg:offset", "call:saturating_add(arg:offset,call:len(arg:buf))"] in rng, "SHAPE-read",
                  "%s:read_exact:copies[offset..offset+len]" % tab, where, "read_exact must copy data[offset..offset+buf.len()] into buf; ranges %s" % rng)
        f = FT.fn(items["read_zerofill"])
        cfg = CFG(f)
        where = "%s:%s" % (f["file"], f["line"])
        oks = [b for b in ok_sites(f, cfg)]
        fills = [(i, [describe(f, a, depth=6) for a in args]) for i, c, args, *_ in calls(f) if callee_matches(c, r"slice::<impl \[T\]>::fill$")]
        # the value is cut at `offset` (split_at_checked(offset) or get(offset..), failing with OutOfBounds), min(remaining,
        # buf.len()) bytes are copied and the rest of buf is filled with 0 — whichever slice idiom spells it
        sac = [[describe(f, a, depth=12) for a in args] for i, c, args, *_ in calls(f) if callee_matches(c, r"split_at_checked$")]
        sac += [[describe(f, a, depth=12) for a in args] for i, c, args, *_ in calls(f) if callee_matches(c, r"slice::<impl \[T\]>::get$") and "RangeFrom" in describe(f, args[1], depth=12)]
        mins = [sorted(describe(f, a, depth=20) for a in args) for i, c, args, *_ in calls(f) if callee_matches(c, r"::min$")]
        cpy = [i for i, c, args, *_ in calls(f) if callee_matches(c, r"copy_from_slice$")]
        sam = mins
        okz = len(fills) == 1 and fills[0][1][1] == "const:0" and len(sac) == 1 and "arg:offset" in sac[0][1] and len(cpy) == 1 and len(mins) == 1 and \
            any(m == "call:len(arg:buf)" for m in mins[0]) and any(re.search(r"call:len\(.*(split_at_checked|call:get)\(", m) for m in mins[0]) and bool(agg_blocks(f, r"StorageReadError$", "OutOfBounds"))
        # every Ok(Ok(..)) exit passes the fill: exits constructing the inner Ok
        inner_ok = [i for i, j, p, rv, line in assignments(f) if rv[0] == "agg" and rv[1].endswith("result::Result") and rv[2] == "Ok" and rv[3] and
                    "total_len" in describe(f, rv[3][0], depth=4) + str([x for x in f.get("dbg", []) if x[0] == "total_len"])[:0] or
                    (rv[0] == "agg" and rv[1].endswith("result::Result") and rv[2] == "Ok" and rv[3] and describe(f, rv[3][0], depth=6).startswith("call:len("))]
        okz = okz and bool(inner_ok) and all(cfg.must_pass([fills[0][0]], 0, [b]) for b in inner_ok)
        rep.check(okz, "SHAPE-read", "%s:read_zerofill:copy-then-zero-rest" % tab, where,
                  "read_zerofill must split the value at offset (else OutOfBounds), copy min(remaining, buf.len()) bytes and zero the rest before returning Ok; fills=%s split=%s/%s" % (fills, sac, sam))

    # ---------------- gateway function
    n, f = F.find(r"^fuel_vm::interpreter::memory::copy_from_storage_zero_fill$", ["fuel_vm"], one=True)
    rep.saw(n)
    cfg = CFG(f)
    where = "%s:%s" % (f["file"], f["line"])
    oks = ok_sites(f, cfg)
    wr = [(i, [describe(f, a, depth=6) for a in args]) for i, c, args, *_ in calls(f) if callee_matches(c, r"MemoryInstance::write$")]
    rd = [(i, [describe(f, a, depth=16) for a in args]) for i, c, args, *_ in calls(f) if callee_matches(c, r"StorageRead.*::read_zerofill$")]
    fl = [(i, [describe(f, a, depth=10) for a in args]) for i, c, args, *_ in calls(f) if callee_matches(c, r"slice::<impl \[T\]>::fill$")]
    ok = len(wr) == 1 and wr[0][1] == ["arg:memory", "arg:owner", "arg:dst_addr", "arg:dst_len"] and len(rd) == 1 and len(fl) == 1
    rep.check(ok, "DOM-zero-fill", "shape(write,read_zerofill,fill)", where, "found write=%s reads=%d fills=%d" % (wr, len(rd), len(fl)))
    if ok:
        rep.check(cfg.dominates(wr[0][0], rd[0][0]) and cfg.must_pass([fl[0][0]], 0, oks) and fl[0][1][1] == "const:0" and "RangeFrom" in fl[0][1][0], "DOM-zero-fill",
                  "tail-fill-on-every-Ok-path", where, "the tail `write_buffer[empty_offset..].fill(0)` must lie on every Ok path")
        a = rd[0][1]
        rep.check(a[1] == "arg:src_id" and "try_from(arg:src_offset)" in a[2] and "min(call:saturating_sub(arg:src_len," in a[3], "DOM-zero-fill", "read(src_id, offset, min(src_len-offset, buffer))", where,
                  "the storage read must use the caller's id and offset and a buffer of min(src_len - offset, destination) bytes; found %s" % [x[:80] for x in a[1:]])
        okg = False
        for g in guards(f):
            reg = guard_region(g, r"^arg:src_offset$", r"arg:src_len")
            if reg is not None:
                side = g["t"] if reg == {"lt"} else (g["f"] if reg == {"eq", "gt"} else None)
                other = g["f"] if side == g["t"] else g["t"]
                okg = side is not None and rd[0][0] in cfg.reachable_incl(side) and rd[0][0] not in cfg.reachable_incl(other)
        rep.check(okg, "DOM-zero-fill", "read-only-if-offset<len", where, "storage must be read exactly when src_offset < src_len (otherwise the whole range is zero-filled)")
        nf = [i for i, c, args, *_ in calls(f) if callee_matches(c, r"convert::Into.*::into$") and describe(f, args[0], depth=4) == "arg:not_found_error"]
        rep.check(bool(nf) and not (set(nf) & cfg.reachable_from(fl[0][0])), "DOM-zero-fill", "KeyNotFound->not_found_error", where, "a missing key must surface as the caller's not_found_error")

    # ---------------- callers
    want = {
        "blob_load_data": ("BlobData", r"^arg:len$", "BlobNotFound", r"blob_size\("),
        "load_contract_code": ("ContractsRawCode", r"padded_len_word\(arg:length_unpadded\)", "ContractNotFound", r"contract_size\("),
        "load_blob_code": ("BlobData", r"padded_len_word\(arg:length_unpadded\)", "BlobNotFound", r"blob_size\("),
        "code_copy": ("ContractsRawCode", r"^arg:length$", "ContractNotFound", r"contract_size\("),
    }
    seen = set()
    for cn, i, c, args, line in cg.callers_of(r"^fuel_vm::interpreter::memory::copy_from_storage_zero_fill$"):
        f = cg.fns[cn]
        nm = cn.rsplit("::", 1)[-1]
        seen.add(nm)
        if nm not in want:
            rep.bad("TAB-gateway", "caller:" + short(cn), "%s:%s" % (f["file"], line), "UNREVIEWED user of copy_from_storage_zero_fill: " + cn)
            continue
        tab, len_rx, nf, size_rx = want[nm]
        a = [describe(f, x, depth=14) for x in args]
        ga = " ".join(c.get("ga", []))
        idp = re.findall(r"arg:(\w+_(?:ptr|addr))", a[5])
        ok = tab in ga and bool(re.search(len_rx, a[4])) and "read_bytes(" in a[5] and len(idp) == 1 and idp == re.findall(r"arg:(\w+_(?:ptr|addr))", a[7]) and bool(re.search(size_rx, a[7])) and nf in a[8] and re.search(r"offset$", a[6]) is not None
        rep.check(ok, "TAB-gateway", "caller:" + nm, "%s:%s" % (f["file"], line),
                  "%s must load from %s with dst_len ~ /%s/, the id read from memory, its declared size for the same id and %s; found table=%s len=%s id=%s offset=%s size=%s nf=%s"
                  % (nm, tab, len_rx, nf, ga[:60], a[4][:80], a[5][:50], a[6], a[7][:60], a[8]))
    rep.check(seen == set(want), "TAB-gateway", "callers-complete", None, "expected callers %s, found %s" % (sorted(want), sorted(seen)))
