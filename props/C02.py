"""C02 Decoding arbitrary bytes never panics and reaches a fixed point — closed may-panic list, bounded allocation,
strict validation, and reader/writer agreement.

  WHO-panic        over the call graph (class-hierarchy resolution of trait calls, workspace crates fuel-types /
                   fuel-asm / fuel-tx / fuel-crypto) rooted at every Deserialize::{decode, decode_static,
                   decode_dynamic, from_bytes} body and the `Input for &[u8]` reader, every panic-capable MIR
                   operation — Assert terminators, unwrap/expect/panic!/unreachable!, slice/array indexing and the
                   length-checked slice copies — is enumerated. Asserts whose condition folds to a constant are
                   discharged automatically; the rest must equal the reviewed table tables/C02_panic_sites.json
                   (site, operation, canonical controlling condition — fvlib.core.site_guard / guards_match as in
                   C19 TAB-rule-guards —, reason it cannot fire). A decoder acquiring a new
                   unwrap/index is itself the defect class, so an unlisted site is reported (fail closed).
  DOM-reader       `Input for &[u8]`: peek/read/skip return BufferIsTooShort exactly when the request is larger
                   than what remains (error region {gt}), and that test dominates every slice index.
  DOM-alloc        the only input-sized allocations reachable from decoding are in Vec<T>::decode_static and are
                   dominated by `cap > VEC_DECODE_LIMIT -> Err(AllocationLimit)` (limit = 100 MiB), after a
                   checked u64 -> usize conversion.
  TAB-strict       Policies::decode_static builds its bit set with the rejecting PoliciesBits::from_bits (None ->
                   error), never from_bits_truncate / from_bits_retain; Policies::decode_dynamic rejects maturity
                   and expiration above u32::MAX; Input::decode_static maps a bad repr to UnknownDiscriminant.
  (C01) SEQ-fields / DISC-enum / BASE-align   the decoder consumes exactly the bytes the encoder of the decoded value
                   produces (same field order and codecs, same padding rule), which is the "consumed length =
                   encoded length" and "decode(encode(v)) is a fixed point" clause in structural form — re-run
                   here from props/C01.py and reported under their C01 rule names.
Not decided: value equality at the fixed point; memory exhaustion by large-but-legal lengths (<= 100 MiB).
"""
import json
import os
import re

from fvlib.core import (CFG, CallGraph, agg_blocks, assignments, calls, callee_matches, callee_name, canon_mode, leaves, parent_fn, site_guard, PLUMBING_TOKENS,
                        describe, describe_place, guards, guard_region, short, CMP_REGION, FLIP)
from fvlib import codec, tables

TABLE = os.path.join(os.path.dirname(os.path.dirname(os.path.abspath(__file__))), "tables", "C02_panic_sites.json")
PAN = (r"(::unwrap$|::expect$|panicking::|::unwrap_err$|::expect_err$|ops::index::Index(Mut)?(<.*>)?>?::index(_mut)?$|"
       r"slice::<impl \[T\]>::(copy_from_slice|clone_from_slice|split_at|split_at_mut|swap|copy_within)$)")
ALLOC = r"(Vec::<T>::with_capacity$|vec::from_elem$|Vec::<T, A>::(reserve|reserve_exact|resize|with_capacity_in)$|RawVec|alloc::alloc)"


def const_true_assert(f, t):
    """assert(cond == expected) whose cond folds to the expected constant"""
    v = codec.fold(f, t[2])
    if isinstance(v, int):
        return bool(v) == bool(t[3])
    # Lt(const, const) / Eq(const, 0) computed in the same block
    if t[2][0] != "k":
        from fvlib.core import defs_of_local
        ds = [d for d in defs_of_local(f).get(t[2][1][0], []) if d[0] == "assign"]
        if len(ds) == 1 and ds[0][3][0] == "bin":
            rv = ds[0][3]
            a, b = codec.fold(f, rv[2]), codec.fold(f, rv[3])
            if isinstance(a, int) and isinstance(b, int):
                r = {"Lt": a < b, "Le": a <= b, "Gt": a > b, "Ge": a >= b, "Eq": a == b, "Ne": a != b}.get(rv[1])
                if r is not None:
                    return r == bool(t[3])
    return False


class Forward:
    def __init__(self, rep, keep):
        self.rep, self.keep = rep, keep

    def rule(self, name, desc):
        if name in self.keep:
            self.rep.rule(name, "(C01) " + desc)

    def ok(self, rule, key, detail=None):
        if rule in self.keep:
            self.rep.ok(rule, key, detail)

    def bad(self, rule, key, where=None, detail=None):
        if rule in self.keep:
            self.rep.bad(rule, key, where, detail)

    def check(self, cond, rule, key, where=None, detail=None):
        if rule in self.keep:
            self.rep.check(cond, rule, key, where, detail)
        return cond

    def floor(self, rule, what, count, minimum):
        if rule in self.keep:
            self.rep.floor(rule, what, count, minimum)

    def note(self, text):
        pass

    def sample(self, s):
        pass

    def saw(self, n):
        self.rep.saw(n)

    def anchor_missing(self, text):
        self.rep.anchor_missing(text)


def run(F, rep, tier, allfacts):
    rep.rule("WHO-panic", "panic-capable operations reachable from decoding = reviewed table (constant asserts auto-discharged)")
    rep.rule("DOM-reader", "&[u8] reader: BufferIsTooShort exactly when request > remaining; the test dominates every slice index")
    rep.rule("DOM-alloc", "input-sized allocations only in Vec::decode_static, after the VEC_DECODE_LIMIT test")
    rep.rule("TAB-strict", "rejecting constructors / range checks on decode")

    cg = CallGraph(F, ["fuel_types", "fuel_tx", "fuel_asm", "fuel_crypto"])
    I = codec.impls(F)
    roots = []
    for t, d in I.items():
        for m, (n, f) in d.get("Deserialize", {}).items():
            roots.append(n)
    roots += [n for n in cg.fns if re.search(r"^<&\[u8\] as fuel_types::canonical::Input>::|^<&'_ \[u8\] as fuel_types::canonical::Input>::", n)]
    roots += [n for n in cg.fns if n.startswith("fuel_types::canonical::Deserialize::")]
    rep.floor("WHO-panic", "decode roots", len(roots), 100)
    reach = sorted(n for n in cg.reachable(roots) if n in cg.fns)
    rep.floor("WHO-panic", "functions reachable from decoding", len(reach), 200)
    sites = {}
    nconst = 0
    allocs = []
    for n in reach:
        f = cg.fns[n]
        cfg = None
        for i, bb in enumerate(f["bbs"]):
            if bb.get("cu"):
                continue
            t = bb["t"]
            op = None
            if t[0] == "assert":
                if const_true_assert(f, t):
                    nconst += 1
                    continue
                op = "assert:" + re.sub(r"\{.*", "", str(t[1])).strip()
            elif t[0] == "call" and "def" in t[1]:
                if re.search(PAN, t[1]["def"]):
                    op = "call:" + re.sub(r"^std::", "", t[1]["def"]).rsplit("::", 2)[-2] + "::" + t[1]["def"].rsplit("::", 1)[-1]
                    if re.search(r"::(unwrap|expect|unwrap_err|expect_err)$|panicking::", t[1]["def"]):
                        op = "call:panic"      # x.expect(..), x.unwrap() and `match x { None => panic!(..) }` are one kind of site
                if re.search(ALLOC, t[1]["def"]):
                    allocs.append((n, i, t[1]["def"], t[5]))
            if op is None:
                continue
            cfg = cfg or CFG(f)
            key = "%s @ %s" % (op, short(parent_fn(n)))
            gl = site_guard(F, n, f, cfg, i)
            if op == "call:panic" and re.search(r"::(unwrap|expect)$", t[1]["def"]) and t[2]:
                # the panic condition of unwrap/expect is the receiver being None / Err, whatever guards the call itself
                with canon_mode(F):
                    toks = [x for x in leaves(describe(f, t[2][0], depth=30)) if x not in PLUMBING_TOKENS]
                gl = [{"kind": "err-of" if "result::Result" in t[1]["def"] else "none-of", "tokens": sorted(set(toks))}]
            for g in gl:
                sites.setdefault(key, []).append((g, "%s:%s" % (f["file"], t[5] if t[0] == "call" else f["line"])))
    rep.note("WHO-panic: %d constant-condition asserts discharged automatically" % nconst)
    if os.environ.get("FV_WRITE_TABLES") == "1":
        json.dump({k: {"guards": [g for g, _ in v], "why_cannot_fire": ""} for k, v in sorted(sites.items())}, open(TABLE + ".new", "w"), indent=1, sort_keys=True)
    table = json.load(open(TABLE))
    rep.floor("WHO-panic", "non-constant panic-capable sites", len(sites), 8)
    tables.compare(rep, "WHO-panic", table, sites, missing_is_violation=False, new_is_violation=True, what="panic-capable operation reachable from decoding", reason_key="why_cannot_fire")

    # ---------------- reader
    for m, rx in (("peek", r"call:len\(arg:into\)"), ("read", r"call:len\(arg:into\)"), ("skip", r"arg:n")):
        n, f = F.find(r"^<&(?:'_ )?\[u8\] as fuel_types::canonical::Input>::%s$" % m, ["fuel_types"], one=True)
        rep.saw(n)
        cfg = CFG(f)
        where = "%s:%s" % (f["file"], f["line"])
        errb = agg_blocks(f, r"canonical::Error$", "BufferIsTooShort")
        gl = [(g, guard_region(g, rx, r"call:len\(arg:self\)")) for g in guards(f)]
        gl = [(g, r) for g, r in gl if r is not None]
        ok = len(gl) == 1 and bool(errb)
        if ok:
            g, reg = gl[0]
            err_on_t = all(b in cfg.reachable_incl(g["t"]) for b in errb) and not any(b in cfg.reachable_incl(g["f"]) for b in errb)
            err_on_f = all(b in cfg.reachable_incl(g["f"]) for b in errb) and not any(b in cfg.reachable_incl(g["t"]) for b in errb)
            region = reg if err_on_t else ({"lt", "eq", "gt"} - reg if err_on_f else None)
            okside = g["f"] if err_on_t else g["t"]
            idx = [i for i, c, *_ in calls(f) if callee_matches(c, r"ops::index::Index(Mut)?(<.*>)?>?::index(_mut)?$|copy_from_slice$")]
            ok = region == {"gt"} and bool(idx) and all(cfg.dominates(okside, b) for b in idx)
        rep.check(ok, "DOM-reader", "&[u8]::%s:too-short<=>request>remaining" % m, where, "guards %s" % [(g["op"], g["a_desc"], g["b_desc"]) for g, r in gl])

    # ---------------- allocation
    lim = F.const("fuel_types::canonical::VEC_DECODE_LIMIT")
    rep.check(lim == 100 * (1 << 20), "DOM-alloc", "VEC_DECODE_LIMIT=100MiB", None, "limit is %s" % lim)
    VD = "<std::vec::Vec<T> as fuel_types::canonical::Deserialize>::decode_static"
    other = [(n, d) for n, i, d, line in allocs if n != VD]
    rep.check(not other, "DOM-alloc", "allocations-only-in-Vec::decode_static", None, "other allocation sites reachable from decoding: %s" % other[:5])
    f = cg.fns[VD]
    cfg = CFG(f)
    where = "%s:%s" % (f["file"], f["line"])
    al = [i for n, i, d, line in allocs if n == VD]
    errb = agg_blocks(f, r"canonical::Error$", "AllocationLimit")
    gl = [(g, guard_region(g, r"try_into\(|try_from\(", r"VEC_DECODE_LIMIT")) for g in guards(f)]
    gl = [(g, r) for g, r in gl if r is not None]
    ok = len(al) >= 2 and len(gl) == 1 and bool(errb)
    if ok:
        g, reg = gl[0]
        err_on_t = any(b in cfg.reachable_incl(g["t"]) and b not in cfg.reachable_incl(g["f"]) for b in errb)
        region = reg if err_on_t else {"lt", "eq", "gt"} - reg
        okside = g["f"] if err_on_t else g["t"]
        ok = region == {"gt"} and all(cfg.dominates(okside, b) for b in al)
        caps = [describe(f, f["bbs"][b]["t"][2][-1], depth=12) for b in al]
        ok = ok and all(c == g["a_desc"] or c == describe(f, g["a"], depth=12) for c in caps)
    tc = [callee_name(c) for i, c, *_ in calls(f) if callee_matches(c, r"TryInto<.*>>?::try_into$|TryFrom<.*>>?::try_from$")]
    rep.check(ok and bool(tc), "DOM-alloc", "Vec::decode_static:cap<=limit-before-allocating", where, "allocations %s guards %s conversions %s" % (al, [(g["op"], g["a_desc"], g["b_desc"]) for g, r in gl], tc))

    # ---------------- strict validation
    P = "<fuel_tx::transaction::policies::Policies as fuel_types::canonical::Deserialize>::"
    f = cg.fns[P + "decode_static"]
    where = "%s:%s" % (f["file"], f["line"])
    fb = [callee_name(c).rsplit("::", 1)[-1] for i, c, *_ in calls(f) if callee_matches(c, r"PoliciesBits>::from_bits\w*$")]
    ok = fb == ["from_bits"] and any(callee_matches(c, r"Option::<T>::ok_or(_else)?$") for i, c, *_ in calls(f))
    rep.check(ok, "TAB-strict", "Policies::decode_static:from_bits(rejecting)", where, "bit constructors used: %s" % fb)
    f = cg.fns[P + "decode_dynamic"]
    cfg = CFG(f)
    def u32_range_checks(g_):
        """descriptions of values that function g_ rejects when they exceed u32::MAX: `v > u32::MAX => Err`, or
        `u32::try_from(v)` failing into an Err (necessary: the conversion and an Error construction exist)."""
        out = []
        cfg_ = CFG(g_)
        errs_ = [i for i, j, p, rv, line in assignments(g_) if rv[0] == "agg" and rv[1].endswith("canonical::Error")]
        for gd in guards(g_):
            for val, lim, flip in ((gd["a"], gd["b_desc"], False), (gd["b"], gd["a_desc"], True)):
                if re.search(r"const:4294967295|u32>::MAX|u32::MAX", lim):
                    reg = set(CMP_REGION[gd["op"]])
                    if flip:
                        reg = {FLIP[x] for x in reg}
                    side = gd["t"] if reg == {"gt"} else (gd["f"] if reg == {"lt", "eq"} else None)
                    if side is not None and any(b_ in cfg_.reachable_incl(side) for b_ in errs_):
                        out.append(describe(g_, val, depth=16))
        for i, c, args, *_ in calls(g_):
            if callee_matches(c, r"TryFrom<u64> for u32>::try_from$|TryInto<u32>>?::try_into$|TryInto::try_into$") and errs_ and \
                    ("u32" in str(c.get("ga") or "") or "for u32" in callee_name(c)):
                out.append(describe(g_, args[0], depth=16))
        return out
    checked = set()
    here = u32_range_checks(f)
    for pol in ("Maturity", "Expiration"):
        if any("PolicyType::" + pol in d for d in here):
            checked.add(pol)
    for i, c, args, *_ in calls(f):
        h = callee_name(c)
        if h.startswith("fuel_tx::transaction::policies::") and h in cg.fns:
            hs = u32_range_checks(cg.fns[h])
            for k, a in enumerate(args):
                d = describe(f, a, depth=10)
                pname = describe_place(cg.fns[h], [k + 1])
                for pol in ("Maturity", "Expiration"):
                    if "PolicyType::" + pol in d and any(x == pname or x.startswith(pname + "@") or x.startswith(pname + ".") for x in hs):
                        checked.add(pol)
    errs = [1] * 2
    okp = checked == {"Maturity", "Expiration"}
    gs = sorted(checked)
    which = sorted(set(re.findall(r"PolicyType::(\w+)", " ".join(describe(f, args[1], depth=6) for i, c, args, *_ in calls(f) if callee_matches(c, r"Policies::get$")))))
    rep.check(okp and which == ["Expiration", "Maturity"], "TAB-strict", "Policies::decode_dynamic:maturity,expiration<=u32::MAX", "%s:%s" % (f["file"], f["line"]),
              "policies whose value is range-checked against u32::MAX (here or in a private helper they are passed to): %s; policies read: %s" % (gs, which))

    # ---------------- C01 rules
    from props import C01
    C01.run(F, Forward(rep, {"SEQ-fields", "DISC-enum", "BASE-align", "PREFIX-struct", "DELEG-wrappers"}), tier, allfacts)
