"""C01 Canonical encoding round-trips and reports its own size — codec agreement clauses, for every canonical type at once.

For each type with `impl Serialize` + `impl Deserialize` in fuel-types / fuel-asm / fuel-tx / fuel-vm (derived or
hand-written, 40+ today) the ordered field sequences of size_static, size_dynamic, encode_static, encode_dynamic,
decode_static and decode_dynamic are extracted from MIR (callee `Self` type + the field of `self` each call is
applied to; for decode_static the field of the constructed aggregate each decoded value lands in):

  SEQ-fields       per type and per enum variant the six sequences name the same fields in the same order with the
                   same field codecs; a field absent from one is absent from all and is then produced by
                   Default::default() on decode (`#[canonical(skip)]`); every declared field is either encoded or
                   skipped. (A field added to one side of a derive, a reordered hand-written impl, or a size that
                   forgets a field all break this.)
  DISC-enum        derived enums: the u64 written by encode_static in variant V's arm is the constant the decoder's
                   switch maps to V; the decoder's otherwise arm is Error::UnknownDiscriminant; size_static starts
                   from 8 for enums and prefixed structs and from 0 otherwise; size_dynamic starts from 0.
  PREFIX-struct    `#[canonical(prefix = X)]` structs encode X first and the decoder rejects anything but Ok(X)
                   with InvalidPrefix.
  DELEG-wrappers   Transaction: every method delegates variant V to V's payload; decode_static peeks a
                   TransactionRepr and arm R decodes the transaction type whose body prefix is R and wraps it in the
                   same-named variant. Input: encode writes InputRepr::from(self) then the payload; decode arm R builds
                   exactly the variants that InputRepr::from maps to R, from the same generic Coin/Message codec.
  BASE-align       ALIGN = 8; alignment_bytes / aligned_size have the padding formula; primitives encode
                   alignment_bytes(size_of) zero bytes then to_be_bytes and decode skip(alignment_bytes) + read +
                   from_be_bytes; Vec<T>/[T;N] byte paths pad on encode with alignment_bytes(len) and skip
                   alignment_bytes(capacity|N) on decode; element paths iterate encode/decode over all elements;
                   Serialize::size = size_static + size_dynamic; encode = static then dynamic; decode likewise;
                   Vec's element count travels from decode_static to decode_dynamic as the capacity: both
                   allocations use exactly the decoded length and decode_dynamic decodes capacity() elements.
  POLICIES         the hand-written Policies codec iterates PoliciesBits::all() in both directions, guarded by
                   bits.contains(bit), and size_dynamic = count_ones * Word size.
Not decided: equality of values after a round trip (needs execution), e.g. whether a *predicate* input with an empty
predicate decodes as a signed one (it does: the variant is recovered from `predicate.capacity() == 0`).
"""
import re

from fvlib.core import (CFG, assignments, calls, callee_matches, callee_name, describe, guards, short, switch_arms, root_of)
from fvlib import codec

TECHNIQUE = "static analysis over rustc MIR: per-type extraction and comparison of the six codec field sequences, discriminant/prefix constant folding, sibling skeletons of the base impls"
PRIMS = {"u8", "u16", "u32", "u64", "u128", "usize", "()"}
CUSTOM = {"fuel_tx::transaction::policies::Policies", "fuel_tx::transaction::types::input::Empty<Type>",
          "fuel_tx::transaction::types::input::Input", "fuel_tx::transaction::Transaction"}


EXEMPT = {"Receipt::ReturnData.data", "Receipt::LogData.data", "Receipt::MessageOut.data", "Receipt::Panic.contract_id", "PanicInstruction.reason",
          "ChargeableTransaction.metadata", "Mint.metadata"}


def adt_of(F, t):
    base = re.sub(r"<.*>$", "", t)
    try:
        return base, F.adt(base)
    except Exception:
        return base, None


def by_variant(seq):
    out = {}
    for v, fld, ty, bb, line in seq:
        out.setdefault(v, []).append((fld, norm_ty(ty)))
    return out


def norm_ty(t):
    t = t or ""
    t = re.sub(r"^&(mut )?", "", t)
    return t


def initial_size(f):
    """constant first assigned to the `size` accumulator"""
    for i, j, p, rv, line in assignments(f):
        if len(p) == 1 and rv[0] == "use" and rv[1][0] == "k" and isinstance(rv[1][1].get("v"), int) and rv[1][1].get("t") == "usize":
            return rv[1][1]["v"]
    return None


def run(F, rep, tier, allfacts):
    rep.rule("SEQ-fields", "six codec field sequences agree per type/variant; skipped <=> Default on decode; all declared fields covered")
    rep.rule("DISC-enum", "encoder discriminant constant of V = decoder switch value of V; otherwise -> UnknownDiscriminant; size_static base 8/0")
    rep.rule("PREFIX-struct", "prefix constant written = prefix constant required; mismatch -> InvalidPrefix")
    rep.rule("DELEG-wrappers", "Transaction / Input delegate per variant; repr <-> variant tables agree between encoder and decoder")
    rep.rule("BASE-align", "8-byte alignment formula; primitive / Vec / array byte paths pad and skip symmetrically")
    rep.rule("POLICIES", "Policies codec iterates all() guarded by contains(bit) in both directions; size = count_ones * 8")

    I = codec.impls(F)
    ntypes = 0
    all_skipped = set()
    for t in sorted(I):
        d = I[t]
        ser, de = d.get("Serialize", {}), d.get("Deserialize", {})
        if t in PRIMS or t.startswith("std::vec::Vec<") or t.startswith("[T; N]") or t in CUSTOM:
            continue
        if not ser or not de:
            rep.check(bool(ser) == bool(de) or t.startswith("fuel_tx::transaction::types::input::Empty"), "SEQ-fields", "%s:both-directions" % short(t), None,
                      "type %s implements only one of Serialize/Deserialize" % t)
            continue
        base, adt = adt_of(F, t)
        if adt is None:
            rep.bad("SEQ-fields", "%s:adt-known" % short(t), None, "no ADT facts for %s" % t)
            continue
        ntypes += 1
        where = "%s:%s" % (adt["file"], adt["line"])
        is_enum = adt["kind"] == "Enum"
        seqs = {}
        for m in codec.SER_M:
            if m in ser:
                seqs[m] = by_variant(codec.self_field_calls(ser[m][1], m))
                rep.saw(ser[m][0])
        if "decode_dynamic" in de:
            seqs["decode_dynamic"] = by_variant(codec.self_field_calls(de["decode_dynamic"][1], "decode_dynamic"))
            rep.saw(de["decode_dynamic"][0])
        lay = codec.decode_static_layout(de["decode_static"][1], re.escape(base) + "$") if "decode_static" in de else []
        if "decode_static" in de:
            rep.saw(de["decode_static"][0])
        dsl = {}
        skipped = {}
        for a in lay:
            v = a["variant"] if is_enum else None
            dsl[v] = [(nm, norm_ty(codec.callee_self(pr[2]))) for nm, pr in a["decoded"]]
            skipped[v] = [(nm, pr) for nm, pr in a["fields"] if not (pr and pr[0] == "call" and callee_matches(pr[2], r"::decode_static$"))]
        for vinfo in adt["variants"]:
            v = vinfo["name"] if is_enum else None
            vk = "%s%s" % (short(t).replace("fuel_tx::transaction::types::", "").replace("fuel_tx::", ""), ("::" + v) if v else "")
            ref = seqs.get("encode_static", {}).get(v, [])
            names = {}
            for m, sq in seqs.items():
                names[m] = sq.get(v, [])
            names["decode_static"] = dsl.get(v, [])
            fields_only = {m: [x[0] for x in s_] for m, s_ in names.items()}
            same = all(s_ == fields_only["encode_static"] for s_ in fields_only.values())
            rep.check(same, "SEQ-fields", "%s:same-field-order" % vk, where,
                      "codec methods of %s disagree on the encoded fields/order: %s" % (vk, {m: s_ for m, s_ in fields_only.items() if s_ != fields_only["encode_static"]} or fields_only))
            # field codec types: encode_static vs decode_static
            tymis = [(a, b) for a, b in zip(names.get("encode_static", []), names["decode_static"]) if a[0] == b[0] and strip_gen(a[1]) != strip_gen(b[1])]
            rep.check(not tymis, "SEQ-fields", "%s:same-field-codecs" % vk, where, "fields encoded and decoded with different codecs: %s" % tymis[:3])
            declared = [x[0] for x in vinfo["fields"]]
            enc = set(fields_only["encode_static"])
            sk = {nm for nm, pr in skipped.get(v, [])}
            bad_skip = [(nm, pr) for nm, pr in skipped.get(v, []) if not (pr and (pr[0] == "default" or pr[0] == "const"))]
            for nm in sk:
                all_skipped.add("%s%s.%s" % (base.rsplit("::", 1)[-1], ("::" + v) if v else "", nm))
            if v in dsl or not is_enum or declared:
                rep.check(set(declared) == enc | sk and not (enc & sk) and not bad_skip, "SEQ-fields", "%s:all-fields-encoded-or-defaulted" % vk, where,
                          "declared fields %s; encoded %s; produced without decoding %s (non-Default: %s)" % (declared, sorted(enc), sorted(sk), bad_skip[:3]))
        # size bases
        if "size_static" in ser:
            b0 = initial_size(ser["size_static"][1])
            has_prefix = prefix_of(ser.get("encode_static", (None, None))[1]) is not None if "encode_static" in ser else False
            want = 8 if (is_enum or has_prefix) else 0
            rep.check(b0 == want, "DISC-enum", "%s:size_static-base=%d" % (short(t), want), where, "size_static starts from %s, expected %d (8 bytes for a discriminant/prefix word)" % (b0, want))
        if "size_dynamic" in ser:
            b0 = initial_size(ser["size_dynamic"][1])
            rep.check(b0 == 0, "DISC-enum", "%s:size_dynamic-base=0" % short(t), where, "size_dynamic starts from %s" % b0)
        # discriminants
        if is_enum and "encode_static" in ser and "decode_static" in de:
            names_ = {k: vv["name"] for k, vv in enumerate(adt["variants"])}
            encd = enum_encode_table(ser["encode_static"][1], names_)
            decd, other_ok = enum_decode_table(de["decode_static"][1], base)
            rep.check(encd is not None and decd is not None and encd == decd and set(encd) == set(names_.values()) and other_ok, "DISC-enum", "%s:discriminants" % short(t), where,
                      "encoder writes %s, decoder maps %s (unknown value -> UnknownDiscriminant: %s)" % (encd, decd, other_ok))
        # prefix
        if not is_enum and "encode_static" in ser and "decode_static" in de:
            pe = prefix_of(ser["encode_static"][1])
            pd = prefix_required(de["decode_static"][1])
            if pe is not None or pd is not None:
                rep.check(pe is not None and pe == pd, "PREFIX-struct", "%s:prefix" % short(t), where, "encoder writes prefix %s, decoder requires %s" % (pe, pd))
    rep.floor("SEQ-fields", "codec types compared", ntypes, 38)
    rep.rule("SKIP-exempt", "fields left out of the wire format = the exemptions the property names (payload bytes, panic reason, panic contract id, cached metadata)")
    rep.check(all_skipped == EXEMPT, "SKIP-exempt", "skipped-fields=exempt-table", None,
              "fields not encoded (come back as Default after a round trip): unexpected %s, no longer skipped %s" % (sorted(all_skipped - EXEMPT), sorted(EXEMPT - all_skipped)))

    deleg(F, rep, I)
    base_rules(F, rep, I)
    policies(F, rep, I)


def strip_gen(t):
    return re.sub(r"<.*>", "", t or "")


def prefix_of(f):
    """('Repr', 'Variant') written first by encode_static through `<_ as Serialize>::encode(&CONST)`"""
    if f is None:
        return None
    for i, c, args, dest, tgt, line in calls(f):
        if callee_matches(c, r"canonical::Serialize::encode$") and (c.get("self") or "").endswith("Repr"):
            v = codec.fold(f, args[0])
            if isinstance(v, tuple) and v[0] == "variant":
                return (v[1].rsplit("::", 1)[-1], v[2])
            return ("?", None)
    return None


def prefix_required(f):
    for i, c, args, dest, tgt, line in calls(f):
        if callee_matches(c, r"cmp::PartialEq(<.*>)?>?::ne$|cmp::PartialEq::ne$"):
            for a in args:
                v = codec.fold(f, a)
                if isinstance(v, tuple) and v[0] == "variant" and v[2] == "Ok" and v[3] and isinstance(v[3][0], tuple):
                    inv = [rv[2] for i2, j, p, rv, l in assignments(f) if rv[0] == "agg" and rv[1].endswith("canonical::Error")]
                    if "InvalidPrefix" in inv:
                        return (v[3][0][1].rsplit("::", 1)[-1], v[3][0][2])
                    return ("?", "no InvalidPrefix")
    return None


def enum_encode_table(f, names):
    cfg = CFG(f)
    t0 = None
    for b in sorted(cfg.reach):
        t = f["bbs"][b]["t"]
        if t[0] == "switch" and describe(f, t[1], depth=6) == "disc(arg:self)":
            t0 = t
            break
    if t0 is None:
        return None
    arms = switch_arms(f, cfg, t0, names)
    out = {}
    for v, blocks in arms.items():
        vals = []
        for b in sorted(blocks):
            tb = f["bbs"][b]["t"]
            if tb[0] == "call" and callee_matches(tb[1], r"canonical::Serialize::encode$") and tb[1].get("self") == "u64":
                vals.append(codec.fold(f, tb[2][0]))
        if v == "_":
            continue
        out[v] = vals[0] if len(vals) == 1 else ("?", vals)
    return out


def enum_decode_table(f, base):
    cfg = CFG(f)
    for b in sorted(cfg.reach):
        t = f["bbs"][b]["t"]
        if t[0] == "switch" and len(t[2]) >= 1 and re.search(r"call:decode\(arg:buffer\)", describe(f, t[1], depth=10)) and "disc(" not in describe(f, t[1], depth=10):
            out = {}
            arms = {str(v): tg for v, tg in t[2]}
            regions = switch_arms(f, cfg, t, None)
            for val, blocks in regions.items():
                mk = {s[2][2] for bb in blocks for s in f["bbs"][bb]["s"] if s[0] == "=" and s[2][0] == "agg" and s[2][1] == base}
                if val == "_":
                    continue
                for nm in mk:
                    out[nm] = int(val)
                if len(mk) != 1:
                    out["?%s" % val] = sorted(mk)
            oth = {s[2][2] for bb in regions.get("_", set()) for s in f["bbs"][bb]["s"] if s[0] == "=" and s[2][0] == "agg" and s[2][1].endswith("canonical::Error")}
            mk_oth = {s[2][2] for bb in regions.get("_", set()) for s in f["bbs"][bb]["s"] if s[0] == "=" and s[2][0] == "agg" and s[2][1] == base}
            return out, oth == {"UnknownDiscriminant"} and not mk_oth
    return None, False


# ------------------------------------------------------------------ delegating wrappers
def deleg(F, rep, I):
    TX = "fuel_tx::transaction::Transaction"
    d = I.get(TX, {})
    ser, de = d.get("Serialize", {}), d.get("Deserialize", {})
    adt = F.adt(TX)
    vs = [v["name"] for v in adt["variants"]]
    where = "fuel-tx/src/transaction.rs"
    for m in list(codec.SER_M) + ["decode_dynamic"]:
        fn = (ser if m in codec.SER_M else de).get(m)
        if fn is None:
            rep.bad("DELEG-wrappers", "Transaction::%s-present" % m, where, "missing method")
            continue
        sq = by_variant(codec.self_field_calls(fn[1], m))
        ok = set(sq) == set(vs) and all(x == [("0", sq[v][0][1])] for v, x in sq.items())
        rep.check(ok, "DELEG-wrappers", "Transaction::%s:arm-V->V.0.%s" % (m, m), where, "per-variant delegation: %s" % {v: [y[0] for y in x] for v, x in sq.items()})
    # decode_static: repr arm R -> decode_static of the type whose body prefix is R -> Transaction::R
    f = de["decode_static"][1]
    rep.saw(de["decode_static"][0])
    cfg = CFG(f)
    repr_adt = F.adt("fuel_tx::transaction::repr::TransactionRepr")
    rn = {k: v["name"] for k, v in enumerate(repr_adt["variants"])}
    tab = {}
    peek = [i for i, c, *_ in calls(f) if callee_matches(c, r"canonical::Input::peek$")]
    for b in sorted(cfg.reach):
        t = f["bbs"][b]["t"]
        if t[0] == "switch" and describe(f, t[1], depth=4).startswith("disc(") and len(t[2]) >= 5:
            arms = switch_arms(f, cfg, t, rn)
            for R, blocks in arms.items():
                decs = [codec.callee_self(f["bbs"][bb]["t"][1]) for bb in blocks if f["bbs"][bb]["t"][0] == "call" and callee_matches(f["bbs"][bb]["t"][1], r"::decode_static$")]
                intos = [callee_name(f["bbs"][bb]["t"][1]) for bb in blocks if f["bbs"][bb]["t"][0] == "call" and callee_matches(f["bbs"][bb]["t"][1], r"Into<U>>::into$|From<.*>>::from$")]
                tab[R] = (decs, intos)
            break
    bodies = {}
    for t, dd in I.items():
        if t.endswith("Body") and "Serialize" in dd and "encode_static" in dd["Serialize"]:
            p = prefix_of(dd["Serialize"]["encode_static"][1])
            if p:
                bodies[t.rsplit("::", 1)[-1]] = p[1]
    ok = bool(peek) and set(tab) == set(vs)
    detail = {}
    for R, (decs, intos) in tab.items():
        body = None
        if len(decs) == 1:
            m = re.search(r"ChargeableTransaction<[\w:]*::(\w+Body)", decs[0])
            body = m.group(1) if m else decs[0].rsplit("::", 1)[-1]
        pref = bodies.get(body) if body and body.endswith("Body") else (R if body == "Mint" else None)
        detail[R] = (body, pref)
        ok = ok and len(decs) == 1 and pref == R
    mint_prefix = prefix_of(I["fuel_tx::transaction::types::mint::Mint"]["Serialize"]["encode_static"][1])
    ok = ok and mint_prefix is not None and mint_prefix[1] == "Mint"
    rep.check(ok, "DELEG-wrappers", "Transaction::decode_static:repr-R->type-with-prefix-R", where, "arm -> (decoded body, its prefix): %s; Mint prefix %s" % (detail, mint_prefix))
    # From<X> for Transaction wraps into the same-named variant
    nfrom = 0
    for n, ff in F.find(r"^<fuel_tx::transaction::Transaction as std::convert::From<.*>>::from$|impl std::convert::From<.*> for fuel_tx::transaction::Transaction>::from$", ["fuel_tx"]):
        mk = [rv[2] for i, j, p, rv, line in assignments(ff) if rv[0] == "agg" and rv[1] == TX]
        src = ff["locals"][1]
        m = re.search(r"ChargeableTransaction<[\w:]*::(\w+)Body", src)
        want = m.group(1) if m else src.rsplit("::", 1)[-1]
        nfrom += 1
        rep.check(mk == [want], "DELEG-wrappers", "From<%s>forTransaction" % want, "%s:%s" % (ff["file"], ff["line"]), "wraps %s into variant %s" % (src, mk))
    rep.floor("DELEG-wrappers", "From<X> for Transaction impls", nfrom, 6)

    # ---- Input
    IN = "fuel_tx::transaction::types::input::Input"
    d = I.get(IN, {})
    ser, de = d.get("Serialize", {}), d.get("Deserialize", {})
    vs = [v["name"] for v in F.adt(IN)["variants"]]
    where = "fuel-tx/src/transaction/types/input.rs"
    for m in list(codec.SER_M) + ["decode_dynamic"]:
        fn = (ser if m in codec.SER_M else de).get(m)
        sq = by_variant(codec.self_field_calls(fn[1], m)) if fn else {}
        ok = set(sq) == set(vs) and all([y[0] for y in x] == ["0"] for x in sq.values())
        rep.check(ok, "DELEG-wrappers", "Input::%s:arm-V->V.0.%s" % (m, m), where, "per-variant delegation: %s" % {v: [y[0] for y in x] for v, x in sq.items()})
    # encode: InputRepr::from(self).encode_* first
    for m in ("encode_static", "encode_dynamic"):
        f = ser[m][1]
        cfg = CFG(f)
        fr = [i for i, c, args, *_ in calls(f) if callee_matches(c, r"From<&fuel_tx::transaction::types::input::Input>>::from$|InputRepr::from_input$") and describe(f, args[0]) == "arg:self"]
        en = [i for i, c, args, *_ in calls(f) if callee_matches(c, r"::%s$" % m) and "InputRepr" in (codec.callee_self(c) or "")]
        pay = [i for i, c, args, *_ in calls(f) if callee_matches(c, r"::%s$" % m) and i not in en]
        rep.check(len(fr) == 1 and len(en) == 1 and cfg.dominates(fr[0], en[0]) and all(cfg.dominates(en[0], p) for p in pay) and (m != "encode_static" or size_adds_8(ser["size_static"][1])),
                  "DELEG-wrappers", "Input::%s:repr-first" % m, where, "InputRepr::from(self).%s must precede every payload %s (and size_static adds 8 for it)" % (m, m))
    # repr mapping
    n, f = F.find(r"^fuel_tx::transaction::types::input::repr::InputRepr::from_input$", ["fuel_tx"], one=True)
    rep.saw(n)
    cfg = CFG(f)
    inn = {k: v["name"] for k, v in enumerate(F.adt(IN)["variants"])}
    enc_map = {}
    for b in sorted(cfg.reach):
        t = f["bbs"][b]["t"]
        if t[0] == "switch" and describe(f, t[1], depth=4).startswith("disc("):
            for V, blocks in switch_arms(f, cfg, t, inn).items():
                mk = {s[2][2] for bb in blocks for s in f["bbs"][bb]["s"] if s[0] == "=" and s[2][0] == "agg" and s[2][1].endswith("::InputRepr")}
                enc_map[V] = sorted(mk)
            break
    f = de["decode_static"][1]
    rep.saw(de["decode_static"][0])
    cfg = CFG(f)
    rn = {k: v["name"] for k, v in enumerate(F.adt("fuel_tx::transaction::types::input::repr::InputRepr")["variants"])}
    dec_map = {}
    dec_ty = {}
    for b in sorted(cfg.reach):
        t = f["bbs"][b]["t"]
        if t[0] == "switch" and describe(f, t[1], depth=4).startswith("disc(") and len(t[2]) + 1 >= len(rn) and "InputRepr" in str(root_disc_adt(f, t)):
            for R, blocks in switch_arms(f, cfg, t, rn).items():
                mk = {s[2][2] for bb in blocks for s in f["bbs"][bb]["s"] if s[0] == "=" and s[2][0] == "agg" and s[2][1] == IN}
                dec_map[R] = sorted(mk)
                dec_ty[R] = sorted({strip_gen(codec.callee_self(f["bbs"][bb]["t"][1])) for bb in blocks if f["bbs"][bb]["t"][0] == "call" and callee_matches(f["bbs"][bb]["t"][1], r"::decode_static$")})
            break
    inv = {}
    for V, Rs in enc_map.items():
        for R in Rs:
            inv.setdefault(R, []).append(V)
    inv = {R: sorted(v) for R, v in inv.items()}
    rep.check(bool(enc_map) and all(len(x) == 1 for x in enc_map.values()) and inv == dec_map and set(enc_map) == set(vs), "DELEG-wrappers", "Input:repr<->variant-tables", where,
              "InputRepr::from_input maps %s; the decoder builds %s" % (enc_map, dec_map))
    # payload codec identity: the generic struct encoded for V is the one decoded in arm R
    enc_ty = {}
    for v, x in by_variant(codec.self_field_calls(ser["encode_static"][1], "encode_static")).items():
        enc_ty[v] = strip_gen(x[0][1])
    bad = [(V, enc_ty.get(V), dec_ty.get(R)) for V, Rs in enc_map.items() for R in Rs if [enc_ty.get(V)] != dec_ty.get(R)]
    rep.check(not bad, "DELEG-wrappers", "Input:payload-codec-identity", where, "variant payload encoded and decoded by different codecs: %s" % bad[:4])
    derr = [i for i, c, args, *_ in calls(f) if callee_matches(c, r"Result::<T, E>::map_err$")]
    cl = [rv[2] for n2, f2 in F.find(re.escape(de["decode_static"][0]) + r"::\{closure#\d+\}$", ["fuel_tx"], required=False) for i, j, p, rv, line in assignments(f2) if rv[0] == "agg" and rv[1].endswith("canonical::Error")]
    rep.check(bool(derr) and cl == ["UnknownDiscriminant"], "DELEG-wrappers", "Input::decode_static:bad-repr->UnknownDiscriminant", where, "repr decode failure maps to %s" % cl)


def root_disc_adt(f, t):
    if t[1][0] == "k":
        return None
    r = root_of(f, t[1][1][0])
    if isinstance(r, tuple) and r[0] == "rvalue" and r[1][0] == "disc":
        return r[1][2] if len(r[1]) > 2 else None
    return None


def size_adds_8(f):
    return any(callee_matches(c, r"saturating_add$") and any(describe(f, a) == "const:8" for a in args) for i, c, args, *_ in calls(f))


# ------------------------------------------------------------------ base impls
def base_rules(F, rep, I):
    ft = F.fns("fuel_types")
    where = "fuel-types/src/canonical.rs"
    rep.check(F.const("fuel_types::canonical::ALIGN") == 8, "BASE-align", "ALIGN=8", where, "ALIGN is %s" % F.const("fuel_types::canonical::ALIGN"))
    f = ft["fuel_types::canonical::alignment_bytes"]
    cfg = CFG(f)
    ds = []
    for i, j, p, rv, line in assignments(f):
        if p == [0]:
            ds.append(rv_d(f, rv))
    gz = [g for g in guards(f) if g["op"] == "Eq" and re.match(r"^Rem\(arg:len,const:fuel_types::canonical::ALIGN\)$", g["a_desc"]) and g["b_desc"] == "const:0"]
    ds = [re.sub(r"(WithOverflow|Unchecked)\(", "(", x) for x in ds]
    okf = sorted(ds) == sorted(["const:0", "Sub(const:fuel_types::canonical::ALIGN,Rem(arg:len,const:fuel_types::canonical::ALIGN))"]) and len(gz) == 1
    if okf:
        g = gz[0]
        zb = [i for i, j, p, rv, line in assignments(f) if p == [0] and rv_d(f, rv) == "const:0"]
        okf = all(b in cfg.reachable_incl(g["t"]) and b not in cfg.reachable_incl(g["f"]) for b in zb)
    rep.check(okf, "BASE-align", "alignment_bytes=(8-len%8)%8", where, "alignment_bytes returns %s under guards %s" % (ds, [(g["a_desc"], g["b_desc"]) for g in gz]))
    f = ft["fuel_types::canonical::aligned_size"]
    rets = [(callee_name(c), [describe(f, a, depth=8) for a in args]) for i, c, args, dest, *_ in calls(f) if dest == [0]]
    rep.check(rets == [("std::num::<impl usize>::saturating_add", ["arg:len", "call:alignment_bytes(arg:len)"])], "BASE-align", "aligned_size=len+alignment_bytes(len)", where, "aligned_size returns %s" % rets)
    # trait defaults
    for nm, want in (("fuel_types::canonical::Serialize::size", ["size_static", "size_dynamic", "saturating_add"]),
                     ("fuel_types::canonical::Serialize::encode", ["encode_static", "encode_dynamic"]),
                     ("fuel_types::canonical::Deserialize::decode", ["decode_static", "decode_dynamic"])):
        f = ft[nm]
        cfg = CFG(f)
        cs = [(i, callee_name(c).rsplit("::", 1)[-1]) for i, c, *_ in calls(f) if callee_name(c).rsplit("::", 1)[-1] in want]
        order = [x[1] for x in sorted(cs, key=lambda x: len(cfg.dominators().get(x[0], ())))]
        rep.check(order == want, "BASE-align", "%s=%s" % (nm.rsplit("::", 2)[-2] + "::" + nm.rsplit("::", 1)[-1], "+".join(want)), where, "default method calls %s" % order)
    # primitives
    nprim = 0
    for p in ("u8", "u16", "u32", "u64", "u128", "usize"):
        ser, de = I[p]["Serialize"], I[p]["Deserialize"]
        f = ser["size_static"][1]
        rets = [(callee_name(c).rsplit("::", 1)[-1], [describe(f, a, depth=8) for a in args]) for i, c, args, dest, *_ in calls(f) if dest == [0]]
        ok1 = len(rets) == 1 and rets[0][0] == "aligned_size" and re.match(r"^(call:size_of\(\)|const:\d+)$", rets[0][1][0]) is not None
        f = ser["encode_static"][1]
        cfg = CFG(f)
        pad = [i for i, c, args, *_ in calls(f) if callee_matches(c, r"Output::push_byte$") and describe(f, args[1]) == "const:0"]
        wr = [(i, describe(f, args[1], depth=12)) for i, c, args, *_ in calls(f) if callee_matches(c, r"Output::write$")]
        ab = [(i, describe(f, args[0], depth=10)) for i, c, args, *_ in calls(f) if callee_matches(c, r"canonical::alignment_bytes$")]
        ok2 = len(pad) == 1 and len(wr) == 1 and "to_be_bytes(arg:self)" in wr[0][1].replace("call:", "") and len(ab) == 1 and "to_be_bytes" in ab[0][1] and \
            pad[0] in cfg.reachable_from(pad[0]) and cfg.dominates(ab[0][0], wr[0][0]) and wr[0][0] not in cfg.reachable_from(wr[0][0])
        f = de["decode_static"][1]
        cfg = CFG(f)
        sk = [(i, describe(f, args[1], depth=10)) for i, c, args, *_ in calls(f) if callee_matches(c, r"Input::skip$")]
        rd = [i for i, c, args, *_ in calls(f) if callee_matches(c, r"Input::read$")]
        fb = [i for i, c, args, *_ in calls(f) if callee_matches(c, r"::from_be_bytes$")]
        ok3 = len(sk) == 1 and sk[0][1].startswith("call:alignment_bytes(") and len(rd) == 1 and len(fb) == 1 and cfg.dominates(sk[0][0], rd[0]) and cfg.dominates(rd[0], fb[0])
        nprim += ok1 and ok2 and ok3
        rep.check(ok1 and ok2 and ok3, "BASE-align", "%s:size=aligned;encode=pad+be_bytes;decode=skip+read" % p, where, "size ok=%s encode ok=%s decode ok=%s" % (ok1, ok2, ok3))
    # Vec<T> and [T;N] byte paths
    for t, lenrx in (("std::vec::Vec<T>", r"call:len\(arg:self\)|call:capacity\(arg:self\)"), ("[T; N]", r"const:N|const<usize>|N$")):
        ser, de = I[t]["Serialize"], I[t]["Deserialize"]
        em = "encode_dynamic" if t.startswith("std::vec") else "encode_static"
        dm = "decode_dynamic" if t.startswith("std::vec") else "decode_static"
        f = ser[em][1]
        cfg = CFG(f)
        wr = [i for i, c, args, *_ in calls(f) if callee_matches(c, r"Output::write$")]
        pad = [i for i, c, args, *_ in calls(f) if callee_matches(c, r"Output::push_byte$") and describe(f, args[1]) == "const:0"]
        ab = [(i, describe(f, args[0], depth=8)) for i, c, args, *_ in calls(f) if callee_matches(c, r"canonical::alignment_bytes$")]
        el = [i for i, c, args, *_ in calls(f) if callee_matches(c, r"Serialize::(encode|encode_static)$")]
        ok_e = len(wr) == 1 and len(pad) == 1 and len(ab) == 1 and re.search(lenrx, ab[0][1]) is not None and cfg.dominates(wr[0], ab[0][0]) and pad[0] in cfg.reachable_from(pad[0]) and \
            len(el) == 1 and el[0] in cfg.reachable_from(el[0]) and el[0] not in cfg.reachable_from(wr[0]) and wr[0] not in cfg.reachable_from(el[0])
        f = de[dm][1]
        cfg = CFG(f)
        rd = [i for i, c, args, *_ in calls(f) if callee_matches(c, r"Input::read$")]
        sk = [(i, describe(f, args[1], depth=8)) for i, c, args, *_ in calls(f) if callee_matches(c, r"Input::skip$")]
        dl = [i for i, c, args, *_ in calls(f) if callee_matches(c, r"Deserialize::(decode|decode_static)$")]
        ok_d = len(rd) == 1 and len(sk) == 1 and re.search(r"call:alignment_bytes\((%s)\)" % lenrx, sk[0][1]) is not None and sk[0][0] in cfg.reachable_from(rd[0]) and \
            len(dl) == 1 and dl[0] in cfg.reachable_from(dl[0]) and rd[0] not in cfg.reachable_from(dl[0])
        rep.check(ok_e and ok_d, "BASE-align", "%s:bytes=write+pad|read+skip;elements=loop" % t, where,
                  "encode (%s) ok=%s [write %s pad %s align %s elem %s]; decode (%s) ok=%s [read %s skip %s elem %s]" % (em, ok_e, wr, pad, ab, el, dm, ok_d, rd, sk, dl))
    f = I["std::vec::Vec<T>"]["Serialize"]["size_static"][1]
    r8 = [rv_d(f, rv) for i, j, p, rv, line in assignments(f) if p == [0]]
    fe = I["std::vec::Vec<T>"]["Serialize"]["encode_static"][1]
    le = [(callee_name(c), describe(fe, args[0], depth=14)) for i, c, args, *_ in calls(fe) if callee_matches(c, r"Serialize::encode$")]
    fd = I["std::vec::Vec<T>"]["Deserialize"]["decode_static"][1]
    ld = [callee_name(c) for i, c, args, *_ in calls(fd) if callee_matches(c, r"Deserialize::decode$") and c.get("self") == "u64"]
    rep.check(r8 == ["const:8"] and len(le) == 1 and "len(arg:self)" in le[0][1] and len(ld) == 1, "BASE-align", "Vec:length-word(8)=len-encoded-as-u64", where, "size_static %s; encodes %s; decodes %s" % (r8, le, ld))
    # the element count travels from decode_static to decode_dynamic as the vector's capacity: both allocations must be made
    # with exactly the decoded length, and decode_dynamic must decode `capacity()` elements
    lens = [describe(fd, args[0], depth=14) for i, c, args, *_ in calls(fd) if callee_matches(c, r"TryInto<.*>>?::try_into$|TryFrom<.*>>?::try_from$")]
    allocs = [(callee_name(c).rsplit("::", 1)[-1], describe(fd, args[-1], depth=24)) for i, c, args, *_ in calls(fd) if callee_matches(c, r"Vec::<T>::with_capacity$|vec::from_elem$")]
    okc = len(lens) == 1 and "call:decode(arg:buffer)" in lens[0] and len(allocs) == 2 and all(re.search(r"call:try_(into|from)\(.*call:decode\(arg:buffer\)", a[1]) for a in allocs) and len({a[1] for a in allocs}) == 1
    fdd = I["std::vec::Vec<T>"]["Deserialize"]["decode_dynamic"][1]
    rng = [[describe(fdd, x, depth=8) for x in rv[3]] for i, j, p, rv, line in assignments(fdd) if rv[0] == "agg" and rv[1].endswith("ops::range::Range")]
    rep.check(okc and rng == [["const:0", "call:capacity(arg:self)"]], "BASE-align", "Vec:element-count=length-word(via capacity)", where,
              "decode_static allocates %s from length %s; decode_dynamic iterates %s" % (allocs, lens, rng))


def rv_d(f, rv):
    if rv[0] == "use":
        return describe(f, rv[1], depth=10)
    if rv[0] == "bin":
        return "%s(%s,%s)" % (re.sub(r"(WithOverflow|Unchecked)$", "", rv[1]), describe(f, rv[2], depth=10), describe(f, rv[3], depth=10))
    return rv[0]


def policies(F, rep, I):
    P = "fuel_tx::transaction::policies::Policies"
    d = I[P]
    where = "fuel-tx/src/transaction/policies.rs"
    f = d["Serialize"]["size_dynamic"][1]
    rets = [describe(f, args[0], depth=14) for i, c, args, dest, *_ in calls(f) if callee_matches(c, r"(saturating_mul|checked_mul|wrapping_mul)$")]
    muls = [rv_d(f, rv) for i, j, p, rv, line in assignments(f) if rv[0] == "bin" and rv[1].startswith("Mul")]
    txt = " ".join(rets + muls)
    rep.check("count_ones" in txt and "bits" in txt, "POLICIES", "size_dynamic=count_ones(bits)*WORD", where, "size_dynamic multiplies %s" % txt[:200])
    for tr, m in (("Serialize", "encode_dynamic"), ("Deserialize", "decode_dynamic")):
        f = d[tr][m][1]
        rep.saw(d[tr][m][0])
        cfg = CFG(f)
        al = [i for i, c, *_ in calls(f) if callee_matches(c, r"PoliciesBits>::all$")]
        ct = [i for i, c, args, *_ in calls(f) if callee_matches(c, r"PoliciesBits>::contains$") and "bits" in describe(f, args[0], depth=6)]
        io = [i for i, c, args, *_ in calls(f) if callee_matches(c, r"Serialize::encode$|Deserialize::decode$|::encode$|::decode$") and c.get("self") in ("u64", None)]
        io = [i for i in io if i in cfg.reachable_from(i)]
        ok = len(al) == 1 and len(ct) == 1 and len(io) == 1 and ct[0] in cfg.reachable_from(ct[0]) and cfg.dominates(al[0], ct[0])
        if ok:
            from fvlib.core import bool_consumers
            bc = bool_consumers(f, ct[0])
            ok = len(bc) == 1 and io[0] in cfg.reachable_incl(bc[0][1]) - cfg.reachable_incl(bc[0][2]) or (len(bc) == 1 and io[0] in cfg.reachable_incl(bc[0][1]) and not cfg.dominates(bc[0][2], io[0]))
        if not ok and len(al) == 1:
            # the same loop as an iterator chain: zip(.., all()).filter(|..| bits.contains(bit)).try_for_each(|..| value.encode/decode)
            fname = d[tr][m][0]
            cls = {cn: cf for cn, cf in F.find("^" + re.escape(fname) + r"::\{closure#\d+\}$", ["fuel_tx"], required=False)}
            filt = [cn for cn, cf in cls.items() if any(callee_matches(c, r"PoliciesBits>::contains$") and "bits" in describe(cf, args[0], depth=8) for i, c, args, *_ in calls(cf))]
            body = [cn for cn, cf in cls.items() if any(callee_matches(c, r"Serialize::encode$|Deserialize::decode$|::encode$|::decode$") and c.get("self") in ("u64", None) for i, c, args, *_ in calls(cf))]
            chain_ok = False
            if len(filt) == 1 and len(body) == 1:
                for i, c, args, *_ in calls(f):
                    if callee_matches(c, r"Iterator::(try_for_each|for_each)$|Iterator>?::(try_for_each|for_each)$") and len(args) == 2:
                        recv = describe(f, args[0], depth=30)
                        if body[0].rsplit("::", 1)[-1] in describe(f, args[1], depth=4) and "call:filter(" in recv and "call:all(" in recv and filt[0].rsplit("::", 1)[-1] in recv:
                            chain_ok = True
            ok = chain_ok
        rep.check(ok, "POLICIES", "%s:for-bit-in-all()-if-contains(bit)" % m, where, "all() %s contains %s value io in loop %s" % (al, ct, io))
    f = d["Serialize"]["encode_static"][1]
    es = [describe(f, args[0], depth=8) for i, c, args, *_ in calls(f) if callee_matches(c, r"::encode_static$|Serialize::encode$")]
    fdz = d["Deserialize"]["decode_static"][1]
    ds = [codec.callee_self(c) for i, c, args, *_ in calls(fdz) if callee_matches(c, r"::decode_static$|Deserialize::decode$")]
    ss = [rv_d(d["Serialize"]["size_static"][1], rv) for i, j, p, rv, line in assignments(d["Serialize"]["size_static"][1]) if p == [0]]
    ssc = [(callee_name(c).rsplit("::", 1)[-1], codec.callee_self(c)) for i, c, args, dest, *_ in calls(d["Serialize"]["size_static"][1]) if dest == [0]]
    rep.check(len(es) == 1 and "bits" in es[0] and len(ds) == 1, "POLICIES", "static=one-word(bits)", where, "encode_static writes %s; decode_static reads %s; size_static %s %s" % (es, ds, ss, ssc))
