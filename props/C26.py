"""C26 Gas is charged monotonically and never exceeds the limit — structural clauses.

  WHO-gas-registers   the only functions that can write $cgas/$ggas (by typed RegMut<9|10>, constant
                      index, dynamic index into the full register file, or whole-array escape) are
                      the reviewed ones; a new writer fails closed.
  DOM-gas_charge      gas_charge(): out-of-gas branch taken exactly when gas > cgas, zeroes cgas and
                      returns OutOfGas; the other branch subtracts the *same* operand from both.
  ALWAYS-charge       every opcode handler (ECAL exempt: user handler charges) passes through
                      gas_charge on every non-error path (interprocedural must-pass summaries).
  NO-EFFECT-UNCHARGED no memory write / storage mutation / receipt is reachable from a handler's
                      entry before the first gas charge on that path.
  TAB-accessor        each handler charges with the gas-schedule entry of its own opcode
                      (table by reading; storage opcodes use noop() + dependent charges inside).
  CALL-gas            prepare_call forwards min(cgas, requested), removes it with checked_sub before
                      the frame copy and installs exactly that amount; return_from_context credits
                      frame.context_gas() back with checked_add; run_program's gas_used is
                      limit.checked_sub(remaining).
Not decided: DependentCost::resolve arithmetic, the numeric invariant cgas <= ggas itself.
"""
import re

from fvlib.core import (CFG, CallGraph, agg_blocks, assignments, call_blocks, calls, callee_matches,
                        callee_name, describe, guards, guard_region, match_commuted, short, simplify_desc, op_place)
from fvlib.summ import Summaries
from fvlib import vm

CHARGE = r"^fuel_vm::interpreter::gas::gas_charge$"
EFFECT = (r"(^fuel_vm::interpreter::memory::MemoryInstance::(write|write_noownerchecks|write_bytes|"
          r"write_bytes_noownerchecks|memcopy|grow_stack|grow_heap_by)$"
          r"|StorageMutate.*::(insert|replace|remove|take)$|StorageWrite.*::(write_bytes|replace_bytes|take_bytes)$"
          r"|InterpreterStorage::(contract_state_insert|contract_state_remove_range|contract_state_insert_range|"
          r"deploy_contract_with_id|set_consensus_parameters|set_state_transition_bytecode)$"
          r"|ContractsAssetsStorage::contract_asset_id_balance_(insert|replace)$"
          r"|^fuel_vm::interpreter::receipts::ReceiptsCtx::push$)")

# writers of $cgas/$ggas (regs 9/10), dynamic-index writers and whole-array writers: reviewed table
WRITERS = {
    "fuel_vm::interpreter::gas::gas_charge": "the single place gas is consumed",
    "fuel_vm::interpreter::gas::<impl fuel_vm::interpreter::Interpreter<M, S, Tx, Ecal, V>>::set_gas": "initialisation of both gas registers (script/predicate start)",
    "fuel_vm::interpreter::flow::PrepareCallCtx::<'_, S, V>::prepare_call": "CALL: forwards gas to the callee context",
    "fuel_vm::interpreter::flow::RetCtx::<'_>::return_from_context": "RET: restores caller registers, credits unspent gas",
    "fuel_vm::interpreter::initialization::<impl fuel_vm::interpreter::Interpreter<M, S, Tx, Ecal, V>>::init_inner": "register wipe at VM init",
    "fuel_vm::interpreter::internal::<impl fuel_vm::interpreter::Interpreter<M, S, Tx, Ecal, V>>::write_user_register": "dynamic index guarded by reg >= WRITABLE",
    "fuel_vm::interpreter::internal::<impl fuel_vm::interpreter::Interpreter<M, S, Tx, Ecal, V>>::write_user_register_legacy": "dynamic index guarded by reg >= WRITABLE",
    "fuel_vm::constraints::reg_key::copy_registers": "fills a fresh local array (frame copy), not the live registers",
    "fuel_vm::interpreter::diff::<impl fuel_vm::interpreter::Interpreter<M, S, Tx, Ecal, V>>::inverse_inner": "state-diff utility (not on the execution path)",
    "fuel_vm::interpreter::flow::<impl fuel_vm::interpreter::Interpreter<M, S, Tx, Ecal, V>>::prepare_call_inner": "hands the register file to PrepareCallRegisters::from (typed split)",
    "fuel_vm::interpreter::flow::<impl std::convert::From<&'reg mut [u64; 64]> for fuel_vm::interpreter::flow::PrepareCallRegisters<'reg>>::from": "typed split of the register file",
}

ACCESSOR_EXCEPT = {
    "CFS": "cfsi", "JAL": "jmp", "LQW": "lw", "LHW": "lw", "SQW": "sw", "SHW": "sw",
    "MOD": "mod_op", "MOVE": "move_op", "EQ": "eq_",
}
STORAGE_OPS = {"SCWQ", "SRW", "SRWQ", "SWW", "SWWQ", "SCLR", "SRDD", "SRDI", "SWRD", "SWRI", "SUPD", "SUPI", "SPLD"}
INNER_CHARGE = {"CALL": "call", "CCP": "ccp", "CROO": "croo", "CSIZ": "csiz", "LDC": "ldc", "BSIZ": "bsiz", "BLDD": "bldd"}
STORAGE_INNER = {
    "SCWQ": {"storage_clear", "storage_read_cold", "storage_read_hot"},
    "SRW": {"storage_read_cold", "storage_read_hot"},
    "SRWQ": {"storage_read_cold", "storage_read_hot"},
    "SWW": {"storage_write", "new_storage_per_byte", "storage_read_cold", "storage_read_hot"},
    "SWWQ": {"storage_write", "new_storage_per_byte", "storage_read_cold", "storage_read_hot"},
    "SCLR": {"storage_clear"},
    "SRDD": {"storage_read_cold", "storage_read_hot"},
    "SRDI": {"storage_read_cold", "storage_read_hot"},
    "SWRD": {"storage_write", "new_storage_per_byte"},
    "SWRI": {"storage_write", "new_storage_per_byte"},
    "SUPD": {"storage_write", "new_storage_per_byte", "storage_read_cold", "storage_read_hot"},
    "SUPI": {"storage_write", "new_storage_per_byte", "storage_read_cold", "storage_read_hot"},
    "SPLD": {"storage_read_cold", "storage_read_hot"},
}


def acc_reach(cg, n, depth=6):
    seen = {n}
    frontier = [n]
    acc = set()
    for d in range(depth + 1):
        nxt = []
        for x in frontier:
            f = cg.fns.get(x)
            if not f:
                continue
            for _, a, _ in vm.gas_accessors_called(f):
                acc.add(a)
            for y in cg.edges.get(x, ()):
                if y not in seen and y.lstrip("<").startswith("fuel_vm::"):
                    seen.add(y)
                    nxt.append(y)
        frontier = nxt
    return acc


def run(F, rep, tier, allfacts):
    cg = CallGraph(F)
    S = Summaries(cg)
    H = vm.handlers(F)
    rep.floor("handlers", "impl Execute for op::X", len(H), 127)
    rep.rule("WHO-gas-registers", "writers of $cgas/$ggas (typed, const-index, dynamic-index, whole-array) ⊆ reviewed table")
    rep.rule("DOM-gas_charge", "gas_charge: error region {gt} of (gas vs cgas); same operand subtracted from both registers; cgas:=0 on OutOfGas")
    rep.rule("ALWAYS-charge", "every handler's non-error paths pass through gas_charge (interprocedural)")
    rep.rule("NO-EFFECT-UNCHARGED", "no memory/storage/receipt mutation reachable before the first charge")
    rep.rule("TAB-accessor", "handler charges the gas-table entry of its own opcode")
    rep.rule("CALL-gas", "forwarded gas = min(cgas, requested); checked_sub before frame copy; credited back with checked_add; gas_used = limit.checked_sub(remaining)")

    # ---------------- WHO
    ws = vm.register_writes(F)
    seen_writers = {}
    for w in ws:
        if w["fn"].startswith("fuel_vm::call::"):
            continue  # CallFrame's own register copy, not the live register file
        r = w["reg"]
        if r in (9, 10, "GGAS", "CGAS", "dyn", "all"):
            if w["kind"].startswith("escape:") and re.search(r"escape:\w+_mut$", w["kind"]) and w["kind"] not in ("escape:iter_mut",):
                # GetRegMut accessor for one named register (recorded separately as GetRegMut)
                continue
            seen_writers.setdefault(w["fn"], []).append((w["kind"], r, w["line"]))
    for fn, lst in sorted(seen_writers.items()):
        rep.saw(fn)
        f = cg.fns[fn]
        rep.check(fn in WRITERS, "WHO-gas-registers", "writer:" + short(fn),
                  "%s:%s" % (f["file"], lst[0][2]),
                  "UNREVIEWED function can write $cgas/$ggas: %s via %s" % (fn, sorted(set((k, str(r)) for k, r, _ in lst))))
    rep.floor("WHO-gas-registers", "gas-register-capable writers found", len(seen_writers), 8)
    for must in ("fuel_vm::interpreter::gas::gas_charge",):
        if must not in seen_writers:
            rep.anchor_missing("gas_charge no longer writes RegMut<9|10>")
    # dynamic-index writers must be guarded by >= WRITABLE
    for fn in seen_writers:
        if any(r == "dyn" and k == "IndexMut" for k, r, _ in seen_writers[fn]) and "write_user_register" in fn:
            f = cg.fns[fn]
            cfg = CFG(f)
            wb = [i for i, c, *_ in calls(f) if callee_matches(c, r"IndexMut.*::index_mut$")]
            okg = False
            for g in guards(f):
                reg = guard_region(g, r"^arg:reg$", r"RegId::WRITABLE$|^const:16$")
                if reg is None:
                    continue
                # branch where reg < WRITABLE must not reach the write
                lt_side = g["t"] if "lt" in reg and "eq" not in reg and "gt" not in reg else (g["f"] if reg == {"eq", "gt"} else None)
                if lt_side is None:
                    continue
                okg = not any(b in cfg.reachable_incl(lt_side) for b in wb)
            rep.check(okg, "WHO-gas-registers", "guarded-dyn-write:" + short(fn), "%s:%s" % (f["file"], f["line"]),
                      "dynamic register write must be unreachable when reg < RegId::WRITABLE")

    # ---------------- gas_charge body
    gn, gf = F.find(r"^fuel_vm::interpreter::gas::gas_charge$", ["fuel_vm"], one=True)
    rep.saw(gn)
    cfg = CFG(gf)
    errb = agg_blocks(gf, r"PanicReason$", "OutOfGas")
    gl = [(g, guard_region(g, r"^arg:gas_to_use$", r"cgas")) for g in guards(gf)]
    gl = [(g, r) for g, r in gl if r is not None]
    if not gl or not errb:
        rep.bad("DOM-gas_charge", "gas_charge:guard", "%s:%s" % (gf["file"], gf["line"]), "comparison gas_to_use vs cgas / OutOfGas not found")
    else:
        g, reg = gl[0]
        t_reach = cfg.reachable_incl(g["t"])
        err_on_t = all(b in t_reach for b in errb)
        err_region = reg if err_on_t else {"lt", "eq", "gt"} - reg
        ok_side = g["f"] if err_on_t else g["t"]
        err_side = g["t"] if err_on_t else g["f"]
        rep.check(err_region == {"gt"}, "DOM-gas_charge", "gas_charge:error-region", "%s:%s" % (gf["file"], g["line"]),
                  "OutOfGas must be raised exactly when gas_to_use > cgas; found region %s" % sorted(err_region))
        okr = cfg.reachable_incl(ok_side) - cfg.reachable_incl(err_side)
        err_only = cfg.reachable_incl(err_side) - cfg.reachable_incl(ok_side)
        # writes: `*deref_mut(reg) = value` : find assignments through deref of a deref_mut result
        writes = {}
        for i, c, args, dest, tgt, line in calls(gf):
            if callee_name(c).endswith("deref_mut"):
                m = re.search(r"RegMut<'_, (\d+)>", c.get("self") or "")
                if m and dest:
                    writes[dest[0]] = (int(m.group(1)), i)
        vals = {"ok": {}, "err": {}}
        for i, j, p, rv, line in assignments(gf):
            if p[0] in writes and p[1:] == ["*"]:
                reg_no = writes[p[0]][0]
                side = "ok" if i in okr else ("err" if i in err_only else "?")
                d = describe(gf, rv[1]) if rv[0] == "use" else "%s(%s,%s)" % (rv[1], describe(gf, rv[2]), describe(gf, rv[3])) if rv[0] == "bin" else rv[0]
                vals.setdefault(side, {})[reg_no] = d
        rep.sample({"gas_charge_writes": vals})
        okv = vals["ok"]
        sub = lambda d, r: bool(re.match(r"^(Sub(WithOverflow|Unchecked)?|call:(checked_sub|saturating_sub|wrapping_sub))\(call:deref\(arg:reg_%s\),arg:gas_to_use\)" % r, d or ""))
        rep.check(sub(okv.get(9), "ggas") and sub(okv.get(10), "cgas"), "DOM-gas_charge", "gas_charge:same-operand-both",
                  "%s:%s" % (gf["file"], gf["line"]),
                  "happy path must subtract gas_to_use from both $ggas and $cgas; found ggas:=%s cgas:=%s" % (okv.get(9), okv.get(10)))
        ev = vals["err"]
        rep.check(ev.get(10) == "const:0" and 9 in ev, "DOM-gas_charge", "gas_charge:oog-zeroes-cgas", "%s:%s" % (gf["file"], gf["line"]),
                  "on OutOfGas $cgas must be set to 0 and $ggas reduced by the old cgas; found %s" % ev)
        rep.check(bool(re.search(r"saturating_sub\(call:deref\(arg:reg_ggas\),call:deref\(arg:reg_cgas\)\)", ev.get(9, ""))), "DOM-gas_charge", "gas_charge:oog-ggas",
                  "%s:%s" % (gf["file"], gf["line"]), "on OutOfGas $ggas := ggas - cgas (saturating); found %s" % ev.get(9))

    # ---------------- ALWAYS charge
    alw = S.always(CHARGE)
    n_ok = 0
    for op, (n, f) in sorted(H.items()):
        rep.saw(n)
        if op == "ECAL":
            rep.note("ALWAYS-charge: ECAL exempt (the user-supplied EcalHandler is responsible for charging)")
            continue
        if alw.get(n):
            n_ok += 1
            rep.ok("ALWAYS-charge", "handler:" + op)
        else:
            path = S.always_witness(n, CHARGE, alw)
            rep.bad("ALWAYS-charge", "handler:" + op, "%s:%s" % (f["file"], f["line"]),
                    "a non-error path through %s does not pass gas_charge: blocks %s" % (op, path))
    # ---------------- effect before charge
    wit = S.unguarded(EFFECT, CHARGE, always_guard=alw)
    for op, (n, f) in sorted(H.items()):
        if op == "ECAL":
            continue
        if n in wit:
            w = wit[n]
            rep.bad("NO-EFFECT-UNCHARGED", "handler:" + op, "%s:%s" % (f["file"], w[0][1]),
                    "state-changing call reachable before any gas charge: " + " -> ".join("%s@L%s" % (short(x[2]), x[1]) for x in w))
        else:
            rep.ok("NO-EFFECT-UNCHARGED", "handler:" + op)

    # ---------------- accessor table
    for op, (n, f) in sorted(H.items()):
        if op == "ECAL":
            continue
        direct = [a for _, a, _ in vm.gas_accessors_called(f)]
        if op in STORAGE_OPS:
            reach = acc_reach(cg, n)
            want = STORAGE_INNER[op]
            rep.check(direct == ["noop"] and want <= reach, "TAB-accessor", "handler:" + op, "%s:%s" % (f["file"], f["line"]),
                      "storage opcode must charge noop() as base and reach %s; direct=%s reach=%s" % (sorted(want), direct, sorted(reach)))
        elif op in INNER_CHARGE:
            reach = acc_reach(cg, n, 3)
            rep.check(direct == [] and INNER_CHARGE[op] in reach, "TAB-accessor", "handler:" + op, "%s:%s" % (f["file"], f["line"]),
                      "expected gas accessor %s() inside the helper; direct=%s reach=%s" % (INNER_CHARGE[op], direct, sorted(reach)))
        else:
            want = ACCESSOR_EXCEPT.get(op, op.lower())
            rep.check(direct == [want], "TAB-accessor", "handler:" + op, "%s:%s" % (f["file"], f["line"]),
                      "handler of %s must charge gas_costs().%s(); it calls %s" % (op, want, direct))
            # and the accessor's value must be what is charged
            chg = [(i, args) for i, c, args, *_ in calls(f) if callee_matches(c, r"::gas::.*::(gas_charge|dependent_gas_charge)$")]
            if chg and direct == [want]:
                d = describe(f, chg[0][1][1])
                rep.check(want + "(" in d, "TAB-accessor", "handler-arg:" + op, "%s:%s" % (f["file"], f["line"]),
                          "the charged amount must derive from gas_costs().%s(); found %s" % (want, d))

    # ---------------- storage charge formulas
    rep.rule("TAB-storage-charge", "storage_write_slot charges storage_write on len(value) and new_storage_per_byte * saturating_sub(len(value), old_len); storage_clear on range; reads on the length read")
    wn, wf = F.find(r"^fuel_vm::interpreter::storage::.*::storage_write_slot$", ["fuel_vm"], one=True)
    rep.saw(wn)
    ch = [(callee_name(c).rsplit("::", 1)[-1], [describe(wf, a, depth=30) for a in args]) for i, c, args, *_ in calls(wf)
          if callee_matches(c, r"::gas::.*::(gas_charge|dependent_gas_charge)$")]
    dep = [a for n_, a in ch if n_ == "dependent_gas_charge"]
    flat = [a for n_, a in ch if n_ == "gas_charge"]
    rep.check(len(dep) == 1 and "storage_write(" in dep[0][1] and dep[0][2] == "call:len(arg:value)", "TAB-storage-charge", "write:storage_write(len(value))",
              "%s:%s" % (wf["file"], wf["line"]), "storage_write_slot must charge storage_write() on the written length; found %s" % dep)
    okf = len(flat) == 1 and match_commuted(
        r"^call:saturating_mul\(call:new_storage_per_byte\(.*\),call:saturating_sub\(call:len\(arg:value\),call:storage_slot_len_no_gas\(arg:self,arg:contract_id,arg:key\)\)\)$", simplify_desc(flat[0][1])) is not None
    rep.check(okf, "TAB-storage-charge", "write:new_storage_per_byte*(new_len-old_len)+", "%s:%s" % (wf["file"], wf["line"]),
              "new-storage charge must be new_storage_per_byte().saturating_mul(len(value).saturating_sub(old_len)) (growth only); found %s" % flat)
    cn, cf = F.find(r"^fuel_vm::interpreter::storage::.*::storage_clear_slot_range$", ["fuel_vm"], one=True)
    rep.saw(cn)
    dep = [[describe(cf, a, depth=16) for a in args] for i, c, args, *_ in calls(cf) if callee_matches(c, r"::gas::.*::dependent_gas_charge$")]
    rep.check(len(dep) == 1 and "storage_clear(" in dep[0][1] and dep[0][2] == "arg:range", "TAB-storage-charge", "clear:storage_clear(range)",
              "%s:%s" % (cf["file"], cf["line"]), "storage_clear_slot_range must charge storage_clear() on the number of slots; found %s" % dep)
    rn, rf = F.find(r"^fuel_vm::interpreter::storage::.*::storage_read_slot$", ["fuel_vm"], one=True)
    rep.saw(rn)
    dep = [[describe(rf, a, depth=16) for a in args] for i, c, args, *_ in calls(rf) if callee_matches(c, r"::gas::.*::dependent_gas_charge$")]
    hot = [d for d in dep if "storage_read_hot(" in d[1]]
    cold = [d for d in dep if "storage_read_cold(" in d[1]]
    rep.check(len(hot) == 1 and len(cold) == 1 and "unwrap_or(call:map(" in hot[0][2] and "unwrap_or(call:map(" in cold[0][2], "TAB-storage-charge",
              "read:hot-on-hit,cold-on-miss", "%s:%s" % (rf["file"], rf["line"]), "storage_read_slot must charge hot/cold on the value length; found %s" % dep)
    # hot charge only on the cache-hit path, cold only on the miss path
    cfg = CFG(rf)
    getb = call_blocks(rf, r"BTreeMap.*::get$|HashMap.*::get$")
    rdb = call_blocks(rf, r"StorageRead.*::read_alloc$")
    hb = [i for i, c, args, *_ in calls(rf) if callee_matches(c, r"GasCostsValues::storage_read_hot$")]
    cb = [i for i, c, args, *_ in calls(rf) if callee_matches(c, r"GasCostsValues::storage_read_cold$")]
    rep.check(bool(rdb and hb and cb) and all(cfg.dominates(rdb[0], b) for b in cb) and not any(b in cfg.reachable_from(rdb[0]) for b in hb),
              "TAB-storage-charge", "read:cold-after-backing-read", "%s:%s" % (rf["file"], rf["line"]),
              "cold charge must follow the backing-store read; hot charge must be on the cache-hit path only")

    # ---------------- CALL gas
    pn, pf = F.find(r"^fuel_vm::interpreter::flow::PrepareCallCtx::<'_, S, V>::prepare_call$", ["fuel_vm"], one=True)
    rep.saw(pn)
    cfg = CFG(pf)
    mins = [(i, args) for i, c, args, *_ in calls(pf) if callee_matches(c, r"cmp::min$")]
    okmin = False
    if len(mins) == 1:
        d = sorted(describe(pf, a) for a in mins[0][1])
        okmin = any("cgas" in x for x in d) and any("amount_of_gas_to_forward" in x for x in d)
    rep.check(okmin, "CALL-gas", "prepare_call:forward=min(cgas,requested)", "%s:%s" % (pf["file"], pf["line"]),
              "forwarded gas must be cmp::min(cgas, requested)")
    subs = [(i, args) for i, c, args, *_ in calls(pf) if callee_matches(c, r"::checked_sub$")]
    mind = describe(pf, ["cp", pf["bbs"][mins[0][0]]["t"][3]]) if len(mins) == 1 else "?"
    oksub = any("cgas" in describe(pf, a[0]) and describe(pf, a[1]) == mind for _, a in subs)
    rep.check(oksub, "CALL-gas", "prepare_call:cgas.checked_sub(forward)", "%s:%s" % (pf["file"], pf["line"]),
              "caller cgas must be reduced by the forwarded amount with checked_sub")
    cpy = call_blocks(pf, r"PrepareCallRegisters.*::copy_registers$")
    sb = [i for i, a in subs if describe(pf, a[1]) == mind]
    rep.check(bool(cpy) and bool(sb) and all(cfg.dominates(sb[0], c) for c in cpy), "CALL-gas", "prepare_call:deduct-before-frame-copy",
              "%s:%s" % (pf["file"], pf["line"]), "gas deduction must precede the register copy stored in the call frame")
    # final cgas := forward_gas_amount
    fin = None
    dm = {}
    for i, c, args, dest, tgt, line in calls(pf):
        if callee_name(c).endswith("deref_mut") and "RegMut<'_, 10>" in (c.get("self") or "") and dest:
            dm[dest[0]] = i
    for i, j, p, rv, line in assignments(pf):
        if p[0] in dm and p[1:] == ["*"] and rv[0] == "use":
            fin = describe(pf, rv[1])   # last one in block order
    rep.check(fin == mind and mind != "?", "CALL-gas", "prepare_call:callee-cgas=forwarded", "%s:%s" % (pf["file"], pf["line"]),
              "callee context gas must be exactly the forwarded amount; last write is %s" % fin)
    # return_from_context credit
    rn, rf = F.find(r"^fuel_vm::interpreter::flow::RetCtx::<'_>::return_from_context$", ["fuel_vm"], one=True)
    rep.saw(rn)
    adds = [(i, args) for i, c, args, *_ in calls(rf) if callee_matches(c, r"::checked_add$")]
    def _is_cgas(d):
        return "const:10" in d or "CGAS" in d or "index(" in d
    # commutative: cgas.checked_add(frame.context_gas()) or frame.context_gas().checked_add(cgas)
    okadd = any((_is_cgas(describe(rf, a[0])) and "context_gas" in describe(rf, a[1])) or (_is_cgas(describe(rf, a[1])) and "context_gas" in describe(rf, a[0])) for _, a in adds)
    rep.check(okadd, "CALL-gas", "return:cgas.checked_add(frame.context_gas())", "%s:%s" % (rf["file"], rf["line"]),
              "unspent callee gas must be credited: cgas.checked_add(frame.context_gas()); found %s" % [[describe(rf, x) for x in a] for _, a in adds])
    # run_program gas_used
    mains = F.find(r"executors::main::.*::run_program$", ["fuel_vm"])
    for mn, mf in mains:
        rep.saw(mn)
        subs = [(i, args) for i, c, args, *_ in calls(mf) if callee_matches(c, r"::checked_sub$")]
        ds = [[describe(mf, x) for x in a] for _, a in subs]
        okg = any(("gas_limit" in d[0] or "script_gas_limit" in d[0]) and "remaining_gas" in d[1] for d in ds)
        rep.check(okg, "CALL-gas", "run_program:gas_used=limit.checked_sub(remaining)", "%s:%s" % (mf["file"], mf["line"]),
                  "gas_used must be script_gas_limit.checked_sub(remaining_gas()); found %s" % ds)
