"""C11 Binary Merkle trees behave like fresh trees across reset and reload — structural clauses.

Decided here (necessary conditions, for every history at once):
  COV-reset      reset() writes, on every path, each field that any other &mut method of
                 binary::MerkleTree may write (exempt: storage = append-only node store keyed by
                 position and overwritten on re-push; phantom_table = ZST).
  DOM-prove      in prove(), the branch `proof_index >= leaves_count -> Err(InvalidProofIndex)`
                 has exactly the error region {eq, gt} and dominates every storage read.
  DOM-push       push(): create_leaf(self.leaves_count, ..) precedes the single
                 `leaves_count += 1`, which lies on every path to the node-stack push.
  ID-load        load(storage, n): the tree built stores n in leaves_count and derives the
                 peaks from the same n; a missing peak constructs LoadError.
  WRAP           in_memory::MerkleTree::{reset,push,prove} delegate to the same inner methods.
  ORDER-prove-lookup  prove() takes a side node from the scratch storage (joins recomputed for the current leaf
                 count) when present and from the persistent store only otherwise: after reset / load at a smaller
                 count the persistent store still holds nodes of the older, larger tree at scratch-only positions.
Not decided: root/proof *values* (peak arithmetic).
"""
import re

from fvlib.core import (CFG, CallGraph, agg_blocks, call_blocks, calls, callee_matches, callee_name, describe,
                        guards, guard_region, assignments, root_of, op_place, short)
from fvlib.effects import FieldEffects, first_field_of

ADT = r"fuel_merkle::binary::merkle_tree::MerkleTree$"
TY = r"fuel_merkle::binary::merkle_tree::MerkleTree<"
EXEMPT = {
    "storage": "append-only node store keyed by position; stale entries are overwritten on re-push and never read below leaves_count",
    "phantom_table": "PhantomData",
}


def run(F, rep, tier, allfacts):
    cg = CallGraph(F, ["fuel_merkle", "fuel_storage"])
    rep.rule("COV-reset", "reset must-write set ⊇ may-write set of every other &mut method minus exempt table")
    rep.rule("DOM-prove", "index-bound guard has error region {eq,gt} and dominates all storage reads in prove")
    rep.rule("DOM-push", "create_leaf(pre-increment count) -> leaves_count+=1 -> node stack push, on every path")
    rep.rule("ID-load", "load stores its leaves_count argument and derives peaks from the same argument")
    rep.rule("WRAP", "in-memory wrapper delegates reset/push/prove to the storage-backed tree")

    fe = FieldEffects(cg, ADT, TY)
    pfx = "fuel_merkle::binary::merkle_tree::MerkleTree::<TableType, StorageType>::"
    reset_n, reset_f = F.find(r"^" + re.escape(pfx) + r"reset$", ["fuel_merkle"], one=True)
    rep.saw(reset_n)
    must = fe.must(reset_n)
    mutators = []
    for n, f in cg.fns.items():
        if n.startswith(pfx) and f["kind"] == "AssocFn" and n != reset_n:
            if any(re.match(r"&mut " + TY, t) for t in f["locals"][1:f["argc"] + 1]):
                mutators.append(n)
    rep.floor("COV-reset", "&mut self methods of binary::MerkleTree besides reset", len(mutators), 1)
    fields = [x[0] for x in F.adt("fuel_merkle::binary::merkle_tree::MerkleTree")["variants"][0]["fields"]]
    for fld in fields:
        writers = []
        for m in mutators:
            rep.saw(m)
            w = fe.may(m).get(fld)
            if w:
                writers.append((m, w[0]))
        if not writers:
            continue
        key = "binary::MerkleTree.%s" % fld
        if fld in EXEMPT:
            rep.note("COV-reset: field %s exempt (%s)" % (fld, EXEMPT[fld]))
            continue
        rep.check(fld in must, "COV-reset", key,
                  where="%s:%s" % (reset_f["file"], reset_f["line"]),
                  detail="field `%s` is written by %s (%s) but reset() does not write it on every path; reset must-writes %s"
                         % (fld, [short(w[0]) for w in writers], writers[0][1], sorted(must)))
    rep.sample({"reset_must_write": sorted(must), "mutators": [short(m) for m in mutators]})

    # ---- prove guard
    pn, pf = F.find(r"^" + re.escape(pfx) + r"prove$", ["fuel_merkle"], one=True)
    rep.saw(pn)
    cfg = CFG(pf)
    errb = agg_blocks(pf, r"MerkleTreeError$", "InvalidProofIndex")
    gs = []
    for g in guards(pf):
        reg = guard_region(g, r"^arg:proof_index$", r"^arg:self\.leaves_count$")
        if reg is not None:
            gs.append((g, reg))
    if not errb or not gs:
        rep.bad("DOM-prove", "prove:index-guard-present", "%s:%s" % (pf["file"], pf["line"]),
                "no comparison of proof_index with self.leaves_count leading to InvalidProofIndex found in prove()")
    else:
        g, reg = gs[0]
        # which side reaches the error construction exclusively?
        t_reach = cfg.reachable_incl(g["t"])
        f_reach = cfg.reachable_incl(g["f"])
        err_on_t = all(b in t_reach for b in errb) and not any(b in f_reach for b in errb)
        err_on_f = all(b in f_reach for b in errb) and not any(b in t_reach for b in errb)
        if err_on_t:
            err_region, pass_bb = reg, g["f"]
        elif err_on_f:
            err_region, pass_bb = {"lt", "eq", "gt"} - reg, g["t"]
        else:
            err_region, pass_bb = None, None
        rep.check(err_region == {"eq", "gt"}, "DOM-prove", "prove:error-region",
                  "%s:%s" % (pf["file"], g["line"]),
                  "InvalidProofIndex must be returned exactly when proof_index >= leaves_count; found error region %s (guard %s(%s,%s))"
                  % (sorted(err_region) if err_region else None, g["op"], g["a_desc"], g["b_desc"]))
        # storage reads dominated by pass side
        reads = call_blocks(pf, r"(StorageInspect(Infallible)?::get|::root_node$|storage_map::StorageMap.*::get)")
        rep.floor("DOM-prove", "storage reads in prove", len(reads), 2)
        nd = 0
        for b in reads:
            okk = pass_bb is not None and cfg.dominates(pass_bb, b)
            nd += okk
            if not okk:
                rep.bad("DOM-prove", "prove:read-dominated#%d" % reads.index(b),
                        "%s:%s" % (pf["file"], pf["bbs"][b]["t"][5]),
                        "storage read is not dominated by the proof_index < leaves_count branch")
        if nd == len(reads):
            rep.ok("DOM-prove", "prove:reads-dominated(%d)" % len(reads))
        rep.sample({"prove_guard": "%s(%s,%s)" % (g["op"], g["a_desc"], g["b_desc"]), "error_region": sorted(err_region or [])})

    # ---- side-node lookup priority: the scratch storage (joins recomputed for the *current* leaf count) shadows the
    # persistent store, never the other way round: after reset / load at a smaller count the persistent store still
    # holds nodes of the older, larger tree at positions that are scratch-only now.
    rep.rule("ORDER-prove-lookup", "prove: scratch-storage lookup has priority; persistent storage is only the fallback")
    sg = [i for i, c, args, *_ in calls(pf) if callee_matches(c, r"StorageInspectInfallible<.*>>?::get$") and not describe(pf, args[0], depth=6).startswith("arg:self")]
    pg = [i for i, c, args, *_ in calls(pf) if callee_matches(c, r"^fuel_storage::StorageInspect::get$") and describe(pf, args[0], depth=6) == "arg:self.storage"]
    comb = [(callee_name(c).rsplit("::", 1)[-1], [describe(pf, a, depth=14) for a in args]) for i, c, args, *_ in calls(pf) if callee_matches(c, r"Option::<T>::(or|or_else)$")]
    okp = len(sg) == 1 and len(pg) == 1 and len(comb) == 1
    if okp:
        recv = comb[0][1][0]
        okp = "arg:self.storage" not in recv and re.match(r"^call:get\(call:new\(\)", recv) is not None
        if comb[0][0] == "or":
            okp = okp and "call:get(arg:self.storage" in comb[0][1][1]
    rep.check(okp, "ORDER-prove-lookup", "prove:scratch-first", "%s:%s" % (pf["file"], pf["line"]),
              "the side node must be taken from the scratch storage when present and from self.storage only otherwise; combinators %s" % comb)

    # ---- push ordering
    un, uf = F.find(r"^" + re.escape(pfx) + r"push$", ["fuel_merkle"], one=True)
    rep.saw(un)
    cfg = CFG(uf)
    incs = []
    for i, j, p, rv, line in assignments(uf):
        if first_field_of(p, ADT) == "leaves_count":
            incs.append((i, rv, line))
    cl = call_blocks(uf, r"node::Node::create_leaf$")
    st = call_blocks(uf, r"push_with_callback$")
    if len(incs) != 1 or len(cl) != 1 or len(st) != 1:
        rep.bad("DOM-push", "push:shape", "%s:%s" % (uf["file"], uf["line"]),
                "expected exactly one leaves_count assignment / create_leaf / push_with_callback, found %d/%d/%d"
                % (len(incs), len(cl), len(st)))
    else:
        ib, rv, line = incs[0]
        # value is leaves_count + 1
        d = describe(uf, rv[1]) if rv[0] == "use" else (
            "%s(%s,%s)" % (rv[1], describe(uf, rv[2]), describe(uf, rv[3])) if rv[0] == "bin" else rv[0])
        rep.check(bool(re.search(r"Add(WithOverflow|Unchecked)?\(arg:self\.leaves_count,const:1\)", d)),
                  "DOM-push", "push:increment-by-one", "%s:%s" % (uf["file"], line),
                  "leaves_count must be assigned leaves_count + 1, found %s" % d)
        # create_leaf arg 0 is the pre-increment count
        c_args = uf["bbs"][cl[0]]["t"][2]
        rep.check(describe(uf, c_args[0]) == "arg:self.leaves_count" and cfg.dominates(cl[0], ib) and cl[0] != ib,
                  "DOM-push", "push:create_leaf-uses-preincrement-count", "%s:%s" % (uf["file"], uf["bbs"][cl[0]]["t"][5]),
                  "create_leaf must take self.leaves_count and precede the increment (arg=%s)" % describe(uf, c_args[0]))
        rep.check(cfg.dominates(ib, st[0]), "DOM-push", "push:increment-dominates-stack-push",
                  "%s:%s" % (uf["file"], line), "leaves_count increment must lie on every path to nodes.push_with_callback")
        # no loop around the increment
        rep.check(ib not in cfg.reachable_from(ib), "DOM-push", "push:increment-once", None, "increment lies on a cycle")

    # ---- load identity
    ln, lf = F.find(r"^" + re.escape(pfx) + r"load$", ["fuel_merkle"], one=True)
    rep.saw(ln)
    okid = False
    for i, j, p, rv, line in assignments(lf):
        if rv[0] == "agg" and re.search(ADT, rv[1]):
            names = rv[4]
            ops = dict(zip(names, rv[3]))
            okid = describe(lf, ops["leaves_count"]) == "arg:leaves_count"
    pk = [b for b in call_blocks(lf, r"merkle_tree::peak_positions$")]
    okpk = bool(pk) and describe(lf, lf["bbs"][pk[0]]["t"][2][0]) == "arg:leaves_count"
    rep.check(okid and okpk, "ID-load", "load:leaves_count-identity", "%s:%s" % (lf["file"], lf["line"]),
              "load must store its leaves_count argument and compute peaks from it (field=%s peaks=%s)" % (okid, okpk))
    lfam = [lf] + [cf_ for cn_, cf_ in F.find("^" + re.escape(ln) + r"::\{closure#\d+\}$", ["fuel_merkle"], required=False)]     # loop body may be a map closure
    rep.check(any(bool(agg_blocks(g_, r"MerkleTreeError$", "LoadError")) for g_ in lfam) or any(
        callee_matches(c, r"ok_or") for _, c, *_ in calls(lf)), "ID-load", "load:missing-node-is-error", None,
        "load must fail with LoadError on a missing peak node")

    # ---- wrapper delegation
    wp = "fuel_merkle::binary::in_memory::MerkleTree::"
    for m, target in (("reset", "reset"), ("push", "push"), ("prove", "prove"), ("root", "root")):
        wn, wf = F.find(r"^" + re.escape(wp) + m + "$", ["fuel_merkle"], one=True)
        rep.saw(wn)
        bl = call_blocks(wf, r"^" + re.escape(pfx) + target + "$")
        c = CFG(wf)
        rep.check(bool(bl) and c.must_pass(bl), "WRAP", "in_memory::%s->binary::%s" % (m, target),
                  "%s:%s" % (wf["file"], wf["line"]),
                  "in_memory::MerkleTree::%s must call the storage-backed %s on every path" % (m, target))
