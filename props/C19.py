"""C19 Transaction checking accepts exactly the specification-valid transactions — rule-presence clauses.

  TAB-rule-guards   for every place where the checking code constructs a ValidityError, the *controlling
                    condition* is extracted in a canonical form (fvlib.core.site_guard): comparison -> error region of
                    (a vs b) plus the identifier leaf sets of both operands; boolean call -> callee/operand leaf set and
                    polarity; enum test -> matched variants; `opt.ok_or(E)` / `ok_or_else(|| E)` / `match opt { None => E }`
                    -> none-of(opt); an or-pattern arm with an `if` guard -> the guard of every alternative. The form is
                    free of names of locals and parameters (positional), sees through `let` bindings, iterator/Option
                    plumbing and closures handed to combinators, and a site in a closure carries what the closure
                    iterates over. It is compared with the reviewed table tables/C19_guards.json (one row per
                    function x error variant, written from the specification while reading the code) by
                    fvlib.core.guards_match: same relation / polarity / matched values / constants / arithmetic
                    operators and every reviewed identifier still takes part; when only the control shape was rewritten
                    (loop <-> iterator chain, match <-> ok_or, closure <-> inline, helper extracted) every reviewed
                    identifier must still take part. A rule that is dropped, weakened (`!= 1` -> `any`, `>` -> `>=`,
                    `+ 1`), inverted or attached to another operand is a difference. New rules are reported as
                    information, not as violations.
  MAT-kinds         each transaction kind's check entry still reaches the common rules (check_common_part,
                    per-input and per-output checks) and its own unique rules.
  DOM-into_checked  every IntoChecked::into_checked_basic: precompute(chain_id)? and
                    check_without_signatures(..)? both succeed before Checked::basic is built; the metadata
                    stores the balances returned by initial_free_balances of the same transaction.
  SHAPE-balances    initial_free_balances: inputs summed with checked_add (spendable coins/messages per asset,
                    data messages retryable), the fee limit deducted from the base asset with checked_sub
                    (InsufficientFeeAmount), every coin output deducted with checked_sub
                    (InsufficientInputAmount) from an existing asset (else ...CoinAssetIdNotFound).
  ALG-duplicates     the shared duplicate finder behind DuplicateInputUtxoId / DuplicateInputContractId /
                     DuplicateMessageInputId is a whole-sequence detector (Itertools::duplicates, a set, or sort +
                     neighbour comparison) — a neighbour-only comparison without sorting misses [A, B, A].
Not decided: "accepts exactly" in the other direction (no spurious rejection), arithmetic values.
"""
import json
import os
import re

from fvlib.core import (CFG, CallGraph, agg_blocks, assignments, call_blocks, calls, callee_matches, callee_name,
                        describe, parent_fn, short, site_guard)
from fvlib.summ import ok_sites
from fvlib import tables

VERIF = os.path.dirname(os.path.dirname(os.path.abspath(__file__)))
TABLE = os.path.join(VERIF, "tables", "C19_guards.json")
SKIP = re.compile(r"Clone>::clone$|Visitor|::fmt$|serde|PartialEq|Deserialize|Serialize|::random|test_helper|builder::")


def extract(F):
    out = {}
    for crate in ("fuel_tx", "fuel_vm"):
        for n, f in F.fns(crate).items():
            if SKIP.search(n):
                continue
            blocks = [(i, rv[2], p[0] if len(p) == 1 else None, line) for i, j, p, rv, line in assignments(f) if rv[0] == "agg" and rv[1].endswith("::ValidityError")]
            if not blocks:
                continue
            cfg = CFG(f)
            for b, var, loc, line in blocks:
                if b not in cfg.reach:
                    continue
                for g in site_guard(F, n, f, cfg, b, value_local=loc):
                    out.setdefault("%s @ %s" % (var, short(parent_fn(n))), []).append((g, "%s:%s" % (f["file"], line)))
    return out


def run(F, rep, tier, allfacts):
    cg = CallGraph(F, ["fuel_tx", "fuel_vm", "fuel_types"])
    rep.rule("TAB-rule-guards", "controlling condition of every ValidityError construction == reviewed table row")
    rep.rule("MAT-kinds", "every transaction kind reaches the common, per-input/output and unique rule sets")
    rep.rule("DOM-into_checked", "precompute? and check_without_signatures? precede Checked::basic; metadata from initial_free_balances(self)")
    rep.rule("SHAPE-balances", "checked arithmetic and error mapping of the free-balance computation")
    rep.rule("ALG-duplicates", "next_duplicate (duplicate utxo id / contract id / nonce rules) detects duplicates anywhere in the sequence, not only adjacent ones")
    dn, df = F.find(r"^fuel_tx::transaction::validity::next_duplicate$", ["fuel_tx"], one=True)
    rep.saw(dn)
    dcs = [callee_name(c) for i, c, *_ in calls(df)] + [callee_name(c) for cn, cf in F.find(re.escape(dn) + r"::\{closure#\d+\}$", ["fuel_tx"], required=False) for i, c, *_ in calls(cf)]
    glob = any(re.search(r"Itertools::(duplicates|duplicates_by|counts|counts_by|unique|unique_by|all_unique)$|HashSet.*::insert$|BTreeSet.*::insert$|HashMap.*::(insert|entry)$", x) for x in dcs)
    srt = any(re.search(r"Itertools::sorted\w*$|::sort(_unstable)?(_by\w*)?$", x) for x in dcs)
    adj = [x for x in dcs if re.search(r"Itertools::(dedup\w*|tuple_windows|coalesce)$|slice::<impl \[T\]>::windows$|Vec<.*>::dedup\w*$", x)]
    rep.check(glob or srt or not adj, "ALG-duplicates", "next_duplicate:not-adjacent-only", "%s:%s" % (df["file"], df["line"]),
              "next_duplicate compares only neighbouring items (%s) without sorting first: two equal ids separated by another input of the same kind are not reported" % [x.rsplit("::", 1)[-1] for x in adj])
    if not (glob or srt):
        rep.note("ALG-duplicates: next_duplicate uses neither a known whole-sequence detector nor sort+adjacent comparison; callees %s" % dcs)
    nd = [n_ for n_, i, c, args, line in CallGraph(F, ["fuel_tx"]).callers_of(r"^fuel_tx::transaction::validity::next_duplicate$")]
    rep.check(nd.count("fuel_tx::transaction::validity::check_common_part") == 3, "ALG-duplicates", "check_common_part:three-duplicate-rules-use-it", None, "callers %s" % nd)

    got = extract(F)
    if os.environ.get("FV_WRITE_TABLES") == "1":
        os.makedirs(os.path.dirname(TABLE), exist_ok=True)
        rows = {}
        for k, v in got.items():
            u = {json.dumps(d, sort_keys=True): d for d, _ in v}
            rows[k] = [u[x] for x in sorted(u)]
        json.dump(rows, open(TABLE, "w"), indent=1, sort_keys=True)
    want = json.load(open(TABLE))
    rep.floor("TAB-rule-guards", "rule rows extracted", len(got), 60)
    tables.compare(rep, "TAB-rule-guards", want, got, missing_is_violation=True, new_is_violation=False, what="validity rule")
    rep.sample({k: [d for d, _ in got[k]] for k in sorted(got)[:6]})

    # ---------------- kinds
    kinds = {"script": "ScriptBody", "create": "CreateBody", "upgrade": "UpgradeBody", "upload": "UploadBody", "blob": "BlobBody"}
    entry = F.find(r"FormatValidityChecks for .*ChargeableTransaction<Body, MetadataBody>>::check_without_signatures$|<fuel_tx::transaction::types::chargeable_transaction::ChargeableTransaction<Body, MetadataBody> as fuel_tx::transaction::validity::FormatValidityChecks>::check_without_signatures$", ["fuel_tx"], required=False)
    for n, f in entry:
        rep.saw(n)
        cfg = CFG(f)
        oks = ok_sites(f, cfg)
        cc = call_blocks(f, r"validity::check_common_part$")
        cu = call_blocks(f, r"UniqueFormatValidityChecks.*::check_unique_rules$")
        rep.check(bool(cc) and bool(cu) and cfg.must_pass(cc, 0, oks) and cfg.must_pass(cu, 0, oks), "MAT-kinds", "chargeable:common+unique", "%s:%s" % (f["file"], f["line"]),
                  "check_without_signatures must run check_common_part and the kind's check_unique_rules on every accepting path")
    rep.floor("MAT-kinds", "generic check_without_signatures", len(entry), 1)
    cp_n, cp = F.find(r"^fuel_tx::transaction::validity::check_common_part$", ["fuel_tx"], one=True)
    reach = cg.reachable([cp_n], stop=lambda x: not x.lstrip("<").startswith("fuel_tx::"))
    for need in (r"validity::<impl fuel_tx::transaction::types::input::Input>::check_without_signature$", r"validity::<impl fuel_tx::transaction::types::output::Output>::check$",
                 r"validity::check_size$", r"validity::check_owner$"):
        rep.check(any(re.search(need, r) for r in reach), "MAT-kinds", "common-reaches:" + need.split("::")[-1].rstrip("$"), "%s:%s" % (cp["file"], cp["line"]),
                  "check_common_part no longer reaches " + need)
    uniq = F.find(r"UniqueFormatValidityChecks for fuel_tx::transaction::types::chargeable_transaction::ChargeableTransaction<.*>>::check_unique_rules$", ["fuel_tx"], required=False)
    rep.floor("MAT-kinds", "check_unique_rules impls", len(uniq), 5)

    # ---------------- into_checked_basic
    ics = [(n, f) for n, f in F.find(r"IntoChecked for .*>::into_checked_basic$", ["fuel_vm"]) if "fuel_tx::Transaction as" not in n]
    rep.floor("DOM-into_checked", "into_checked_basic impls", len(ics), 6)
    for n, f in ics:
        rep.saw(n)
        cfg = CFG(f)
        kind = re.search(r"types::(\w+)::", n).group(1)
        where = "%s:%s" % (f["file"], f["line"])

        def qcall(rx):
            out = []
            for i, c, a, d, tgt, l in calls(f):
                if callee_matches(c, rx):
                    used = tgt is not None and f["bbs"][tgt]["t"][0] == "call" and callee_matches(f["bbs"][tgt]["t"][1], r"Try(<[^>]*>)?>?::branch$|map_err$")
                    out.append((i, used, [describe(f, x, depth=8) for x in a]))
            return out
        pre = qcall(r"Cacheable.*::precompute$")
        chk = qcall(r"FormatValidityChecks.*::check_without_signatures$")
        bas = call_blocks(f, r"checked_transaction::Checked::<Tx>::basic$")
        ok = len(pre) == 1 and len(chk) == 1 and len(bas) == 1 and pre[0][1] and chk[0][1] and cfg.dominates(pre[0][0], chk[0][0]) and cfg.dominates(chk[0][0], bas[0]) \
            and chk[0][2][1] == "arg:block_height" and chk[0][2][2] == "arg:consensus_params"
        rep.check(ok, "DOM-into_checked", kind + ":precompute?->check?->Checked::basic", where,
                  "into_checked_basic must precompute, then run check_without_signatures(block_height, consensus_params), propagate both errors, and only then build Checked::basic; precompute=%s check=%s" % (pre, chk))
        if kind != "mint":
            ifb = [(i, a) for i, u, a in qcall(r"balances::initial_free_balances$")]
            okb = len(ifb) == 1 and ifb[0][1][0] == "arg:self" and "base_asset_id(arg:consensus_params)" in ifb[0][1][1] and bas and cfg.dominates(ifb[0][0], bas[0])
            md = [dict(zip(rv[4], [describe(f, o, depth=12) for o in rv[3]])) for i, j, p, rv, line in assignments(f) if rv[0] == "agg" and rv[1].endswith("CheckedMetadata")]
            okm = len(md) == 1 and ("initial_free_balances(" in md[0].get("non_retryable_balances", "") and "initial_free_balances(" in str(md[0].get("retryable_balance", ""))
                                     or "initial_free_balances(" in md[0].get("free_balances", ""))
            rep.check(okb and okm, "DOM-into_checked", kind + ":metadata.balances=initial_free_balances(self)", where,
                      "the recorded free balances must be those computed by initial_free_balances(&self, base_asset_id); found call=%s metadata=%s" % (ifb, md))

    # ---------------- balances shape
    B = "fuel_vm::checked_transaction::balances::"
    n, f = F.find(r"^" + re.escape(B) + r"initial_free_balances$", ["fuel_vm"], one=True)
    rep.saw(n)
    cfg = CFG(f)
    order = [call_blocks(f, r"balances::add_up_input_balances$"), call_blocks(f, r"balances::deduct_max_fee_from_base_asset$"), call_blocks(f, r"balances::reduce_free_balances_by_coin_outputs$")]
    ok = all(len(x) == 1 for x in order) and cfg.dominates(order[0][0], order[1][0]) and cfg.dominates(order[1][0], order[2][0])
    rep.check(ok, "SHAPE-balances", "initial:add->deduct-fee->deduct-coin-outputs", "%s:%s" % (f["file"], f["line"]), "initial_free_balances must add inputs, deduct the fee limit, deduct coin outputs")
    if ok:
        a = [describe(f, x, depth=10) for x in f["bbs"][order[1][0]]["t"][2]]
        rep.check("MaxFee" in a[2] and a[1] == "arg:base_asset_id", "SHAPE-balances", "fee=policies.MaxFee-from-base-asset", "%s:%s" % (f["file"], f["line"]), "found %s" % a)
    n, f = F.find(r"^" + re.escape(B) + r"deduct_max_fee_from_base_asset$", ["fuel_vm"], one=True)
    cs = [[describe(f, x, depth=8) for x in args] for i, c, args, *_ in calls(f) if callee_matches(c, r"::checked_sub$")]
    rep.check(len(cs) == 1 and cs[0][1] == "arg:max_fee" and bool(agg_blocks(f, r"ValidityError$", "InsufficientFeeAmount")) and "base_asset_id" in cs[0][0], "SHAPE-balances", "fee:checked_sub(max_fee)-else-InsufficientFeeAmount",
              "%s:%s" % (f["file"], f["line"]), "found %s" % cs)
    n, f = F.find(r"^" + re.escape(B) + r"reduce_free_balances_by_coin_outputs$", ["fuel_vm"], one=True)
    cs = [[describe(f, x, depth=8) for x in args] for i, c, args, *_ in calls(f) if callee_matches(c, r"::checked_sub$")]
    gm = [[describe(f, x, depth=8) for x in args] for i, c, args, *_ in calls(f) if callee_matches(c, r"BTreeMap.*::get_mut$")]
    rep.check(len(cs) == 1 and len(gm) == 1 and bool(agg_blocks(f, r"ValidityError$", "InsufficientInputAmount")) and bool(agg_blocks(f, r"ValidityError$", "TransactionOutputCoinAssetIdNotFound")),
              "SHAPE-balances", "coin-outputs:checked_sub-else-InsufficientInputAmount", "%s:%s" % (f["file"], f["line"]), "found sub=%s get=%s" % (cs, gm))
    n, f = F.find(r"^" + re.escape(B) + r"add_up_input_balances$", ["fuel_vm"], one=True)
    adds = [[describe(f, x, depth=8) for x in args] for i, c, args, *_ in calls(f) if callee_matches(c, r"::checked_add$")]
    ents = [[describe(f, x, depth=8) for x in args] for i, c, args, *_ in calls(f) if callee_matches(c, r"BTreeMap.*::entry$")]
    rep.check(len(adds) == 3 and len(ents) == 2 and sum(1 for e in ents if "base_asset_id" in e[1]) == 1 and sum(1 for e in ents if "asset_id" in e[1] and "base_asset_id" not in e[1]) == 1, "SHAPE-balances",
              "inputs:coins-by-asset,messages-to-base,data-messages-retryable", "%s:%s" % (f["file"], f["line"]), "found adds=%s entries=%s" % (adds, ents))
