"""C27 Assets are conserved by every script execution — pairing clauses.

  PAIR-movement     in transfer (TR), transfer_output (TRO), prepare_call (CALL), mint, burn and
                    message_output (SMO): on every path to the receipt push exactly one debit (contract
                    balance decrease or free-balance subtraction) and — where the instruction has one — the
                    credit have been executed; debit, credit and receipt use the *same* amount operand and
                    the same asset id operand; the receipt is pushed after both.
  MIRROR-balances   the only functions that change a free balance value are Balance::checked_add/sub, called
                    only from RuntimeBalances::checked_balance_add/sub whose result is mirrored into VM memory
                    by set_memory_balance_inner in the same expression; `state` is otherwise written only by
                    the constructor and the AsMut escape hatch, whose only library caller is the state-diff
                    utility (which restores memory separately).
  GUARD-variable    replace_variable_output only fills an *unused* variable output (amount == 0) and only
                    with a variable output; TRO writes the output into the tx image afterwards.
  SHAPE-mint-burn   mint adds / burn subtracts exactly `a` with checked arithmetic (BalanceOverflow /
                    NotEnoughBalance) on the internal contract's own (contract, sub-asset) balance.
Not decided: the ledger equation as an arithmetic identity, change/refund arithmetic (see C18/C28).
"""
import re

from fvlib.core import (CFG, CallGraph, agg_blocks, assignments, call_blocks, calls, callee_matches, callee_name,
                        describe, guards, guard_region, short, origins)
from fvlib.effects import FieldEffects
from fvlib.summ import ok_sites, path_minmax

MOVES = {
    # fn regex: (debit callees with (amount idx, asset idx), credit callee (amount idx, asset idx) or None, receipt ctor (amount idx, asset idx or None))
    r"^fuel_vm::interpreter::contract::TransferCtx::<'_, S, Tx, V>::transfer$":
        ([("balance_decrease", 3, 2), ("external_asset_id_balance_sub", 3, 2)], ("balance_increase", 3, 2), ("Receipt::transfer", 2, 3)),
    r"^fuel_vm::interpreter::contract::TransferCtx::<'_, S, Tx, V>::transfer_output$":
        ([("balance_decrease", 3, 2), ("external_asset_id_balance_sub", 3, 2)], ("Output::variable", 1, 2), ("Receipt::transfer_out", 2, 3)),
    r"^fuel_vm::interpreter::flow::PrepareCallCtx::<'_, S, V>::prepare_call$":
        ([("balance_decrease", 3, 2), ("external_asset_id_balance_sub", 3, 2)], ("balance_increase", 3, 2), ("Receipt::call", 2, 3)),
    r"^fuel_vm::interpreter::blockchain::MessageOutputCtx::<'_, S>::message_output$":
        ([("balance_decrease", 3, 2), ("base_asset_balance_sub", 3, 0)], None, ("Receipt::message_out", 4, None)),
}


def run(F, rep, tier, allfacts):
    cg = CallGraph(F, ["fuel_vm"])
    rep.rule("PAIR-movement", "debit (exactly one) + credit precede the receipt; same amount and asset operands in all three")
    rep.rule("MIRROR-balances", "free-balance mutations only via checked_balance_* which mirror into memory; AsMut escape only used by the diff utility")
    rep.rule("GUARD-variable", "variable outputs are filled only when unused (amount == 0)")
    rep.rule("SHAPE-mint-burn", "mint/burn use checked add/sub of `a` on the internal contract's balance")

    for rx, (debits, credit, receipt) in MOVES.items():
        n, f = F.find(rx, ["fuel_vm"], one=True)
        rep.saw(n)
        cfg = CFG(f)
        where = "%s:%s" % (f["file"], f["line"])
        nm = n.rsplit("::", 1)[-1]

        def sites(name):
            return [(i, args) for i, c, args, *_ in calls(f) if callee_name(c).endswith("::" + name.split("::")[-1]) and (("::" not in name) or name.split("::")[0] in callee_name(c))]
        rc = sites(receipt[0])
        push = call_blocks(f, r"ReceiptsCtx::push$")
        if len(rc) != 1 or len(push) != 1:
            rep.bad("PAIR-movement", nm + ":receipt-shape", where, "expected one %s construction and one receipts.push; found %d/%d" % (receipt[0], len(rc), len(push)))
            continue
        ramt = describe(f, rc[0][1][receipt[1]], depth=12)
        rasset = describe(f, rc[0][1][receipt[2]], depth=12) if receipt[2] is not None else None
        dsites = []
        for dn, ai, si in debits:
            for i, args in sites(dn):
                dsites.append((i, dn, describe(f, args[ai], depth=12), describe(f, args[si], depth=12)))
        w = {i: (1, 1) for i, *_ in dsites}
        mm = path_minmax(cfg, w, {push[0]})
        rep.check(len(dsites) == len(debits) and mm == (1, 1), "PAIR-movement", nm + ":exactly-one-debit-before-receipt", where,
                  "every path to the receipt must pass exactly one debit; debits=%s min/max=%s" % ([(d[1]) for d in dsites], mm))
        rep.check(all(d[2] == ramt for d in dsites), "PAIR-movement", nm + ":debit-amount==receipt-amount", where,
                  "debit amounts %s differ from the receipt amount %s" % ([d[2] for d in dsites], ramt))
        if rasset is not None:
            rep.check(all(d[3] == rasset or d[1] == "base_asset_balance_sub" for d in dsites), "PAIR-movement", nm + ":debit-asset==receipt-asset", where,
                      "debit asset ids %s differ from the receipt asset id %s" % ([d[3] for d in dsites], rasset))
        else:
            rep.check(all("base_asset_id" in d[3] for d in dsites), "PAIR-movement", nm + ":debit-is-base-asset", where,
                      "message output must debit the base asset; found %s" % [d[3] for d in dsites])
        if credit is not None:
            cs = sites(credit[0])
            okc = len(cs) == 1 and describe(f, cs[0][1][credit[1]], depth=12) == ramt and describe(f, cs[0][1][credit[2]], depth=12) == rasset \
                and cfg.must_pass([cs[0][0]], 0, [push[0]])
            rep.check(okc, "PAIR-movement", nm + ":credit(same amount, same asset)-before-receipt", where,
                      "credit %s must use the receipt's amount/asset and precede it; found %s" % (credit[0], [[describe(f, a, depth=8) for a in c[1]] for c in cs]))
            if credit[0] == "Output::variable":
                sv = [(i, [describe(f, a, depth=8) for a in args]) for i, c, args, *_ in calls(f) if callee_matches(c, r"internal::set_variable_output$")]
                rep.check(len(sv) == 1 and sv[0][1][4].startswith("call:variable(") and cfg.must_pass([sv[0][0]], 0, [push[0]]), "PAIR-movement", nm + ":output-installed-before-receipt", where,
                          "the variable output built from (to, amount, asset) must be installed with set_variable_output before the receipt")
        rep.check(cfg.must_pass([rc[0][0]], 0, [push[0]]) and "(" in describe(f, f["bbs"][push[0]]["t"][2][1], depth=4), "PAIR-movement", nm + ":receipt-pushed", where,
                  "the receipt built must be the one pushed")
        rep.sample({"fn": nm, "amount": ramt, "asset": rasset, "debits": [d[1] for d in dsites]})

    # ---------------- mint / burn
    for nm, op, err, setter in (("mint", "checked_add", "BalanceOverflow", "contract_asset_id_balance_replace"), ("burn", "checked_sub", "NotEnoughBalance", "contract_asset_id_balance_insert")):
        n, f = F.find(r"^fuel_vm::interpreter::blockchain::%sCtx::<'_, S>::%s$" % (nm.capitalize(), nm), ["fuel_vm"], one=True)
        rep.saw(n)
        cfg = CFG(f)
        where = "%s:%s" % (f["file"], f["line"])
        ar = [[describe(f, a, depth=12) for a in args] for i, c, args, *_ in calls(f) if callee_matches(c, r"::%s$" % op)]
        st = [(i, [describe(f, a, depth=14) for a in args]) for i, c, args, *_ in calls(f) if callee_matches(c, r"ContractsAssetsStorage::%s$" % setter)]
        rc = [(i, [describe(f, a, depth=10) for a in args]) for i, c, args, *_ in calls(f) if callee_matches(c, r"Receipt::%s$" % nm)]
        push = call_blocks(f, r"ReceiptsCtx::push$")
        ok = len(ar) == 1 and ar[0][1] == "arg:a" and "balance(" in ar[0][0] and len(st) == 1 and ("%s(" % op) in st[0][1][3] and err in st[0][1][3] \
            and "internal_contract(" in st[0][1][1] and len(rc) == 1 and rc[0][1][2] == "arg:a" and len(push) == 1 and cfg.must_pass([st[0][0]], 0, push)
        rep.check(ok, "SHAPE-mint-burn", nm, where,
                  "%s must store balance.%s(a) (else %s) for the internal contract before pushing Receipt::%s(.., a, ..); arith=%s store=%s receipt=%s"
                  % (nm, op, err, nm, ar, [s[1][1:] for s in st], [r[1][:3] for r in rc]))
        # same (contract, asset) read and written
        bl = [[describe(f, a, depth=14) for a in args] for i, c, args, *_ in calls(f) if callee_matches(c, r"interpreter::contract::balance$")]
        rep.check(len(bl) == 1 and len(st) == 1 and bl[0][1] == st[0][1][1] and bl[0][2] == st[0][1][2], "SHAPE-mint-burn", nm + ":same-key-read-and-written", where,
                  "the balance read and the balance written must be the same (contract, asset); read=%s write=%s" % (bl, [s[1][1:3] for s in st]))

    # ---------------- mirror
    bal = "fuel_vm::interpreter::balances::"
    for meth in ("checked_add", "checked_sub"):
        callers = sorted({n for n, i, c, args, line in cg.callers_of(r"^" + re.escape(bal) + "Balance::" + meth + "$")})
        ok = all(re.match(r"^" + re.escape(bal) + r"RuntimeBalances::checked_balance_(add|sub)::\{closure#0\}$", c) or
                 re.match(r"^" + re.escape(bal) + r"RuntimeBalances::try_from_iter", c) for c in callers)
        rep.check(ok, "MIRROR-balances", "callers-of-Balance::" + meth, None, "Balance::%s called outside checked_balance_*/constructor: %s" % (meth, callers))
    n, f = F.find(r"^" + re.escape(bal) + r"RuntimeBalances::checked_balance_sub$", ["fuel_vm"], one=True)
    rep.saw(n)
    clos = [cn for cn, cf in cg.fns.items() if cf["kind"] == "Closure" and cf.get("parent") == n]
    mirror = [cn for cn in clos if call_blocks(cg.fns[cn], r"RuntimeBalances::set_memory_balance_inner$")]
    maps = [[describe(f, a, depth=8) for a in args] for i, c, args, *_ in calls(f) if callee_matches(c, r"Option.*::map$")]
    # the decreased balance (result of the checked_sub in the and_then closure) is what is mirrored: through `.map(|b| set_memory_balance_inner(b, ..))`
    # or directly `set_memory_balance_inner(updated, memory)` with `updated` taken from that and_then(..)
    direct = [[describe(f, a, depth=14) for a in args] for i, c, args, *_ in calls(f) if callee_matches(c, r"RuntimeBalances::set_memory_balance_inner$")]
    ok_closure = len(mirror) == 1 and len(maps) >= 1 and any("and_then(" in m[0] for m in maps)
    ok_direct = len(direct) == 1 and "and_then(" in direct[0][0] and not mirror
    rep.check(ok_closure or ok_direct, "MIRROR-balances", "checked_balance_sub:mirrors-into-memory",
              "%s:%s" % (f["file"], f["line"]), "the decreased balance must be written to VM memory (set_memory_balance_inner) in the same expression")
    sn, sf = F.find(r"^" + re.escape(bal) + r"RuntimeBalances::set_memory_balance_inner$", ["fuel_vm"], one=True)
    w = [[describe(sf, a, depth=10) for a in args] for i, c, args, *_ in calls(sf) if callee_matches(c, r"write_bytes_noownerchecks$")]
    rep.check(len(w) == 1 and "saturating_add(call:offset(arg:balance)" in w[0][1] and "AssetId::LEN" in w[0][1] and "to_be_bytes(call:value(arg:balance))" in w[0][2],
              "MIRROR-balances", "memory-entry=(offset+32, value.to_be_bytes())", "%s:%s" % (sf["file"], sf["line"]),
              "the mirrored word must be balance.value() in big-endian at balance.offset() + AssetId::LEN; found %s" % w)
    fe = FieldEffects(cg, r"^" + re.escape(bal) + r"RuntimeBalances$", re.escape(bal) + "RuntimeBalances")
    allowed = re.compile(r"RuntimeBalances::(try_from_iter|checked_balance_add|checked_balance_sub)|as std::convert::AsMut<|as std::convert::TryFrom")
    for m, ws in sorted(fe.direct.items()):
        for (bb, fld, kind, line) in ws:
            if fld == "state":
                rep.check(bool(allowed.search(m)), "MIRROR-balances", "state-writer:" + short(m), "%s:%s" % (cg.fns[m]["file"], line),
                          "RuntimeBalances.state is mutated by %s without the memory mirror" % m)
    am = [n for n, i, c, args, line in cg.callers_of(r"^<fuel_vm::interpreter::balances::RuntimeBalances as std::convert::AsMut<.*>>::as_mut$")]
    rep.check(all("::diff::" in a for a in am), "MIRROR-balances", "as_mut-callers", None, "RuntimeBalances::as_mut used outside the state-diff utility: %s" % am)
    rep.floor("MIRROR-balances", "as_mut callers (diff utility)", len(am), 1)

    # ---------------- variable output guard
    n, f = F.find(r"^fuel_vm::interpreter::ExecutableTransaction::replace_variable_output$", ["fuel_vm"], one=True)
    rep.saw(n)
    cfg = CFG(f)
    where = "%s:%s" % (f["file"], f["line"])
    iv = call_blocks(f, r"Output::is_variable$")
    eb = agg_blocks(f, r"PanicReason$", "ExpectedOutputVariable")
    rp = []
    okz = False
    for cn, cf in cg.fns.items():
        if cf["kind"] == "Closure" and cf.get("parent") == n:
            if call_blocks(cf, r"mem::replace$"):
                rp.append(cn)
            ccfg = CFG(cf)
            some = agg_blocks(cf, r"option::Option$", "Some")
            for g in guards(cf):
                reg = guard_region(g, r"amount", r"^const:0$|^const:\[?0")
                if reg is not None and some:
                    eq_side = g["t"] if reg == {"eq"} else (g["f"] if reg == {"lt", "gt"} else None)
                    ne_side = g["f"] if eq_side == g["t"] else g["t"]
                    okz = eq_side is not None and any(b in ccfg.reachable_incl(eq_side) for b in some) and not any(b in ccfg.reachable_incl(ne_side) for b in some)
    rep.check(bool(iv and eb and rp), "GUARD-variable", "replace:variable-only+replace", where, "replace_variable_output must reject non-variable outputs and mem::replace the slot")
    rep.check(okz, "GUARD-variable", "replace:only-unused-slot(amount==0)", where,
              "a variable output may be filled only while its amount is 0: otherwise a second TRO to the same index overwrites (destroys) the first transfer")
    sn, sf = F.find(r"^fuel_vm::interpreter::internal::set_variable_output$", ["fuel_vm"], one=True)
    scfg = CFG(sf)
    a = call_blocks(sf, r"::replace_variable_output$")
    b = call_blocks(sf, r"internal::update_memory_output$")
    rep.check(bool(a and b) and scfg.dominates(a[0], b[0]) and scfg.must_pass(b, 0, ok_sites(sf, scfg)), "GUARD-variable", "set_variable_output:tx-then-memory", "%s:%s" % (sf["file"], sf["line"]),
              "set_variable_output must update the transaction and then its image in VM memory")
