"""C08 Instruction encoding is a bijection on valid 32-bit words — bit-provenance proof of the argument layouts plus
table agreement of the opcode byte.

  BIT-roundtrip   for every op struct X in fuel_asm::_op (127): abstract interpretation of X::new, X::unpack and
                  X::reserved_part_is_zero over the bit-provenance domain (fvlib.bits: every bit is 0, 1, "bit j of
                  input k" or unknown) shows, for ALL argument values at once,
                    (1) unpack(new(a1..an)) = (a1..an) bit for bit (each register 6 bits, Imm06/12/18/24);
                    (2) for an arbitrary 24-bit argument word w: new(unpack(w)) reproduces every bit of w in the
                        positions the arguments occupy and writes 0 elsewhere;
                    (3) reserved_part_is_zero(w) tests exactly the complementary bit positions (or is constant
                        true when there are none);
                    (4) argument bits + reserved bits = 24.
                  (1)-(4) give: decoding succeeds iff the unused bits are zero, and re-encoding returns the word.
                  An operation outside the domain makes the value unknown and the obligation fails (fail closed).
  BIT-newtypes    RegId::new / Imm06::new / Imm12::new / Imm18::new / Imm24::new keep exactly the low 6/6/12/18/24
                  bits and zero the rest (the "masked by construction" invariant the packers rely on).
  TAB-opcode      Opcode::try_from(u8): arm v -> Ok(Opcode::X) exactly for X with discriminant v (all variants, no
                  extras), otherwise Err. Instruction::try_from([u8;4]): arm v builds op::X([a,b,c]) for the same X,
                  rejects when !X::reserved_part_is_zero(), and wraps it in Instruction::X. From<X> for [u8;4] puts
                  X::OPCODE (the same discriminant) in byte 0 followed by the three argument bytes in order;
                  From<Instruction> for [u8;4] dispatches every variant to that conversion; Instruction::opcode()
                  maps X -> Opcode::X.
  TAB-interpreter execute_instruction has one arm per Opcode variant; arm X parses with op::X::from_raw_args(raw_args)
                  (which rejects non-zero reserved bits via the same reserved_part_is_zero) and runs
                  <op::X as Execute>::execute.
Not decided: nothing numeric is left for the argument layouts; the typed accessor sugar (X::ra() ...) and the
`op::x(...)` free constructors' range panics on out-of-range literals are outside the property.
"""
import re

from fvlib.core import CFG, assignments, calls, callee_matches, callee_name, describe, short
from fvlib.bits import Interp, T, flatten, sym_int

LIVE = {"fuel_asm::RegId": (8, 6), "fuel_asm::Imm06": (8, 6), "fuel_asm::Imm12": (16, 12), "fuel_asm::Imm18": (32, 18), "fuel_asm::Imm24": (32, 24)}
LEVEL = "other"
TECHNIQUE = "static analysis over rustc MIR: abstract interpretation over a bit-provenance domain (argument layouts) + switch-table agreement rules"


def sym_arg(ty, name):
    w, live = LIVE[ty]
    return ("struct", ty, {0: sym_int(name, w, live)})


def word_bits(v):
    """24 bits (big-endian byte order: index 0 = most significant bit of byte 0 ... ) of a struct{0: [u8;3]} value -> list of 24 bit terms keyed (byte, bit)"""
    if v == T or v[0] != "struct":
        return None
    arr = v[2].get(0, T)
    if arr == T or arr[0] != "array" or len(arr[1]) != 3:
        return None
    out = {}
    for bi, b in enumerate(arr[1]):
        if b == T or b[0] != "int" or b[1] != 8:
            return None
        for j, x in enumerate(b[2]):
            out[(bi, j)] = x
    return out


def run(F, rep, tier, allfacts):
    rep.rule("BIT-roundtrip", "per op struct: unpack∘new = id; new∘unpack = id on argument bits, 0 elsewhere; reserved test = complement; bits add to 24")
    rep.rule("BIT-newtypes", "RegId/Imm*::new mask to exactly the low 6/6/12/18/24 bits")
    rep.rule("TAB-opcode", "Opcode/Instruction decode tables = Opcode discriminants; encoders write the same discriminant")
    rep.rule("TAB-interpreter", "execute_instruction: arm X -> op::X::from_raw_args -> <op::X as Execute>::execute")

    I = Interp(F, ("fuel_asm",))
    fa = F.fns("fuel_asm")
    opc = F.adt("fuel_asm::Opcode")
    disc = {}
    for v in opc["variants"]:
        disc[v["name"]] = v["discr"]
    rep.floor("TAB-opcode", "Opcode variants", len(disc), 127)
    rep.check(len(set(disc.values())) == len(disc) and all(isinstance(d, int) and 0 <= d < 256 for d in disc.values()), "TAB-opcode", "discriminants-distinct-u8", None, "Opcode discriminants must be distinct bytes")

    # ---------------- newtypes
    for ty, (w, live) in LIVE.items():
        fn = ty + "::new"
        r = I.call(fn, [sym_int("u", w)])
        ok = r != T and r[0] == "struct" and r[2].get(0, T) != T and r[2][0][0] == "int" and \
            r[2][0][2] == [("b", "u", i) if i < live else 0 for i in range(w)]
        rep.check(ok, "BIT-newtypes", fn.replace("fuel_asm::", ""), "%s:%s" % (fa[fn]["file"], fa[fn]["line"]) if fn in fa else None,
                  "%s must keep exactly the low %d bits of its argument and zero the rest; abstract result %s" % (fn, live, r if r == T else r[2].get(0)))

    # ---------------- per op struct
    nops = 0
    layouts = {}
    for X in sorted(disc):
        pfx = "fuel_asm::_op::%s::" % X
        new, unp, res, raw = fa.get(pfx + "new"), fa.get(pfx + "unpack"), fa.get(pfx + "reserved_part_is_zero"), fa.get(pfx + "from_raw_args")
        if new is None or res is None or raw is None:
            rep.bad("BIT-roundtrip", "%s:methods-present" % X, None, "op struct %s lacks new/reserved_part_is_zero/from_raw_args" % X)
            continue
        nops += 1
        where = "%s:%s (impl_instructions! %s)" % (new["file"], new["line"], X)
        tys = new["locals"][1:new["argc"] + 1]
        if any(t not in LIVE for t in tys):
            rep.bad("BIT-roundtrip", "%s:argument-types" % X, where, "unexpected constructor argument types %s" % tys)
            continue
        names = ["a%d" % i for i in range(len(tys))]
        args = [sym_arg(t, nm) for t, nm in zip(tys, names)]
        packed = I.call(pfx + "new", args)
        wb = word_bits(packed)
        if wb is None:
            rep.bad("BIT-roundtrip", "%s:new-evaluates" % X, where, "abstract evaluation of %snew left the bit domain: %s" % (pfx, packed))
            continue
        # (1) unpack(new(args)) == args
        if tys:
            if unp is None:
                rep.bad("BIT-roundtrip", "%s:unpack-present" % X, where, "op with arguments has no unpack()")
                continue
            back = I.call(pfx + "unpack", [packed])
            fl = flatten(back) if back != T else None
            want = []
            for t, nm in zip(tys, names):
                w, live = LIVE[t]
                want.append([("b", nm, i) if i < live else 0 for i in range(w)])
            got = [bits for _, _, bits in fl] if fl else None
            rep.check(got == want, "BIT-roundtrip", "%s:unpack(new(x))=x" % X, where,
                      "%s: unpack(new(args)) must return every argument bit for bit; first mismatch %s" % (X, first_mismatch(got, want)))
        # (2) new(unpack(w)) on an arbitrary word
        w = ("struct", "fuel_asm::_op::" + X, {0: ("array", [sym_int("w%d" % i, 8) for i in range(3)])})
        if tys:
            un = I.call(pfx + "unpack", [w])
            parts = []
            if un != T and un[0] == "tuple":
                parts = list(un[1])
            elif un != T:
                parts = [un]
            re_ = I.call(pfx + "new", parts) if parts and len(parts) == len(tys) else T
        else:
            re_ = I.call(pfx + "new", [])
        rb = word_bits(re_)
        if rb is None:
            rep.bad("BIT-roundtrip", "%s:new(unpack(w))-evaluates" % X, where, "abstract evaluation left the bit domain: %s" % (re_,))
            continue
        used, zero, wrong = set(), set(), []
        for (bi, j), x in rb.items():
            if x == ("b", "w%d" % bi, j):
                used.add((bi, j))
            elif x == 0:
                zero.add((bi, j))
            else:
                wrong.append(((bi, j), x))
        rep.check(not wrong, "BIT-roundtrip", "%s:new(unpack(w))=w-on-argument-bits" % X, where,
                  "%s: re-encoding a decoded word must reproduce each bit in place or write 0; offending bits %s" % (X, wrong[:4]))
        # (3) reserved test
        rz = I.call(pfx + "reserved_part_is_zero", [w])
        if rz != T and rz[0] == "int" and rz[1] == 1 and rz[2] == [1]:
            tested = set()
        elif rz != T and rz[0] == "eq0":
            tested = set()
            okbits = True
            for x in rz[1]:
                m = isinstance(x, tuple) and x[0] == "b" and re.match(r"^w(\d)$", x[1])
                if not m:
                    okbits = False
                    break
                tested.add((int(m.group(1)), x[2]))
            if not okbits:
                tested = None
        else:
            tested = None
        rep.check(tested is not None and tested == zero, "BIT-roundtrip", "%s:reserved-test=complement" % X, where,
                  "%s: reserved_part_is_zero must test exactly the %d bits no argument occupies; tests %s, unused %s" %
                  (X, len(zero), "?" if tested is None else len(tested), sorted(zero ^ (tested or set()))[:6]))
        # (4) count
        argbits = sum(LIVE[t][1] for t in tys)
        rep.check(len(used) == argbits and len(used) + len(zero) == 24, "BIT-roundtrip", "%s:bits-add-up" % X, where,
                  "%s: %d argument bits expected, %d word bits carry arguments, %d reserved" % (X, argbits, len(used), len(zero)))
        layouts[X] = tuple(t.rsplit("::", 1)[-1] for t in tys)
        # from_raw_args shape
        c = [callee_name(cc) for i, cc, *_ in calls(raw)]
        agg = [rv[1] for i, j, p, rv, line in assignments(raw) if rv[0] == "agg" and rv[1].endswith("::_op::" + X)]
        rep.check(c == [pfx + "reserved_part_is_zero"] and len(agg) == 1 and from_raw_ok(raw), "TAB-interpreter", "%s::from_raw_args" % X, where,
                  "from_raw_args must build Self(args) and return Err exactly when !reserved_part_is_zero(); calls %s" % c)
    rep.floor("BIT-roundtrip", "op structs verified", nops, 127)
    rep.sample({"layouts": sorted({"%s" % (",".join(v) or "-") for v in layouts.values()})})

    # ---------------- Opcode::try_from
    n, f = F.find(r"^<fuel_asm::Opcode as std::convert::TryFrom<u8>>::try_from$", ["fuel_asm"], one=True)
    rep.saw(n)
    t = f["bbs"][0]["t"]
    got = {}
    okshape = t[0] == "switch" and describe(f, t[1]) == "arg:u"
    if okshape:
        for v, tg in t[2]:
            mk = [s[2][2] for s in f["bbs"][tg]["s"] if s[0] == "=" and s[2][0] == "agg" and s[2][1] == "fuel_asm::Opcode"]
            oks = [s for s in f["bbs"][tg]["s"] if s[0] == "=" and s[1] == [0] and s[2][0] == "agg" and s[2][2] == "Ok"]
            got[v] = mk[0] if len(mk) == 1 and len(oks) == 1 else None
        other = [s[2][2] for s in f["bbs"][t[3]]["s"] if s[0] == "=" and s[1] == [0] and s[2][0] == "agg"]
        okshape = other == ["Err"]
    want = {d: nm for nm, d in disc.items()}
    rep.check(okshape and got == want, "TAB-opcode", "Opcode::try_from=discriminant-table", "%s:%s" % (f["file"], f["line"]),
              "byte -> Opcode table differs from the enum discriminants: %s" % table_diff(got, want))

    # ---------------- Instruction::try_from
    n, f = F.find(r"^<fuel_asm::Instruction as std::convert::TryFrom<\[u8; 4\]>>::try_from$", ["fuel_asm"], one=True)
    rep.saw(n)
    cfg = CFG(f)
    t = f["bbs"][0]["t"]
    got = {}
    bad = []
    ivars = {v["name"] for v in F.adt("fuel_asm::Instruction")["variants"]}
    rep.check(ivars == set(disc), "TAB-opcode", "Instruction-variants=Opcode-variants", None, "variant sets differ: %s" % sorted(ivars ^ set(disc)))
    if t[0] == "switch" and re.match(r"^arg:#?1?\[0\]$|^var:op$", describe(f, t[1])) is not None or t[0] == "switch":
        for v, tg in t[2]:
            blk = f["bbs"][tg]
            aggs = [s[2] for s in blk["s"] if s[0] == "=" and s[2][0] == "agg" and "::_op::" in s[2][1]]
            X = aggs[0][1].rsplit("::", 1)[-1] if len(aggs) == 1 else None
            got[v] = X
            if X is None:
                continue
            arr = describe(f, aggs[0][3][0], depth=8)
            tc = blk["t"]
            okarm = tc[0] == "call" and callee_name(tc[1]) == "fuel_asm::_op::%s::reserved_part_is_zero" % X and re.match(r"^agg:\[array\]\((var:\w+|arg:#1\[1\]),(var:\w+|arg:#1\[2\]),(var:\w+|arg:#1\[3\])\)$", arr) is not None
            if okarm:
                # result false -> Err ; true -> Instruction::X
                nxt = tc[4]
                sw = f["bbs"][nxt]["t"]
                okarm = sw[0] == "switch"
                if okarm:
                    tt = {val: tg2 for val, tg2 in sw[2]}
                    false_t, true_t = tt.get(0), sw[3]
                    mk_true = {s[2][2] for b in cfg.reachable_incl(true_t) - cfg.reachable_incl(false_t) for s in f["bbs"][b]["s"] if s[0] == "=" and s[2][0] == "agg" and s[2][1] == "fuel_asm::Instruction"}
                    errs = [b for b in cfg.reachable_incl(false_t) - cfg.reachable_incl(true_t) for s in f["bbs"][b]["s"] if s[0] == "=" and s[1] == [0] and s[2][0] == "agg" and s[2][2] == "Err"]
                    okarm = mk_true == {X} and bool(errs)
            if not okarm:
                bad.append((v, X))
    rep.check(got == want and not bad, "TAB-opcode", "Instruction::try_from=discriminant-table+reserved-check", "%s:%s" % (f["file"], f["line"]),
              "decode table differs from Opcode discriminants (%s) or an arm skips the reserved-bits check / wraps the wrong variant: %s" % (table_diff(got, want), bad[:5]))

    # ---------------- encoders
    nenc = 0
    for X, d in sorted(disc.items()):
        fn = "fuel_asm::_op::<impl std::convert::From<fuel_asm::_op::%s> for [u8; 4]>::from" % X
        f = fa.get(fn)
        if f is None:
            rep.bad("TAB-opcode", "From<%s>for[u8;4]-present" % X, None, "missing %s" % fn)
            continue
        r = I.call(fn, [("struct", "fuel_asm::_op::" + X, {0: ("array", [sym_int("w%d" % i, 8) for i in range(3)])})])
        ok = False
        if r != T and r[0] == "array" and len(r[1]) == 4:
            b0 = r[1][0]
            k0 = opcode_byte(f)
            ok = k0 == d and all(r[1][i + 1] == sym_int("w%d" % i, 8) for i in range(3))
        nenc += ok
        if not ok:
            rep.bad("TAB-opcode", "From<%s>for[u8;4]" % X, "%s:%s" % (f["file"], f["line"]), "encoder of %s must emit [%d, a, b, c]; opcode byte %s, abstract result %s" % (X, d, opcode_byte(f), r))
    if nenc == len(disc):
        rep.ok("TAB-opcode", "From<X>for[u8;4] writes X's discriminant + argument bytes in order (%d ops)" % nenc)
    n, f = F.find(r"^fuel_asm::<impl std::convert::From<fuel_asm::Instruction> for \[u8; 4\]>::from$", ["fuel_asm"], one=True)
    rep.saw(n)
    bad = switch_variant_calls(F, f, "fuel_asm::Instruction", lambda X, c: callee_matches(c, r"Into<U>>::into$") and (c.get("self") or "").endswith("::_op::" + X) or
                               callee_name(c) == "fuel_asm::_op::<impl std::convert::From<fuel_asm::_op::%s> for [u8; 4]>::from" % X, set(disc))
    rep.check(not bad, "TAB-opcode", "From<Instruction>for[u8;4]:arm-X->X.into()", "%s:%s" % (f["file"], f["line"]), "arms not converting their own variant: %s" % bad[:5])
    n, f = F.find(r"^fuel_asm::Instruction::opcode$", ["fuel_asm"], one=True)
    rep.saw(n)
    bad = []
    t = f["bbs"][0]["t"] if f["bbs"][0]["t"][0] == "switch" else None
    iv = {k: v["name"] for k, v in enumerate(F.adt("fuel_asm::Instruction")["variants"])}
    if t is None:
        bad = ["no switch"]
    else:
        seen = set()
        for v, tg in t[2]:
            mk = [s[2][2] for s in f["bbs"][tg]["s"] if s[0] == "=" and s[2][0] == "agg" and s[2][1] == "fuel_asm::Opcode"]
            seen.add(iv.get(v))
            if mk != [iv.get(v)]:
                bad.append((iv.get(v), mk))
        if seen != set(disc):
            bad.append(("missing", sorted(set(disc) - seen)[:5]))
    rep.check(not bad, "TAB-opcode", "Instruction::opcode:X->Opcode::X", "%s:%s" % (f["file"], f["line"]), "mismatching arms %s" % bad[:5])

    # ---------------- interpreter
    n, f = F.find(r"^fuel_vm::interpreter::executors::instruction::execute_instruction$", ["fuel_vm"], one=True)
    rep.saw(n)
    cfg = CFG(f)
    sw = None
    for b in sorted(cfg.reach):
        t = f["bbs"][b]["t"]
        if t[0] == "switch" and len(t[2]) > 100:
            sw = t
            break
    bad = []
    got = {}
    if sw is None:
        bad.append("no opcode switch")
    else:
        rep.check(describe(f, sw[1], depth=6) == "disc(arg:opcode)", "TAB-interpreter", "switch-on-opcode", "%s:%s" % (f["file"], f["line"]), "dispatch switch operand: %s" % describe(f, sw[1], depth=6))
        byd = {d: nm for nm, d in disc.items()}
        for v, tg in sw[2]:
            X = byd.get(v)
            got[v] = X
            # first call in the arm must be X::from_raw_args(raw_args); an Execute::execute with Self = X must follow and no other op's
            b = tg
            first = None
            for _ in range(6):
                tb = f["bbs"][b]["t"]
                if tb[0] == "call":
                    first = tb
                    break
                if tb[0] == "goto":
                    b = tb[1]
                else:
                    break
            okarm = first is not None and X is not None and callee_name(first[1]) == "fuel_asm::_op::%s::from_raw_args" % X and describe(f, first[2][0]) == "arg:raw_args"
            if okarm:
                mine = cfg.reachable_incl(tg)
                for v2, tg2 in sw[2]:
                    if tg2 != tg:
                        mine = mine - cfg.reachable_incl(tg2)
                ex = [(callee_name(f["bbs"][bb]["t"][1]), f["bbs"][bb]["t"][1].get("self")) for bb in mine if f["bbs"][bb]["t"][0] == "call" and callee_matches(f["bbs"][bb]["t"][1], r"instruction::Execute(<.*>)?>?::execute$|opcodes_impl::.*::execute$")]
                okarm = len(ex) == 1 and ((ex[0][1] or "").endswith("::_op::" + X) or ("::_op::%s>::execute" % X) in ex[0][0])
            if not okarm:
                bad.append((v, X))
    rep.check(not bad and set(got.values()) == set(disc), "TAB-interpreter", "execute_instruction:arm-X->X::from_raw_args->X.execute", "%s:%s" % (f["file"], f["line"]),
              "arms not parsing/executing their own opcode: %s; opcodes without an arm: %s" % (bad[:5], sorted(set(disc) - set(got.values()))[:5]))
    rep.floor("TAB-interpreter", "dispatch arms", len(got), 127)


def first_mismatch(got, want):
    if got is None:
        return "evaluation left the bit domain"
    if len(got) != len(want):
        return "arity %d vs %d" % (len(got), len(want))
    for i, (g, w) in enumerate(zip(got, want)):
        if g != w:
            for j, (x, y) in enumerate(zip(g, w)):
                if x != y:
                    return "argument %d bit %d is %s, expected %s" % (i, j, x, y)
            return "argument %d width" % i
    return None


def table_diff(got, want):
    d = []
    for k in sorted(set(got) | set(want)):
        if got.get(k) != want.get(k):
            d.append((k, got.get(k), want.get(k)))
    return d[:6]


def from_raw_ok(f):
    """switch on the reserved test: false -> Err(InvalidOpcode), true -> Ok(op)"""
    cfg = CFG(f)
    for b in cfg.reach:
        t = f["bbs"][b]["t"]
        if t[0] == "switch" and len(t[2]) == 1 and t[2][0][0] == 0:
            fl, tr = t[2][0][1], t[3]
            errs = {s[2][2] for x in cfg.reachable_incl(fl) - cfg.reachable_incl(tr) for s in f["bbs"][x]["s"] if s[0] == "=" and s[1] == [0] and s[2][0] == "agg"}
            oks = {s[2][2] for x in cfg.reachable_incl(tr) - cfg.reachable_incl(fl) for s in f["bbs"][x]["s"] if s[0] == "=" and s[1] == [0] and s[2][0] == "agg"}
            return errs == {"Err"} and oks == {"Ok"}
    return False


def opcode_byte(f):
    """the constant discriminant written as byte 0 by From<X> for [u8;4]"""
    for i, j, p, rv, line in assignments(f):
        if rv[0] == "use" and rv[1][0] == "k" and str(rv[1][1].get("t", "")).endswith("fuel_asm::Opcode") and isinstance(rv[1][1].get("v"), int):
            return rv[1][1]["v"]
    return None


def switch_variant_calls(F, f, adt, pred, allnames):
    """for a switch on the discriminant of `adt` in bb0: arms whose first call does not satisfy pred(variant, callee)"""
    names = {k: v["name"] for k, v in enumerate(F.adt(adt)["variants"])}
    t = f["bbs"][0]["t"]
    if t[0] != "switch":
        return ["no switch"]
    bad = []
    seen = set()
    for v, tg in t[2]:
        X = names.get(v)
        seen.add(X)
        tb = f["bbs"][tg]["t"]
        if not (tb[0] == "call" and pred(X, tb[1])):
            bad.append((X, callee_name(tb[1]) if tb[0] == "call" else tb[0]))
    if seen != allnames:
        bad.append(("missing", sorted(allnames - seen)[:5]))
    return bad
