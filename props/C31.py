"""C31 Execution is deterministic and independent of VM instance reuse — field-coverage clauses.

  COV-init_inner   every field of `Interpreter` that any function outside initialisation can mutate is
                   *reset* (whole-field assignment, or clear()/reset()/truncate() on it) on every
                   non-error path of init_inner — `extend`/`insert`/`push` do not count as a reset — unless
                   it is in the reviewed exempt table. `registers` (zero-fill loop) and `memory`
                   (MemoryInstance::reset) have their own evidence rules; `context` must be assigned by
                   both init_script and init_predicate before they call init_inner.
  COV-memory-reset MemoryInstance::reset resets stack and hp (heap is exempt: zero-on-regrow, see C23).
  COV-receipts     ReceiptsCtx::clear resets both the receipt list and its Merkle tree.
  COV-balances     RuntimeBalances::to_vm overwrites vm.balances with the fresh balances.
A new stateful field that is mutated during execution but not reset is reported without any test.
  (C23) PRIORITY-stack-first  shared with C23: the heap buffer keeps its capacity across transactions, so on a reused
                     instance heap_offset() may lie below the stack extent; memory accesses must test the stack first.
Not decided: equality of results (values); ordering effects of hash-map iteration are listed as info.
"""
import re

from fvlib.core import CFG, CallGraph, assignments, call_blocks, calls, callee_matches, callee_name, describe, short
from fvlib.effects import FieldEffects, ResetCoverage
from fvlib.summ import ok_sites

ADT = r"^fuel_vm::interpreter::Interpreter$"
TY = r"fuel_vm::interpreter::Interpreter<"
EXEMPT = {
    "storage": "backing store: its contents are the transaction's committed effects by design",
    "debugger": "debugger configuration (breakpoints) deliberately survives across runs",
    "interpreter_params": "configuration, only set by constructors",
    "ecal_state": "user-supplied ECAL handler state, owned by the embedder",
    "verifier": "verification strategy object (AttemptContinue accumulates across runs by design)",
    "panic_context": "written only immediately before an Err that run_program turns into the panic receipt; append_panic_receipt resets it to None",
    "context": "assigned by init_script / init_predicate before init_inner (checked separately)",
}
INIT_FNS = re.compile(r"^fuel_vm::interpreter::(initialization::.*::(init_inner|init_script|init_predicate)|constructors::|diff::)")


def run(F, rep, tier, allfacts):
    cg = CallGraph(F, ["fuel_vm"])
    rep.rule("COV-init_inner", "fields mutated outside initialisation ⊆ must-reset(init_inner) ∪ special evidence ∪ exempt table")
    rep.rule("COV-memory-reset", "MemoryInstance::reset must-resets stack and hp")
    rep.rule("COV-receipts", "ReceiptsCtx::clear must-resets receipts and receipts_tree")
    rep.rule("COV-balances", "to_vm assigns vm.balances")
    fe = FieldEffects(cg, ADT, TY)
    rc = ResetCoverage(fe)
    n, f = F.find(r"^fuel_vm::interpreter::initialization::.*::init_inner$", ["fuel_vm"], one=True)
    rep.saw(n)
    must = rc.must_reset(n)
    fields = [x[0] for x in F.adt("fuel_vm::interpreter::Interpreter")["variants"][0]["fields"]]
    rep.floor("COV-init_inner", "Interpreter fields", len(fields), 18)
    writers = {fld: [] for fld in fields}
    for m, ws in fe.direct.items():
        if INIT_FNS.search(m):
            continue
        for (bb, fld, kind, line) in ws:
            if fld in writers:
                writers[fld].append((m, kind, line))
    cfg = CFG(f)
    oks = ok_sites(f, cfg)
    for fld in fields:
        ws = writers[fld]
        key = "Interpreter." + fld
        if not ws:
            rep.note("COV-init_inner: %s has no writers outside initialisation" % fld)
            # still require reset for fields that init_inner itself may mutate non-resettingly
            own = [w for w in fe.direct.get(n, []) if w[1] == fld and w[2] == "mutref"]
            if own and fld not in must and fld not in EXEMPT and fld not in ("registers", "memory"):
                rep.bad("COV-init_inner", key, "%s:%s" % (f["file"], own[0][3]),
                        "init_inner mutates `%s` in place (e.g. extend/insert) but never resets it: state of the previous transaction survives" % fld)
            else:
                rep.ok("COV-init_inner", key)
            continue
        if fld in EXEMPT:
            rep.note("COV-init_inner: %s exempt (%s)" % (fld, EXEMPT[fld]))
            continue
        if fld == "memory":
            rb = call_blocks(f, r"^fuel_vm::interpreter::memory::MemoryInstance::reset$")
            rep.check(bool(rb) and cfg.must_pass(rb, 0, oks), "COV-init_inner", key, "%s:%s" % (f["file"], f["line"]),
                      "init_inner must call MemoryInstance::reset on every path")
            continue
        if fld == "registers":
            ok = False
            it = [i for i, c, args, *_ in calls(f) if callee_matches(c, r"slice::<impl \[T\]>::iter_mut$") and "registers" in describe(f, args[0])]
            fe_b = [i for i, c, args, *_ in calls(f) if callee_matches(c, r"Iterator::for_each$|IterMut.*::for_each$") and "iter_mut(" in describe(f, args[0])]
            zero = False
            for cn, cf in cg.fns.items():
                if cf["kind"] == "Closure" and cf.get("parent") == n:
                    for i, j, p, rv, line in assignments(cf):
                        if p[1:] == ["*"] and rv[0] == "use" and rv[1][0] == "k" and rv[1][1].get("v") == 0 and cf["locals"][p[0]] == "&mut u64":
                            zero = True
            ok = bool(it and fe_b) and zero and cfg.must_pass(fe_b, 0, oks)
            fill = [i for i, c, args, *_ in calls(f) if callee_matches(c, r"::fill$") and "registers" in describe(f, args[0])]
            ok = ok or (bool(fill) and cfg.must_pass(fill, 0, oks))
            rep.check(ok, "COV-init_inner", key, "%s:%s" % (f["file"], f["line"]),
                      "init_inner must zero the whole register file on every path")
            continue
        rep.check(fld in must, "COV-init_inner", key, "%s:%s" % (f["file"], f["line"]),
                  "field `%s` is mutated by %s (%s L%s) but init_inner does not reset it on every path (resets: %s)"
                  % (fld, short(ws[0][0]), ws[0][1], ws[0][2], sorted(must)))
    rep.sample({"init_inner_must_reset": {k: v for k, v in must.items()}})
    # context assigned by both entry points, before init_inner
    for ent in ("init_script", "init_predicate"):
        en, ef = F.find(r"^fuel_vm::interpreter::initialization::.*::%s$" % ent, ["fuel_vm"], one=True)
        rep.saw(en)
        ecfg = CFG(ef)
        ctxb = [bb for (bb, fld, kind, line) in rc.direct(en) if fld == "context"]
        ib = call_blocks(ef, r"::init_inner$")
        rep.check(bool(ctxb and ib) and all(ecfg.must_pass(ctxb, 0, [b]) for b in ib), "COV-init_inner", ent + ":context-before-init_inner",
                  "%s:%s" % (ef["file"], ef["line"]), "%s must assign self.context before calling init_inner" % ent)
        rep.check(bool(ib) and ecfg.must_pass(ib, 0, ok_sites(ef, ecfg)), "COV-init_inner", ent + ":calls-init_inner",
                  "%s:%s" % (ef["file"], ef["line"]), "%s must call init_inner on every successful path" % ent)

    # reused memory: newly exposed heap/stack must read as zero (shared with C23)
    from props import C23 as _c23
    _c23.run_growth(F, rep)
    _c23.run_priority(F, rep)

    # MemoryInstance::reset
    mfe = FieldEffects(cg, r"^fuel_vm::interpreter::memory::MemoryInstance$", r"fuel_vm::interpreter::memory::MemoryInstance")
    mrc = ResetCoverage(mfe)
    mn, mf = F.find(r"^fuel_vm::interpreter::memory::MemoryInstance::reset$", ["fuel_vm"], one=True)
    rep.saw(mn)
    mm = mrc.must_reset(mn)
    for fld in ("stack", "hp"):
        rep.check(fld in mm, "COV-memory-reset", "MemoryInstance." + fld, "%s:%s" % (mf["file"], mf["line"]),
                  "MemoryInstance::reset must reset `%s`; resets %s" % (fld, sorted(mm)))
    # hp must be reset to MEM_SIZE
    for i, j, p, rv, line in assignments(mf):
        if p[1:] and isinstance(p[-1], list) and p[-1][2] == "hp":
            rep.check(describe(mf, rv[1]) == "const:fuel_vm::consts::MEM_SIZE", "COV-memory-reset", "hp=MEM_SIZE", "%s:%s" % (mf["file"], line),
                      "reset must set hp to MEM_SIZE; found %s" % describe(mf, rv[1]))
    # ReceiptsCtx::clear
    rfe = FieldEffects(cg, r"^fuel_vm::interpreter::receipts::ReceiptsCtx$", r"fuel_vm::interpreter::receipts::ReceiptsCtx")
    rrc = ResetCoverage(rfe)
    cn, cf = F.find(r"^fuel_vm::interpreter::receipts::ReceiptsCtx::clear$", ["fuel_vm"], one=True)
    rep.saw(cn)
    cm = rrc.must_reset(cn)
    rfields = [x[0] for x in F.adt("fuel_vm::interpreter::receipts::ReceiptsCtx")["variants"][0]["fields"]]
    for fld in rfields:
        rep.check(fld in cm, "COV-receipts", "ReceiptsCtx." + fld, "%s:%s" % (cf["file"], cf["line"]),
                  "ReceiptsCtx::clear must reset `%s`; resets %s" % (fld, sorted(cm)))
    # to_vm
    tn, tf = F.find(r"^fuel_vm::interpreter::balances::RuntimeBalances::to_vm$", ["fuel_vm"], one=True)
    rep.saw(tn)
    tm = rc.must_reset(tn)
    rep.check("balances" in tm, "COV-balances", "to_vm:vm.balances=self", "%s:%s" % (tf["file"], tf["line"]),
              "RuntimeBalances::to_vm must install itself as vm.balances on every path")
    tb = call_blocks(f, r"RuntimeBalances::to_vm$")
    rep.check(bool(tb) and cfg.must_pass(tb, 0, oks), "COV-balances", "init_inner:calls-to_vm", "%s:%s" % (f["file"], f["line"]),
              "init_inner must call runtime_balances.to_vm(self) on every path")
