"""C35 Bytecode upload, blob, deployment and upgrade state evolve as specified — structural clauses.

  NO-GUARD-AFTER-MUTATION  in deploy_inner / upload_inner / upgrade_inner / blob_inner no *domain guard*
                     error (ContractIdAlreadyDeployed, BytecodeAlreadyUploaded,
                     ThePartIsNotSequentiallyConnected, Overriding*, UnknownStateTransactionBytecodeRoot,
                     BlobIdAlreadyUploaded) is reachable — directly or through a callee — after a call that
                     mutates the table; otherwise a failed transaction leaves the table changed.
                     Reviewed idiom: blob_inner's content-addressed replace + is_some.
  MAT-guards         each executor still constructs its guard errors.
  DOM-deploy         storage_contract_exists(id) == true -> ContractIdAlreadyDeployed, and it dominates
                     deploy_contract_with_id with the same id, code and slots.
  SHAPE-upload       sequence test `subsection_index != uploaded count` -> NotSequentiallyConnected before
                     the witness is appended; count+1 by checked_add; Completed exactly on
                     `subsections_number == new count`; the value inserted under the tx's root is the
                     result of upload_bytecode_subsection.
  SHAPE-upgrade      each purpose arm reads its own version counter, installs under saturating_add(v,1),
                     and the state-transition arm requires contains_state_transition_bytecode_root(root).
  DEPLOY-exact       the default InterpreterStorage::deploy_contract_with_id stores the code under the id and inserts
                     every slot of the transaction's list as (key, value) — iterating `slots` itself, with no filter,
                     skip or take in between (the stored state must hash to the state root the id commits to).
Not decided: byte equality of the concatenation, version arithmetic at u32::MAX.
"""
import re

from fvlib.core import (CFG, CallGraph, agg_blocks, assignments, bool_switch_targets, call_blocks, calls,
                        callee_matches, callee_name, describe, guards, guard_region, short)

GUARDS = {"ContractIdAlreadyDeployed", "BytecodeAlreadyUploaded", "ThePartIsNotSequentiallyConnected",
          "OverridingConsensusParameters", "OverridingStateTransactionBytecode",
          "UnknownStateTransactionBytecodeRoot", "BlobIdAlreadyUploaded"}
MUT = (r"(StorageMutate.*::(insert|replace|remove|take)$|StorageWrite.*::(write_bytes|replace_bytes|take_bytes)$"
       r"|InterpreterStorage::(deploy_contract_with_id|set_consensus_parameters|set_state_transition_bytecode|"
       r"storage_contract_insert|contract_state_insert|contract_state_remove_range)$"
       r"|fuel_storage::StorageMut<.*>::(insert|replace|remove|take)$|StorageMut.*::(insert|replace|remove|take)$)")
EXPECT = {
    "deploy_inner": {"ContractIdAlreadyDeployed"},
    "upload_inner": {"BytecodeAlreadyUploaded", "ThePartIsNotSequentiallyConnected"},
    "upgrade_inner": {"OverridingConsensusParameters", "OverridingStateTransactionBytecode", "UnknownStateTransactionBytecodeRoot"},
    "blob_inner": {"BlobIdAlreadyUploaded"},
}
IDIOM = {("blob_inner", "replace", "BlobIdAlreadyUploaded"):
         "content-addressed table: blob id = hash(data), so the replaced value equals the old one"}


def guard_variants(f):
    out = {}
    for i, j, p, rv, line in assignments(f):
        if rv[0] == "agg" and rv[1].endswith("::PanicReason") and rv[2] in GUARDS:
            out.setdefault(i, set()).add(rv[2])
    return out


def run(F, rep, tier, allfacts):
    cg = CallGraph(F, ["fuel_vm", "fuel_storage", "fuel_tx"])
    rep.rule("NO-GUARD-AFTER-MUTATION", "no domain-guard error reachable after a table mutation in the tx executors (idiom table for content-addressed replace)")
    rep.rule("MAT-guards", "each executor constructs its guard errors")
    rep.rule("DOM-deploy", "exists-check dominates deployment; true branch is the error")
    rep.rule("SHAPE-upload", "sequence test, checked count increment, completion condition, inserted value provenance")
    rep.rule("SHAPE-upgrade", "version counter / setter pairing per purpose; next version = saturating_add(v,1); root existence required")

    # transitive guard construction per fn (within fuel_vm)
    memo = {}

    def reach_guards(n, stack=()):
        if n in memo:
            return memo[n]
        if n in stack or not n.startswith("fuel_vm::"):
            return set()
        f = cg.fns.get(n)
        if f is None:
            return set()
        s = set()
        for vs in guard_variants(f).values():
            s |= vs
        for t in cg.edges.get(n, ()):
            s |= reach_guards(t, stack + (n,))
        if not stack:
            memo[n] = s
        return s

    inner = {}
    for short_name in EXPECT:
        n, f = F.find(r"^fuel_vm::interpreter::executors::main::<impl fuel_vm::interpreter::Interpreter<M, S, Tx, Ecal, V>>::%s$" % short_name,
                      ["fuel_vm"], one=True)
        inner[short_name] = (n, f)
        rep.saw(n)
        cfg = CFG(f)
        muts = [(i, callee_name(c), line) for i, c, args, dest, tgt, line in calls(f) if callee_matches(c, MUT)]
        rep.floor("NO-GUARD-AFTER-MUTATION", "table mutations in " + short_name, len(muts), 1)
        gblocks = guard_variants(f)
        for i, c, args, dest, tgt, line in calls(f):
            ts = [t for t in cg.targets_of(c) if t in cg.fns and t.startswith("fuel_vm::interpreter::executors::")]
            vs = set()
            for t in ts:
                vs |= reach_guards(t)
            if vs:
                gblocks.setdefault(i, set()).update(vs)
        have = set()
        for vs in gblocks.values():
            have |= vs
        rep.check(EXPECT[short_name] <= have, "MAT-guards", short_name, "%s:%s" % (f["file"], f["line"]),
                  "%s no longer constructs guard error(s) %s" % (short_name, sorted(EXPECT[short_name] - have)))
        nviol = 0
        for (mb, mname, mline) in muts:
            after = cfg.reachable_from(mb)
            for gb, vs in gblocks.items():
                if gb in after:
                    for v in sorted(vs):
                        mshort = mname.rsplit("::", 1)[-1]
                        key = "%s:%s->%s" % (short_name, mshort, v)
                        if (short_name, mshort, v) in IDIOM:
                            rep.note("idiom: %s (%s)" % (key, IDIOM[(short_name, mshort, v)]))
                            continue
                        nviol += 1
                        rep.bad("NO-GUARD-AFTER-MUTATION", key, "%s:%s" % (f["file"], mline),
                                "guard error %s is reachable after the table mutation %s in %s: a transaction failing with it leaves the table changed"
                                % (v, mname, short_name))
        if nviol == 0:
            rep.ok("NO-GUARD-AFTER-MUTATION", short_name)
        rep.sample({"executor": short_name, "mutations": [m[1].rsplit("::", 1)[-1] for m in muts], "guards": sorted(have)})

    # ---- the default deployment writes the code and *every* slot of the list, unfiltered
    rep.rule("DEPLOY-exact", "deploy_contract_with_id inserts the code under id and iterates all of `slots` (no filter / skip / take) inserting (key, value) of each")
    dn, df = F.find(r"^fuel_vm::storage::interpreter::InterpreterStorage::deploy_contract_with_id$", ["fuel_vm"], one=True)
    rep.saw(dn)
    dwhere = "%s:%s" % (df["file"], df["line"])
    ci = [[describe(df, a, depth=6) for a in args] for i, c, args, *_ in calls(df) if callee_matches(c, r"InterpreterStorage::storage_contract_insert$")]
    it = [(callee_name(c).rsplit("::", 1)[-1], [describe(df, a, depth=12) for a in args]) for i, c, args, *_ in calls(df) if callee_matches(c, r"Iterator::(try_for_each|for_each|try_fold|fold)$|IntoIterator>::into_iter$")]
    okd = ci == [["arg:self", "arg:id", "arg:contract"]] and len(it) == 1 and re.match(r"^(call:into_iter\()?call:iter\(arg:slots\)\)?$", it[0][1][0]) is not None
    ins = []
    for cn, cf in F.find(re.escape(dn) + r"::\{closure#\d+\}$", ["fuel_vm"], required=False):
        for i, c, args, *_ in calls(cf):
            if callee_matches(c, r"InterpreterStorage::contract_state_insert$"):
                ins.append([describe(cf, a, depth=8) for a in args])
    for i, c, args, *_ in calls(df):
        if callee_matches(c, r"InterpreterStorage::contract_state_insert$"):
            ins.append([describe(df, a, depth=8) for a in args])
    okd = okd and len(ins) == 1 and re.search(r"call:key\(", ins[0][2]) is not None and re.search(r"call:value\(", ins[0][3]) is not None
    rep.check(okd, "DEPLOY-exact", "deploy_contract_with_id", dwhere,
              "deployment must store the code and every (key, value) of the slot list as given; code insert %s, iteration %s, slot inserts %s" % (ci, it, ins))

    # ---- deploy
    n, f = inner["deploy_inner"]
    cfg = CFG(f)
    ex = call_blocks(f, r"InterpreterStorage::storage_contract_exists$")
    dp = call_blocks(f, r"InterpreterStorage::deploy_contract_with_id$")
    eb = agg_blocks(f, r"PanicReason$", "ContractIdAlreadyDeployed")
    ok = bool(ex and dp and eb) and all(cfg.dominates(ex[0], d) for d in dp)
    if ok:
        # find the bool switch fed by the exists result (through `?`)
        sw = None
        for b in sorted(cfg.reachable_from(ex[0])):
            tt = bool_switch_targets(f["bbs"][b]["t"])
            if tt and "storage_contract_exists" in describe(f, f["bbs"][b]["t"][1]):
                sw = tt
                break
        ok = sw is not None and eb[0] in cfg.reachable_incl(sw[0]) and not any(d in cfg.reachable_incl(sw[0]) for d in dp)
    rep.check(ok, "DOM-deploy", "exists-true->error;dominates-deploy", "%s:%s" % (f["file"], f["line"]),
              "storage_contract_exists must dominate deploy_contract_with_id and its true branch must be ContractIdAlreadyDeployed only")
    if ex and dp:
        a_ex = describe(f, f["bbs"][ex[0]]["t"][2][1], depth=4)
        a_dp = [describe(f, a, depth=4) for a in f["bbs"][dp[0]]["t"][2]]
        rep.check(a_ex == a_dp[3] and "storage_slots" in a_dp[1] and "bytecode" in a_dp[2], "DOM-deploy", "same-id-code-slots",
                  "%s:%s" % (f["file"], f["line"]), "exists-check and deployment must use the same id; deploy args %s, exists arg %s" % (a_dp, a_ex))

    # ---- upload
    n, f = inner["upload_inner"]
    cfg = CFG(f)
    ins = [(i, args) for i, c, args, *_ in calls(f) if callee_matches(c, r"::insert$") and callee_matches(c, MUT)]
    okins = False
    if len(ins) == 1:
        d = [describe(f, a, depth=14) for a in ins[0][1]]
        okins = "upload_bytecode_subsection" in d[2] and "bytecode_root" in d[1]
        rep.sample({"upload_insert_args": d})
    rep.check(okins, "SHAPE-upload", "insert(root, upload_bytecode_subsection(..))", "%s:%s" % (f["file"], f["line"]),
              "the value stored under the tx's bytecode root must be the result of upload_bytecode_subsection")
    sn, sf = F.find(r"executors::main::.*::upload_bytecode_subsection$", ["fuel_vm"], one=True)
    rep.saw(sn)
    cfg = CFG(sf)
    seqb = agg_blocks(sf, r"PanicReason$", "ThePartIsNotSequentiallyConnected")
    ext = call_blocks(sf, r"Extend.*::extend$|Vec.*::extend(_from_slice)?$")
    gs = [(g, guard_region(g, r"subsection_index", r"^arg:uploaded_subsections_number$")) for g in guards(sf)]
    gs = [(g, r) for g, r in gs if r is not None]
    okseq = False
    if gs and seqb and ext:
        g, reg = gs[0]
        ne_side = g["t"] if reg == {"lt", "gt"} else (g["f"] if reg == {"eq"} else None)
        eq_side = g["f"] if reg == {"lt", "gt"} else (g["t"] if reg == {"eq"} else None)
        okseq = ne_side is not None and seqb[0] in cfg.reachable_incl(ne_side) and not any(e in cfg.reachable_incl(ne_side) for e in ext) \
            and all(e in cfg.reachable_incl(eq_side) for e in ext)
    rep.check(okseq, "SHAPE-upload", "index!=count->NotSequentiallyConnected-before-append", "%s:%s" % (sf["file"], sf["line"]),
              "a subsection whose index differs from the number already uploaded must be rejected before anything is appended")
    adds = [[describe(sf, a) for a in args] for i, c, args, *_ in calls(sf) if callee_matches(c, r"::checked_add$")]
    rep.check(["arg:uploaded_subsections_number", "const:1"] in adds, "SHAPE-upload", "count+1", "%s:%s" % (sf["file"], sf["line"]),
              "new count must be uploaded_subsections_number.checked_add(1); found %s" % adds)
    comp = agg_blocks(sf, r"UploadedBytecode$", "Completed")
    unc = agg_blocks(sf, r"UploadedBytecode$", "Uncompleted")
    gs = [(g, guard_region(g, r"subsections_number\(", r"checked_add\(arg:uploaded_subsections_number,const:1\)")) for g in guards(sf)]
    gs = [(g, r) for g, r in gs if r == {"eq"} or r == {"lt", "gt"}]
    okc = False
    if gs and comp and unc:
        g, reg = gs[-1]
        eq_side = g["t"] if reg == {"eq"} else g["f"]
        ne_side = g["f"] if reg == {"eq"} else g["t"]
        okc = comp[0] in cfg.reachable_incl(eq_side) and comp[0] not in cfg.reachable_incl(ne_side) and unc[0] in cfg.reachable_incl(ne_side) \
            and unc[0] not in cfg.reachable_incl(eq_side)
    rep.check(okc, "SHAPE-upload", "Completed<=>subsections_number==new_count", "%s:%s" % (sf["file"], sf["line"]),
              "Completed must be chosen exactly on the subsections_number == new count branch")
    for i, j, p, rv, line in assignments(sf):
        if rv[0] == "agg" and rv[1].endswith("UploadedBytecode") and rv[2] == "Uncompleted":
            d = dict(zip(rv[4], [describe(sf, o) for o in rv[3]]))
            rep.check("checked_add(arg:uploaded_subsections_number,const:1)" in d.get("uploaded_subsections_number", ""), "SHAPE-upload",
                      "Uncompleted.count=new_count", "%s:%s" % (sf["file"], line), "stored count must be the incremented count; found %s" % d)

    # ---- upgrade
    n, f = inner["upgrade_inner"]
    cfg = CFG(f)
    pairs = [("consensus_parameters_version", "set_consensus_parameters"), ("state_transition_version", "set_state_transition_bytecode")]
    for ver, setter in pairs:
        sb = [(i, args) for i, c, args, *_ in calls(f) if callee_matches(c, r"InterpreterStorage::%s$" % setter)]
        okp = False
        d = None
        if len(sb) == 1:
            d = describe(sf if False else f, sb[0][1][1], depth=14)
            okp = bool(re.match(r"^call:saturating_add\(call:branch\(call:map_err\(call:%s\(" % ver, d)) and d.endswith(",const:1)")
        rep.check(okp, "SHAPE-upgrade", "%s(next=%s+1)" % (setter, ver), "%s:%s" % (f["file"], f["line"]),
                  "%s must install under %s().saturating_add(1); found %s" % (setter, ver, d))
    cb = call_blocks(f, r"InterpreterStorage::contains_state_transition_bytecode_root$")
    stb = call_blocks(f, r"InterpreterStorage::set_state_transition_bytecode$")
    ub = agg_blocks(f, r"PanicReason$", "UnknownStateTransactionBytecodeRoot")
    oku = bool(cb and stb and ub) and cfg.dominates(cb[0], stb[0])
    if oku:
        sw = None
        for b in sorted(cfg.reachable_from(cb[0])):
            tt = bool_switch_targets(f["bbs"][b]["t"])
            if tt:
                desc = describe(f, f["bbs"][b]["t"][1])
                if "contains_state_transition_bytecode_root" in desc:
                    neg = desc.startswith("Not(") or False
                    sw = tt
                    break
        # exists == false  -> error ; the setter only on the exists side
        if sw is not None:
            # determine which side reaches the error
            t_err = ub[0] in cfg.reachable_incl(sw[0])
            f_err = ub[0] in cfg.reachable_incl(sw[1])
            err_side = sw[0] if t_err and not f_err else (sw[1] if f_err and not t_err else None)
            oku = err_side is not None and stb[0] not in cfg.reachable_incl(err_side)
        else:
            oku = False
    rep.check(oku, "SHAPE-upgrade", "root-must-exist-before-install", "%s:%s" % (f["file"], f["line"]),
              "contains_state_transition_bytecode_root must dominate set_state_transition_bytecode and its failing branch must not reach it")
    if cb and stb:
        a1 = describe(f, f["bbs"][cb[0]]["t"][2][1])
        a2 = describe(f, f["bbs"][stb[0]]["t"][2][2])
        rep.check(a1 == a2, "SHAPE-upgrade", "same-root-checked-and-installed", "%s:%s" % (f["file"], f["line"]),
                  "the root checked for existence must be the root installed (%s vs %s)" % (a1, a2))
