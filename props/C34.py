"""C34 Calls and returns preserve the caller's frame — structural clauses.

  TAB-return       return_from_context: pops exactly one frame; after restoring the register file from
                   the frame, re-assigns exactly {CGAS, GGAS, RET, RETL, HP} with the values read *before*
                   the restore; then set_frame_pointer(fp of the restored file) and inc_pc; the receipt is
                   pushed before $pc advances.
  TAB-call         prepare_call writes exactly {SP, SSP, FP, PC, IS, BAL, CGAS, FLAG} (+ gas registers via
                   gas_charge): SP = SSP = old_sp + frame size; FP = old_sp; PC = IS = FP + frame header;
                   BAL = forwarded coins; FLAG = 0. The caller's register snapshot for the frame is taken
                   before any of those writes; the frame is pushed only on the Ok path, after the receipt.
  WHO-frames       `frames` is pushed only by prepare_call and popped only by return_from_context.
  LAY-callframe    CallFrame's offset helpers and serialized_size equal the prefix sums of its canonical
                   field order; Call::LEN equals the Call field sizes; LDC patches code_size_offset().
Not decided: equality of stack contents (values).
"""
import re

from fvlib.core import (CFG, CallGraph, assignments, call_blocks, calls, callee_matches, callee_name, describe, short)
from fvlib.summ import ok_sites
from fvlib import vm
from fvlib.consteval import eval_fn, NotConst

RET = r"^fuel_vm::interpreter::flow::RetCtx::<'_>::return_from_context$"
PREP = r"^fuel_vm::interpreter::flow::PrepareCallCtx::<'_, S, V>::prepare_call$"
SIZES = {"ContractId": 32, "AssetId": 32, "[u64; 64]": 512, "usize": 8, "u64": 8}


CONSTS = {}


def size_of(ty):
    m = re.match(r"^\[u64; (\w+)\]$", ty)
    if m:
        n = int(m.group(1)) if m.group(1).isdigit() else CONSTS.get(m.group(1))
        return None if n is None else 8 * n
    return SIZES.get(ty.rsplit("::", 1)[-1])


def run(F, rep, tier, allfacts):
    cg = CallGraph(F, ["fuel_vm"])
    rep.rule("TAB-return", "registers re-assigned after frame restore = {CGAS,GGAS,RET,RETL,HP} from pre-restore values; set_frame_pointer; receipt; inc_pc")
    rep.rule("TAB-call", "registers written by prepare_call = {SP,SSP,FP,PC,IS,BAL,CGAS,FLAG} with the specified sources; snapshot first; frame push last")
    rep.rule("WHO-frames", "frames.push only in prepare_call; frames.pop only in return_from_context")
    rep.rule("LAY-callframe", "offset helpers = prefix sums of field sizes; Call::LEN; LDC patches code_size_offset")
    R = vm.reg_consts(F)
    CONSTS["VM_REGISTER_COUNT"] = F.const("fuel_vm::consts::VM_REGISTER_COUNT")

    # ---------------- return_from_context
    rn, rf = F.find(RET, ["fuel_vm"], one=True)
    rep.saw(rn)
    cfg = CFG(rf)
    where = "%s:%s" % (rf["file"], rf["line"])
    pops = call_blocks(rf, r"Vec.*::pop$")
    cp = call_blocks(rf, r"copy_from_slice$")
    rep.check(len(pops) == 1 and len(cp) == 1 and cfg.dominates(pops[0], cp[0]), "TAB-return", "pop-then-restore", where,
              "return_from_context must pop one frame and restore the register file from it")
    if cp:
        a = rf["bbs"][cp[0]]["t"][2]
        rep.check("registers" in describe(rf, a[0]) and "registers(" in describe(rf, a[1]), "TAB-return", "restore-from-frame.registers()", where,
                  "the register file must be restored from frame.registers(); found %s" % [describe(rf, x) for x in a])
        after = cfg.reachable_from(cp[0])
        written = {}
        reads_before = {}
        for i, c, args, dest, tgt, line in calls(rf):
            nm = callee_name(c)
            if re.search(r"IndexMut.*::index_mut$", nm) and "registers" in describe(rf, args[0]):
                v = describe(rf, args[1])
                m = re.search(r"RegId::(\w+)$", v)
                if m and i in after:
                    # value assigned through this &mut: find the store `*dest = x`
                    for bi, bj, p, rv, bl in assignments(rf):
                        if dest and p[0] == dest[0] and p[1:] == ["*"] and rv[0] == "use":
                            written[m.group(1)] = (describe(rf, rv[1], depth=12), rv[1])
        want = {"CGAS", "GGAS", "RET", "RETL", "HP"}
        rep.check(set(written) == want, "TAB-return", "reassigned-set", where,
                  "registers re-assigned after the restore must be exactly %s; found %s" % (sorted(want), sorted(written)))
        # each value must be read (Index::index of the same register) in a block that dominates the restore
        for reg, (d, op) in sorted(written.items()):
            okv = False
            if op[0] != "k":
                from fvlib.core import root_of
                r = root_of(rf, op[1][0])
                if isinstance(r, tuple) and r[0] == "call" and callee_matches(r[1], r"Index.*::index$"):
                    okv = ("RegId::" + reg) in describe(rf, r[2][1]) and cfg.dominates(r[3], cp[0]) and r[3] != cp[0]
                elif isinstance(r, tuple) and r[0] == "call":
                    # a value computed from registers[REG] before the restore (e.g. the caller's context gas plus the
                    # callee's unused gas, kept in a local instead of being written to the register and read back)
                    okv = ("RegId::" + reg) in describe(rf, op, depth=24) and cfg.dominates(r[3], cp[0]) and r[3] != cp[0]
                elif isinstance(r, list):
                    # a named local assigned before the restore from registers[REG]
                    dd = describe(rf, op, depth=12)
                    okv = ("RegId::" + reg) in dd
                    # its defining read must dominate the restore
                    from fvlib.core import defs_of_local
                    for df_ in defs_of_local(rf).get(r[0], []):
                        if df_[0] in ("assign",) and not cfg.dominates(df_[1], cp[0]):
                            okv = False
            rep.check(okv, "TAB-return", "value-read-before-restore:" + reg, where,
                      "$%s must be re-assigned the value it had before the restore; found %s" % (reg.lower(), d))
        sfp = call_blocks(rf, r"internal::set_frame_pointer$")
        rep.check(len(sfp) == 1 and sfp[0] in after and "RegId::FP" in describe(rf, rf["bbs"][sfp[0]]["t"][2][2], depth=12), "TAB-return",
                  "set_frame_pointer(restored fp)", where, "the context must be recomputed from the restored $fp")
    push = call_blocks(rf, r"ReceiptsCtx::push$")
    inc = call_blocks(rf, r"internal::inc_pc$")
    oks = ok_sites(rf, cfg)
    rep.check(len(push) == 1 and len(inc) == 1 and cfg.dominates(push[0], inc[0]) and cfg.must_pass(inc, 0, oks), "TAB-return", "receipt-then-inc_pc", where,
              "the return receipt must be pushed and $pc advanced exactly once on the Ok path")

    # ---------------- prepare_call
    pn, pf = F.find(PREP, ["fuel_vm"], one=True)
    rep.saw(pn)
    cfg = CFG(pf)
    where = "%s:%s" % (pf["file"], pf["line"])
    dm = {}
    for i, c, args, dest, tgt, line in calls(pf):
        if callee_name(c).endswith("deref_mut") and dest:
            m = re.search(r"RegMut<'_, (\d+)>", c.get("self") or "")
            if m:
                dm[dest[0]] = (int(m.group(1)), i)
    byreg = {}
    for i, j, p, rv, line in assignments(pf):
        if p[0] in dm and p[1:] == ["*"]:
            d = describe(pf, rv[1], depth=14) if rv[0] == "use" else (
                "%s(%s,%s)" % (rv[1], describe(pf, rv[2], depth=10), describe(pf, rv[3], depth=10)) if rv[0] == "bin" else rv[0])
            byreg.setdefault(dm[p[0]][0], []).append((i, d))
    names = {v: k for k, v in R.items()}
    got = {names.get(k, str(k)) for k in byreg}
    want = {"SP", "SSP", "PC", "IS", "BAL", "CGAS", "FLAG"}
    rep.check(got == want, "TAB-call", "written-set", where,
              "prepare_call must write exactly %s through typed register handles (FP via set_frame_pointer); found %s" % (sorted(want), sorted(got)))
    exp = {
        "SP": r"^call:saturating_add\(call:deref\(arg:self\.registers\.system_registers\.sp\),",
        "SSP": r"^call:saturating_add\(call:deref\(arg:self\.registers\.system_registers\.sp\),",
        "BAL": r"^arg:self\.params\.amount_of_coins_to_forward$",
        "FLAG": r"^const:0$",
        "IS": r"^call:deref\(arg:self\.registers\.system_registers\.pc\)$",
        "PC": r"^Add(WithOverflow|Unchecked)?\(call:deref\(arg:self\.registers\.system_registers\.fp\),.*serialized_size",
    }
    for reg, rx in exp.items():
        vals = [d for _, d in byreg.get(R.get(reg), [])]
        okv_ = bool(vals) and bool(re.search(rx, vals[-1]))
        if reg == "IS" and vals and not okv_:
            # $is = $pc: written as `*is = *pc` or as the same expression that was just stored in $pc
            pcv = [d for _, d in byreg.get(R.get("PC"), [])]
            okv_ = bool(pcv) and vals[-1] == pcv[-1] and bool(re.search(exp["PC"], vals[-1]))
        rep.check(okv_, "TAB-call", "value:" + reg, where,
                  "$%s must be set as specified (%s); found %s" % (reg.lower(), rx, vals))
    sfp = [(i, [describe(pf, a, depth=12) for a in args]) for i, c, args, *_ in calls(pf) if callee_matches(c, r"internal::set_frame_pointer$")]
    rep.check(len(sfp) == 1 and sfp[0][1][2] == "call:deref(arg:self.registers.system_registers.sp)", "TAB-call", "FP=old_sp", where,
              "$fp must become the caller's $sp; found %s" % sfp)
    snap = call_blocks(pf, r"PrepareCallRegisters.*::copy_registers$")
    first_writes = [i for r_ in ("SP", "SSP", "PC", "IS", "BAL", "FLAG") for i, _ in byreg.get(R.get(r_), [])] + [s[0] for s in sfp]
    rep.check(len(snap) == 1 and all(cfg.dominates(snap[0], w) and w != snap[0] for w in first_writes), "TAB-call", "snapshot-before-writes", where,
              "the caller's register snapshot (copy_registers) must be taken before SP/SSP/FP/PC/IS/BAL/FLAG are changed")
    new = [(i, [describe(pf, a, depth=10) for a in args]) for i, c, args, *_ in calls(pf) if callee_matches(c, r"call::CallFrame::new$")]
    okn = len(new) == 1 and "copy_registers(" in new[0][1][2] and new[0][1][0].startswith("call:to(") and new[0][1][4].startswith("call:a(") and new[0][1][5].startswith("call:b(")
    rep.check(okn, "TAB-call", "frame=CallFrame::new(to,asset,snapshot,size,a,b)", where, "call frame must be built from the call parameters and the snapshot; found %s" % new)
    fpush = call_blocks(pf, r"Vec.*::push$")
    rpush = call_blocks(pf, r"ReceiptsCtx::push$")
    oks = ok_sites(pf, cfg)
    # the callee gets *its own* value of each of these registers on every successful call: no write may be conditional
    for reg in ("SP", "SSP", "PC", "IS", "BAL", "FLAG"):
        wb = [i for i, _ in byreg.get(R.get(reg), [])]
        rep.check(bool(wb) and cfg.must_pass(wb, 0, oks), "TAB-call", "unconditional:" + reg, where,
                  "$%s must be assigned on every Ok path of prepare_call (a skipped assignment lets the callee inherit the caller's value); writes at %s" % (reg.lower(), wb))
    rep.check(len(fpush) == 1 and len(rpush) == 1 and cfg.dominates(rpush[0], fpush[0]) and cfg.must_pass(fpush, 0, oks)
              and all(s in oks or True for s in cfg.succ[fpush[0]]), "TAB-call", "frames.push-last-on-Ok", where,
              "frames.push must happen exactly once, after the call receipt, on the Ok path only")
    # nothing fallible after the push
    if fpush:
        later_err = [b for b in cfg.reachable_from(fpush[0]) if pf["bbs"][b]["t"][0] == "call" and callee_matches(pf["bbs"][b]["t"][1], r"FromResidual")]
        rep.check(not later_err, "TAB-call", "no-error-after-frame-push", where, "an error exit after frames.push would leave a dangling frame")

    # ---------------- WHO frames
    for n, f in cg.fns.items():
        if not n.startswith("fuel_vm::interpreter::") or "::diff::" in n:
            continue
        for i, c, args, dest, tgt, line in calls(f):
            if callee_matches(c, r"Vec.*::(push|pop|clear|truncate|insert|remove)$") and args:
                d = describe(f, args[0], depth=8)
                if re.search(r"\.frames$", d):
                    meth = callee_name(c).rsplit("::", 1)[-1]
                    ok = (meth == "push" and re.match(PREP, n)) or (meth == "pop" and re.match(RET, n)) or (meth == "clear" and n.endswith("::init_inner"))
                    rep.check(bool(ok), "WHO-frames", "%s:%s" % (short(n), meth), "%s:%s" % (f["file"], line),
                              "frames.%s outside its reviewed owner: %s" % (meth, n))

    # ---------------- layout
    adt = F.adt("fuel_vm::call::CallFrame")
    fields = adt["variants"][0]["fields"]
    order = [x[0] for x in fields]
    rep.check(order == ["to", "asset_id", "registers", "code_size_padded", "a", "b"], "LAY-callframe", "field-order", None,
              "CallFrame field order changed: %s (update the layout table)" % order)
    helper = {"to": "contract_id_offset", "asset_id": "asset_id_offset", "registers": "registers_offset", "code_size_padded": "code_size_offset",
              "a": "a_offset", "b": "b_offset"}
    off = 0
    for name, ty, _ in fields:
        sz = size_of(ty)
        if sz is None:
            rep.anchor_missing("unknown CallFrame field type " + ty)
            break
        try:
            got = eval_fn(F, "fuel_vm::call::CallFrame::" + helper[name])
        except NotConst as e:
            got = "not-constant(%s)" % e
        rep.check(got == off, "LAY-callframe", helper[name], None, "CallFrame::%s() = %s but the canonical encoding places `%s` at byte %d" % (helper[name], got, name, off))
        off += sz
    try:
        got = eval_fn(F, "fuel_vm::call::CallFrame::serialized_size")
    except NotConst as e:
        got = "not-constant(%s)" % e
    rep.check(got == off, "LAY-callframe", "serialized_size", None, "CallFrame::serialized_size() = %s, field sizes sum to %d" % (got, off))
    rep.sample({"CallFrame_layout": {helper[n]: None for n in order}, "serialized_size": off})
    cadt = F.adt("fuel_vm::call::Call")["variants"][0]["fields"]
    tot = sum((size_of(t) or 10 ** 6) for _, t, _ in cadt)
    rep.check(F.const("fuel_vm::call::Call::LEN") == tot, "LAY-callframe", "Call::LEN", None, "Call::LEN = %s, fields sum to %d" % (F.const("fuel_vm::call::Call::LEN"), tot))
    for nm in ("load_contract_code", "load_blob_code", "load_memory_code"):
        n, f = F.find(r"^fuel_vm::interpreter::blockchain::LoadContractCodeCtx::<'_, S, V>::%s$" % nm, ["fuel_vm"], one=True)
        w = [[describe(f, a, depth=10) for a in args] for i, c, args, *_ in calls(f) if callee_matches(c, r"write_bytes_noownerchecks$")]
        rep.check(len(w) == 1 and "code_size_offset(" in w[0][1] and "arg:self.fp" in w[0][1], "LAY-callframe", "LDC-patches-code_size:" + nm,
                  "%s:%s" % (f["file"], f["line"]), "LDC must update the code-size word at fp + CallFrame::code_size_offset(); found %s" % w)
