"""C21 Register arithmetic and logic instructions follow the specification — discipline clauses.

  WHO-reserved      WriteRegKey is constructed only in WriteRegKey::new on the `k >= RegId::WRITABLE` side;
                    dynamic-index writes to the full register file are the two guarded writers; the raw
                    ProgramRegisters slice is touched only by its own accessors (+ POPL/POPH restore).
  DOM-dest-first    every ALU helper converts the destination with `ra.try_into()?` (ReservedRegisterNotWritable)
                    before anything can write $of/$err/$pc: a reserved destination leaves registers unchanged.
  POST-helpers      alu_capture_overflow / alu_boolean_overflow / alu_error / alu_set / alu_clear / alu_muldiv /
                    alu_narrowint_op: on every Ok path $of, $err (and the destination) are written and inc_pc
                    is called exactly once; ArithmeticOverflow only behind !is_wrapping(flag), ArithmeticError
                    only behind !is_unsafe_math(flag); the values written ($of high bits / 0 / overflow flag,
                    $err 0 / err flag, dest 0 on error) follow the specification shapes.
  TAB-alu-ops       per opcode: helper, operator (u128::overflowing_add, Word::div, BitAnd, checked_shl ...),
                    operand order (rB then rC / immediate) and error predicate — table from the
                    instruction-set specification.
  TAB-narrowint     alu_narrowint_op: one arm per MathOp with its own operator; operands truncated first.
  MAT-panics        ArithmeticOverflow / ArithmeticError / ReservedRegisterNotWritable stay reachable per opcode.
Not decided: numeric results of exp / log / root / muldiv / narrow-int.
"""
import re

from fvlib.core import (CFG, CallGraph, agg_blocks, assignments, bool_switch_targets, call_blocks, calls, callee_matches,
                        callee_name, describe, guards, guard_region, match_commuted, origins, short)
from fvlib.summ import Summaries, ok_sites, path_minmax
from fvlib import vm

IDX = r"call:index\(arg:interpreter\.registers,call:unpack\(arg:self\)\.%d\)"
OPS = {
    # op: (helper, operator regex (arg 2), operand b regex, operand c regex, err regex or None)
    "ADD": ("alu_capture_overflow", r"^fn:.*<impl u128>::overflowing_add$", IDX % 1, IDX % 2, None),
    "ADDI": ("alu_capture_overflow", r"^fn:.*<impl u128>::overflowing_add$", IDX % 1, r"call:unpack\(arg:self\)\.2", None),
    "SUB": ("alu_capture_overflow", r"^fn:.*<impl u128>::overflowing_sub$", IDX % 1, IDX % 2, None),
    "SUBI": ("alu_capture_overflow", r"^fn:.*<impl u128>::overflowing_sub$", IDX % 1, r"call:unpack\(arg:self\)\.2", None),
    "MUL": ("alu_capture_overflow", r"^fn:.*<impl u128>::overflowing_mul$", IDX % 1, IDX % 2, None),
    "MULI": ("alu_capture_overflow", r"^fn:.*<impl u128>::overflowing_mul$", IDX % 1, r"call:unpack\(arg:self\)\.2", None),
    "EXP": ("alu_boolean_overflow", r"^fn:fuel_vm::interpreter::alu::exp$", IDX % 1, IDX % 2, None),
    "EXPI": ("alu_boolean_overflow", r"^fn:.*<impl u64>::overflowing_pow$", IDX % 1, r"call:unpack\(arg:self\)\.2", None),
    "DIV": ("alu_error", r"^fn:<u64 as std::ops::(arith::)?Div>::div$", IDX % 1, IDX % 2, r"^Eq\(" + IDX % 2 + r",const:0\)$"),
    "DIVI": ("alu_error", r"^fn:<u64 as std::ops::(arith::)?Div>::div$", IDX % 1, r"call:unpack\(arg:self\)\.2", r"^Eq\(call:unpack\(arg:self\)\.2,const:0\)$"),
    "MOD": ("alu_error", r"^fn:.*<impl u64>::wrapping_rem$", IDX % 1, IDX % 2, r"^Eq\(" + IDX % 2 + r",const:0\)$"),
    "MODI": ("alu_error", r"^fn:.*<impl u64>::wrapping_rem$", IDX % 1, r"call:unpack\(arg:self\)\.2", r"^Eq\(call:unpack\(arg:self\)\.2,const:0\)$"),
}
SET_OPS = {
    "AND": r"^BitAnd\(%s,%s\)$" % (IDX % 1, IDX % 2), "ANDI": r"^BitAnd\(%s,call:unpack\(arg:self\)\.2\)$" % (IDX % 1),
    "OR": r"^BitOr\(%s,%s\)$" % (IDX % 1, IDX % 2), "ORI": r"^BitOr\(%s,call:unpack\(arg:self\)\.2\)$" % (IDX % 1),
    "XOR": r"^BitXor\(%s,%s\)$" % (IDX % 1, IDX % 2), "XORI": r"^BitXor\(%s,call:unpack\(arg:self\)\.2\)$" % (IDX % 1),
    "NOT": r"^Not\(%s\)$" % (IDX % 1), "MOVE": r"^%s$" % (IDX % 1), "MOVI": r"^call:unpack\(arg:self\)\.1$",
    "EQ": r"^Eq\(%s,%s\)$" % (IDX % 1, IDX % 2), "GT": r"^Gt\(%s,%s\)$" % (IDX % 1, IDX % 2), "LT": r"^Lt\(%s,%s\)$" % (IDX % 1, IDX % 2),
    "SLLI": r"^call:unwrap_or_default\(call:checked_shl\(%s,(call:unpack\(arg:self\)\.2|var:imm)\)\)$" % (IDX % 1),
    "SRLI": r"^call:unwrap_or_default\(call:checked_shr\(%s,(call:unpack\(arg:self\)\.2|var:imm)\)\)$" % (IDX % 1),
}
SHIFT_REG = {"SLL": "checked_shl", "SRL": "checked_shr"}
HELPERS_OVERFLOW = ["alu_capture_overflow", "alu_boolean_overflow"]
FAMILY = {}


def arm_operators(F, f, blocks, depth):
    """operators used in the given blocks of f, following calls into private helpers of fuel_vm::interpreter::alu
    (so that extracting an arm's body into a helper function does not change what the arm is seen to compute)"""
    got = set()
    for b in blocks:
        for s in f["bbs"][b]["s"]:
            if s[0] == "=" and s[2][0] == "bin" and re.match(r"^(Add|Mul|BitXor|Sub|Shl|Shr)", s[2][1]):
                got.add("bin:" + re.sub(r"(WithOverflow|Unchecked)$", "", s[2][1]))
            if s[0] == "=" and s[2][0] == "un":
                got.add("un:" + s[2][1])
        t = f["bbs"][b]["t"]
        if t[0] == "call" and "def" in t[1]:
            nm = callee_name(t[1])
            m = re.search(r"::(overflowing_sub|checked_pow|checked_shl|checked_shr|overflowing_add|overflowing_mul|wrapping_\w+)$", nm)
            if m:
                got.add("call:" + m.group(1))
            elif depth > 0 and nm.startswith("fuel_vm::interpreter::alu::") and not re.search(r"::(split_overflow|truncate)$", nm):
                g = F.fn(nm)
                if g is not None:
                    got |= arm_operators(F, g, [i for i, bb in enumerate(g["bbs"]) if not bb.get("cu")], depth - 1)
    return got


def run(F, rep, tier, allfacts):
    cg = CallGraph(F, ["fuel_vm"])
    S = Summaries(cg)
    H = vm.handlers(F)
    rep.rule("WHO-reserved", "WriteRegKey ctor only in new() on the >= WRITABLE side; dyn writers guarded; raw program-register access ⊆ reviewed")
    rep.rule("DOM-dest-first", "ra.try_into()? dominates every system-register write / inc_pc in the ALU helpers")
    rep.rule("POST-helpers", "$of,$err,dest written and inc_pc exactly once on Ok paths; panics behind flag tests; value shapes")
    rep.rule("TAB-alu-ops", "per-opcode helper/operator/operand-order/error-predicate table")
    rep.rule("TAB-narrowint", "one MathOp arm per operator")
    rep.rule("MAT-panics", "arithmetic panic reasons reachable per opcode")

    # ---------------- WriteRegKey
    K = "fuel_vm::constraints::reg_key::WriteRegKey"
    sites = []
    for n, f in F.all_fns(["fuel_vm"]):
        for i, j, p, rv, line in assignments(f):
            if rv[0] == "agg" and rv[1] == K:
                sites.append((n, i, line))
    for n, i, line in sites:
        f = cg.fns[n]
        ok = n == K + "::new" or re.search(r" as std::clone::Clone>::clone$", n)
        rep.check(bool(ok), "WHO-reserved", "WriteRegKey-literal@" + short(n), "%s:%s" % (f["file"], line), "WriteRegKey constructed outside WriteRegKey::new: " + n)
    nn, nf = F.find(r"^" + re.escape(K) + r"::new$", ["fuel_vm"], one=True)
    rep.saw(nn)
    cfg = CFG(nf)
    okn = False
    ab = [i for n, i, l in sites if n == nn]
    eb = agg_blocks(nf, r"PanicReason$", "ReservedRegisterNotWritable")
    for g in guards(nf):
        reg = guard_region(g, r"into\(arg:\w+\)|^arg:\w+$|^var:\w+$", r"RegId::WRITABLE$")
        if reg is not None and ab and eb:
            ge = g["t"] if reg == {"eq", "gt"} else (g["f"] if reg == {"lt"} else None)
            lt = g["f"] if ge == g["t"] else g["t"]
            okn = ge is not None and ab[0] in cfg.reachable_incl(ge) and ab[0] not in cfg.reachable_incl(lt) and eb[0] in cfg.reachable_incl(lt)
    rep.check(okn, "WHO-reserved", "WriteRegKey::new:k>=WRITABLE", "%s:%s" % (nf["file"], nf["line"]),
              "WriteRegKey::new must build the key exactly when k >= RegId::WRITABLE and fail with ReservedRegisterNotWritable otherwise")
    ws = vm.register_writes(F)
    raw = sorted({w["fn"] for w in ws if w["reg"] == "prog-raw"})
    RAW_OK = re.compile(r"reg_key::(ProgramRegisters|<impl .* for .*ProgramRegisters|split_registers|copy_registers)|ProgramRegisters(Ref)?<'_>|reg_key::.*ProgramRegisters")
    for fnn in raw:
        f = cg.fns[fnn]
        rep.check(bool(RAW_OK.search(fnn)), "WHO-reserved", "raw-program-registers:" + short(fnn), "%s:%s" % (f["file"], f["line"]),
                  "UNREVIEWED direct access to ProgramRegisters.0 (bypasses WriteRegKey): " + fnn)
    dyn = sorted({w["fn"] for w in ws if w["reg"] == "dyn" and not w["fn"].startswith("fuel_vm::call::")})
    DYN_OK = {"write_user_register", "write_user_register_legacy", "copy_registers", "inverse_inner"}
    for fnn in dyn:
        f = cg.fns[fnn]
        rep.check(fnn.rsplit("::", 1)[-1] in DYN_OK, "WHO-reserved", "dyn-writer:" + short(fnn), "%s:%s" % (f["file"], f["line"]),
                  "UNREVIEWED non-constant-index write into the full register file: " + fnn)

    # ---------------- helpers
    A = "fuel_vm::interpreter::alu::"
    IMPL = "<impl fuel_vm::interpreter::Interpreter<M, S, Tx, Ecal, V>>::"
    methods = {
        "alu_capture_overflow": A + IMPL + "alu_capture_overflow", "alu_boolean_overflow": A + IMPL + "alu_boolean_overflow",
        "alu_error": A + IMPL + "alu_error", "alu_set": A + IMPL + "alu_set",
        "alu_muldiv": A + "muldiv::" + IMPL + "alu_muldiv", "alu_narrowint_op": A + "narrowint::" + IMPL + "alu_narrowint_op",
    }
    SYSW = r"DerefMut>::deref_mut$|deref::DerefMut::deref_mut$|internal::inc_pc$|^fuel_vm::interpreter::alu::alu_\w+$"
    for nm, full in sorted(methods.items()):
        f = F.fn(full)
        if f is None:
            rep.anchor_missing("ALU helper " + full)
            continue
        rep.saw(full)
        cfg = CFG(f)
        ti = [(i, tgt) for i, c, a, d, tgt, l in calls(f) if callee_matches(c, r"TryInto.*::try_into$|TryFrom.*::try_from$")]
        wr = [i for i, c, a, d, tgt, l in calls(f) if callee_matches(c, SYSW) and (not callee_name(c).endswith("deref_mut") or "RegMut<" in (c.get("self") or ""))]
        ok = len(ti) >= 1 and bool(wr) and all(cfg.dominates(ti[0][0], w) for w in wr)
        # and the conversion result goes through `?`
        ok = ok and ti[0][1] is not None and f["bbs"][ti[0][1]]["t"][0] == "call" and callee_matches(f["bbs"][ti[0][1]]["t"][1], r"Try(<[^>]*>)?>?::branch$")
        rep.check(ok, "DOM-dest-first", nm, "%s:%s" % (f["file"], f["line"]),
                  "the destination must be converted with try_into()? before any of $of/$err/$pc can change (writes at blocks %s)" % wr)
    # post-conditions on the functions that actually write
    writers = {
        "alu_capture_overflow": A + "alu_capture_overflow", "alu_boolean_overflow": A + "alu_boolean_overflow", "alu_error": A + "alu_error",
        "alu_set": A + "alu_set", "alu_clear": A + "alu_clear", "alu_muldiv": methods["alu_muldiv"], "alu_narrowint_op": methods["alu_narrowint_op"],
    }
    for nm, full in sorted(writers.items()):
        f = F.fn(full)
        if f is None:
            rep.anchor_missing("ALU writer " + full)
            continue
        rep.saw(full)
        cfg = CFG(f)
        oks = ok_sites(f, cfg)
        where = "%s:%s" % (f["file"], f["line"])
        wblocks = {2: set(), 8: set()}
        dm = {}
        for i, c, args, dest, tgt, line in calls(f):
            if callee_name(c).endswith("deref_mut") and dest:
                m = re.search(r"RegMut<'_, (\d+)>", c.get("self") or "")
                if m and int(m.group(1)) in wblocks:
                    dm[dest[0]] = int(m.group(1))
        vals = {2: [], 8: []}
        for i, j, p, rv, line in assignments(f):
            if p[0] in dm and p[1:] == ["*"]:
                wblocks[dm[p[0]]].add(i)
                vals[dm[p[0]]].append(describe(f, rv[1], depth=10) if rv[0] == "use" else (
                    "%s(%s)" % (rv[1], describe(f, rv[2], depth=8)) if rv[0] in ("cast",) else rv[0]))
        inc = call_blocks(f, r"internal::inc_pc$")
        mm = path_minmax(cfg, {b: (1, 1) for b in inc}, set(oks))
        rep.check(all(wblocks[r] and cfg.must_pass(wblocks[r], 0, oks) for r in (2, 8)) and mm == (1, 1), "POST-helpers", nm + ":of+err-written,inc_pc-once", where,
                  "on every Ok path $of and $err must be written and inc_pc called exactly once; of@%s err@%s inc_pc min/max %s" % (sorted(wblocks[2]), sorted(wblocks[8]), mm))
        if nm in ("alu_set", "alu_clear"):
            rep.check(vals[2] == ["const:0"] and vals[8] == ["const:0"], "POST-helpers", nm + ":of=0,err=0", where, "found of=%s err=%s" % (vals[2], vals[8]))
        if nm == "alu_error":
            rep.check(vals[2] == ["const:0"] and len(vals[8]) == 1 and "err_bool" in vals[8][0], "POST-helpers", "alu_error:of=0,err=err_bool", where,
                      "alu_error must clear $of and set $err to the error flag; found of=%s err=%s" % (vals[2], vals[8]))
        if nm in ("alu_capture_overflow", "alu_boolean_overflow", "alu_muldiv", "alu_narrowint_op"):
            rep.check(vals[8] == ["const:0"], "POST-helpers", nm + ":err=0", where, "overflow-family helpers must clear $err; found %s" % vals[8])
        # panic guards
        for reason, guardfn in (("ArithmeticOverflow", r"interpreter::is_wrapping$"), ("ArithmeticError", r"interpreter::is_unsafe_math$")):
            eb = agg_blocks(f, r"PanicReason$", reason)
            if not eb:
                continue
            gb = [(i, tgt) for i, c, a, d, tgt, l in calls(f) if callee_matches(c, guardfn)]
            okg = False
            if len(gb) == 1 and gb[0][1] is not None:
                tt = bool_switch_targets(f["bbs"][gb[0][1]]["t"])
                if tt:
                    # panic only when the flag test is false (not wrapping / not unsafe)
                    okg = eb[0] in cfg.reachable_incl(tt[1]) and eb[0] not in cfg.reachable_incl(tt[0]) and cfg.dominates(gb[0][0], eb[0])
            rep.check(okg, "POST-helpers", "%s:%s-only-if-flag-clear" % (nm, reason), where,
                      "%s must be raised only when the corresponding $flag bit is clear (test %s)" % (reason, guardfn))
        want_reason = "ArithmeticError" if nm == "alu_error" else ("ArithmeticOverflow" if nm not in ("alu_set", "alu_clear") else None)
        if want_reason:
            rep.check(bool(agg_blocks(f, r"PanicReason$", want_reason)), "POST-helpers", nm + ":raises-" + want_reason, where, "%s must be able to raise %s" % (nm, want_reason))
    # capture overflow: of := (result >> 64)
    f = F.fn(writers["alu_capture_overflow"])
    if f:
        shr = [(rv[1], describe(f, rv[3], depth=4)) for i, j, p, rv, line in assignments(f) if rv[0] == "bin" and rv[1].startswith("Shr")]
        rep.check(any(d == "const:64" for _, d in shr), "POST-helpers", "alu_capture_overflow:of=result>>64", "%s:%s" % (f["file"], f["line"]), "found shifts %s" % shr)
        gg = [g for g in guards(f) if guard_region(g, r"\.0$|result", r"MAX|const:18446744073709551615") is not None]
        rep.check(bool(gg) and all(guard_region(g, r"\.0$|result", r"MAX|const:18446744073709551615") == {"gt"} for g in gg), "POST-helpers",
                  "alu_capture_overflow:overflow-iff-result>u64::MAX", "%s:%s" % (f["file"], f["line"]), "overflow test must be result > u64::MAX")

    # ---------------- opcode table
    for op, (helper, oprx, brx, crx, erx) in sorted(OPS.items()):
        n, f = H[op]
        cs = [(callee_name(c).rsplit("::", 1)[-1], [describe(f, a, depth=18) for a in args]) for i, c, args, *_ in calls(f) if re.search(r"::alu_\w+$", callee_name(c))]
        ok = len(cs) == 1 and cs[0][0] == helper
        if ok:
            a = cs[0][1]
            operands = (bool(re.search(brx, a[3])) and bool(re.search(crx, a[4]))) or \
                (op in ("ADD", "ADDI", "MUL", "MULI") and bool(re.search(brx, a[4])) and bool(re.search(crx, a[3])))     # commutative: b+c = c+b
            ok = a[1] == "call:unpack(arg:self).0" and bool(re.match(oprx, a[2])) and operands \
                and (erx is None or match_commuted(erx, a[5]) is not None)
        rep.check(ok, "TAB-alu-ops", "handler:" + op, "%s:%s" % (f["file"], f["line"]),
                  "%s must call %s(rA, %s, rB, %s) %s; found %s" % (op, helper, oprx, "rC/imm", ("with error predicate " + erx) if erx else "", cs))
    for op, rx in sorted(SET_OPS.items()):
        n, f = H[op]
        cs = [[describe(f, a, depth=18) for a in args] for i, c, args, *_ in calls(f) if callee_name(c).endswith("::alu_set")]
        ok = len(cs) == 1 and cs[0][1] == "call:unpack(arg:self).0"
        val = None
        if ok:
            # value operand: describe may stop at casts; take the rvalue behind casts/moves
            val = cs[0][2]
            if val in ("tmp", "un", "cast"):
                pass
            m = re.match(r"^(.*)$", val)
            if val == "un" or val.startswith("cast"):
                pass
        # robust: recompute with explicit unwrap of Not / casts
        if ok:
            from fvlib.core import root_of, op_place
            i0 = [i for i, c, args, *_ in calls(f) if callee_name(c).endswith("::alu_set")][0]
            arg = f["bbs"][i0]["t"][2][2]
            val = describe(f, arg, depth=18)
            p = op_place(arg)
            if p is not None:
                r = root_of(f, p[0])
                if isinstance(r, tuple) and r[0] == "rvalue" and r[1][0] == "un":
                    val = "%s(%s)" % (r[1][1], describe(f, r[1][2], depth=18))
                if isinstance(r, tuple) and r[0] == "rvalue" and r[1][0] == "cast":
                    val = describe(f, r[1][2], depth=18)
            ok = match_commuted(rx, val) is not None
        rep.check(ok, "TAB-alu-ops", "handler:" + op, "%s:%s" % (f["file"], f["line"]), "%s must alu_set(rA, %s); found %s" % (op, rx, val))
    for op, meth in SHIFT_REG.items():
        n, f = H[op]
        cs = [[describe(f, a, depth=18) for a in args] for i, c, args, *_ in calls(f) if callee_matches(c, r"::%s$" % meth)]
        other = [1 for i, c, args, *_ in calls(f) if callee_matches(c, r"::%s$" % ("checked_shr" if meth == "checked_shl" else "checked_shl"))]
        ok = len(cs) == 1 and bool(re.search(IDX % 1, cs[0][0])) and not other and bool(call_blocks(f, r"::alu_set$"))
        rep.check(ok, "TAB-alu-ops", "handler:" + op, "%s:%s" % (f["file"], f["line"]), "%s must shift rB with %s by rC (0 when the amount does not fit); found %s" % (op, meth, cs))
    for op, helper in (("MLDV", "alu_muldiv"), ("NIOP", "alu_narrowint_op"), ("NOOP", "alu_clear")):
        n, f = H[op]
        cs = [[describe(f, a, depth=18) for a in args] for i, c, args, *_ in calls(f) if callee_name(c).endswith("::" + helper)]
        ok = len(cs) == 1
        if ok and op == "MLDV":
            ok = [bool(re.search(IDX % k, cs[0][k + 1])) for k in (1, 2, 3)] == [True, True, True] and cs[0][1] == "call:unpack(arg:self).0"
        if ok and op == "NIOP":
            ok = bool(re.search(IDX % 1, cs[0][2])) and bool(re.search(IDX % 2, cs[0][3])) and "from_imm(" in cs[0][4] and "InvalidImmediateValue" in cs[0][4]
        rep.check(ok, "TAB-alu-ops", "handler:" + op, "%s:%s" % (f["file"], f["line"]), "%s must call %s with (rA, rB, rC[, rD]); found %s" % (op, helper, cs))
    for op, (a_rx, pred) in {"MLOG": (r"checked_ilog", r"lhs == 0 \|\| rhs <= 1"), "MROO": (r"checked_nth_root", r"rhs == 0")}.items():
        n, f = H[op]
        clos = [cf for cn, cf in cg.fns.items() if cf["kind"] == "Closure" and cf.get("parent") == n]
        okc = any(call_blocks(cf, a_rx + "$") for cf in clos) and bool(call_blocks(f, r"::alu_error$"))
        gs = [(g["op"], g["a_desc"][-40:], g["b_desc"]) for g in guards(f)]
        bins = [(rv[1], describe(f, rv[3], depth=4)) for i, j, p, rv, line in assignments(f) if rv[0] == "bin" and rv[1] in ("Eq", "Le", "Lt")]
        if op == "MLOG":
            okp = ("Eq", "const:0") in bins and ("Le", "const:1") in bins
        else:
            okp = ("Eq", "const:0") in bins
        rep.check(okc and okp, "TAB-alu-ops", "handler:" + op, "%s:%s" % (f["file"], f["line"]),
                  "%s must compute %s under alu_error with error predicate `%s`; comparisons found %s" % (op, a_rx, pred, bins))

    # ---------------- narrowint arms
    f = F.fn(methods["alu_narrowint_op"])
    if f:
        cfg = CFG(f)
        msw = None
        for b in sorted(cfg.reach):
            t = f["bbs"][b]["t"]
            if t[0] == "switch" and describe(f, t[1], depth=6) == "disc(arg:args.op)":
                msw = t
        ops_adt = {v["discr"]: v["name"] for v in F.adt("fuel_asm::args::narrowint::MathOp")["variants"]}
        want = {"ADD": {"bin:Add"}, "SUB": {"call:overflowing_sub"}, "MUL": {"bin:Mul"}, "EXP": {"call:checked_pow"}, "SLL": {"call:checked_shl"}, "XNOR": {"bin:BitXor", "un:Not"}}
        if msw is None or len(msw[2]) < len(ops_adt) - 1:
            rep.bad("TAB-narrowint", "switch", "%s:%s" % (f["file"], f["line"]), "no exhaustive switch over MathOp found")
        else:
            arms = {ops_adt.get(v, str(v)): tg for v, tg in msw[2]}
            if len(arms) < len(ops_adt):
                missing = [nm for nm in ops_adt.values() if nm not in arms]
                if len(missing) == 1:
                    arms[missing[0]] = msw[3]
            for nm, tg in sorted(arms.items()):
                mine = cfg.reachable_incl(tg)
                for n2, t2 in arms.items():
                    if n2 != nm:
                        mine = mine - cfg.reachable_incl(t2)
                got = arm_operators(F, f, mine, 2)
                rep.check(want.get(nm, set()) <= got and not (got - want.get(nm, set()) - {"bin:Shr"}), "TAB-narrowint", "arm:" + nm, "%s:%s" % (f["file"], f["line"]),
                          "MathOp::%s must use %s; its arm uses %s" % (nm, sorted(want.get(nm, [])), sorted(got)))
        casts = [describe(f, rv[2], depth=8) for i, j, p, rv, line in assignments(f) if rv[0] == "cast" and rv[3] == "u32"]
        rep.check(bool(casts) and all(c == "call:truncate(arg:rhs,arg:args.width)" for c in casts), "TAB-narrowint", "u32-amount-from-truncated-rhs", "%s:%s" % (f["file"], f["line"]),
                  "the u32 exponent / shift amount must be derived from the width-truncated right operand; found casts of %s" % casts)
        tr = [[describe(f, a, depth=6) for a in args] for i, c, args, *_ in calls(f) if callee_matches(c, r"narrowint::truncate$")]
        rep.check(["arg:lhs", "arg:args.width"] in tr and ["arg:rhs", "arg:args.width"] in tr, "TAB-narrowint", "operands-truncated-first", "%s:%s" % (f["file"], f["line"]),
                  "both operands must be truncated to the operation width; truncate calls %s" % tr)

    # ---------------- MAT
    fam = {"ArithmeticOverflow": ["ADD", "ADDI", "SUB", "SUBI", "MUL", "MULI", "EXP", "EXPI", "MLDV", "NIOP"],
           "ArithmeticError": ["DIV", "DIVI", "MOD", "MODI", "MLOG", "MROO"]}
    allops = sorted(set(list(OPS) + list(SET_OPS) + list(SHIFT_REG) + ["MLDV", "NIOP", "MLOG", "MROO"]))
    cache = {}
    for op in allops:
        n, f = H[op]
        rs = set()
        for g in cg.reachable([n], stop=lambda x: not x.lstrip("<").startswith("fuel_vm::")):
            gf = cg.fns.get(g)
            if gf:
                for i, j, p, rv, line in assignments(gf):
                    if rv[0] == "agg" and rv[1].endswith("::PanicReason"):
                        rs.add(rv[2])
        need = {"ReservedRegisterNotWritable"} | {r for r, ops in fam.items() if op in ops}
        rep.check(need <= rs, "MAT-panics", "handler:" + op, "%s:%s" % (f["file"], f["line"]), "%s can no longer raise %s" % (op, sorted(need - rs)))
