"""C33 Contract storage instructions behave like a key-value map — structural clauses.

  WHO-state-access   the only interpreter functions that read ContractsState are storage_read_slot and
                     storage_slot_len_no_gas; the only writers are storage_write_slot and
                     storage_clear_slot_range (the state-diff utility is outside the execution path).
  CACHE-coherence    both readers look in storage_slot_cache first (the lookup dominates the backing read)
                     and fill the cache with exactly the value read before returning Ok; both writers
                     update the cache for the same (contract, key) with exactly the value written
                     (Some(value) / None) on every Ok path after the backing mutation.
  ID-current         all 13 storage handlers obtain the contract id from internal_contract().
  TAB-range-end      the range-clear overflow pre-check adds (range - 1) to the start key under
                     `range > 1`, agreeing with key_range which adds i for i in 0..range.
  SHAPE-bounds       SRW: len < offset*8+8 -> StorageOutOfBounds; SRWQ: len != 32 -> StorageOutOfBounds;
                     dynamic read: value.get(offset..offset+len) else StorageOutOfBounds, $err = 0/1;
                     update: offset > len or len_after > max -> StorageOutOfBounds; write: len > max.
  MAT-panics         StorageOutOfBounds / TooManySlots / ExpectedInternalContext stay reachable per handler.
  ALWAYS-write-back  the write helpers behind SWRD/SWRI/SUPD/SUPI call storage_write_slot on every Ok path, so the key is
                     present after a successful write for every argument (including a zero-length update of a missing
                     slot).
Not decided: map semantics for overlapping ranges as values.
"""
import re

from fvlib.core import (CFG, CallGraph, agg_blocks, assignments, call_blocks, calls, callee_matches, callee_name,
                        closure_env, describe, family, guards, guard_region, origins, short, simplify_desc, subst_env)
from fvlib.summ import ok_sites
from fvlib import vm

PFX = r"^fuel_vm::interpreter::storage::<impl fuel_vm::interpreter::Interpreter<M, S, Tx, Ecal, V>>::"
STORAGE_OPS = ["SCWQ", "SRW", "SRWQ", "SWW", "SWWQ", "SCLR", "SRDD", "SRDI", "SWRD", "SWRI", "SUPD", "SUPI", "SPLD"]
READ = r"StorageRead.*::read_alloc$|StorageInspect.*::get$|InterpreterStorage::contract_state$|StorageSize.*::size_of_value$|StorageRead.*::read_(exact|zerofill)$"
WRITE = r"InterpreterStorage::contract_state_(insert|remove_range|insert_range)$|StorageMutate.*::(insert|replace|remove|take)$|StorageWrite.*::\w+$"


def is_state(c):
    s = " ".join(c.get("ga", [])) + " " + (c.get("self") or "") + " " + callee_name(c)
    return "ContractsState" in s or "contract_state" in callee_name(c)


def run(F, rep, tier, allfacts):
    cg = CallGraph(F, ["fuel_vm", "fuel_storage"])
    rep.rule("WHO-state-access", "readers/writers of ContractsState in interpreter code = the four reviewed functions")
    rep.rule("CACHE-coherence", "cache lookup dominates backing read; cache filled/updated with the same key and value on every Ok path")
    rep.rule("ID-current", "storage handlers use internal_contract() as the contract id")
    rep.rule("TAB-range-end", "clear-range overflow pre-check adds range-1 under range>1; key_range adds i")
    rep.rule("SHAPE-bounds", "bounds tests of SRW/SRWQ/dynamic read/update/write raise StorageOutOfBounds on the specified side")
    rep.rule("MAT-panics", "storage panic reasons reachable per handler")

    readers, writers = set(), set()
    for n, f in cg.fns.items():
        if not n.startswith("fuel_vm::interpreter::") or "::diff::" in n:
            continue
        for i, c, args, dest, tgt, line in calls(f):
            if "ptr" in c or not is_state(c):
                continue
            if callee_matches(c, WRITE):
                writers.add(n)
            elif callee_matches(c, READ):
                readers.add(n)
    want_r = {"storage_read_slot", "storage_slot_len_no_gas"}
    want_w = {"storage_write_slot", "storage_clear_slot_range"}
    for n in sorted(readers):
        rep.check(n.rsplit("::", 1)[-1] in want_r and re.match(PFX, n), "WHO-state-access", "reader:" + short(n), None,
                  "UNREVIEWED reader of ContractsState (bypasses the slot cache): " + n)
    for n in sorted(writers):
        rep.check(n.rsplit("::", 1)[-1] in want_w and re.match(PFX, n), "WHO-state-access", "writer:" + short(n), None,
                  "UNREVIEWED writer of ContractsState (bypasses the slot cache): " + n)
    rep.floor("WHO-state-access", "readers+writers", len(readers) + len(writers), 4)

    def fn(name):
        n, f = F.find(PFX + name + "$", ["fuel_vm"], one=True)
        rep.saw(n)
        return n, f

    def cache_calls(f, method):
        out = []
        for i, c, args, dest, tgt, line in calls(f):
            if callee_matches(c, r"BTreeMap.*::%s$" % method) and "storage_slot_cache" in describe(f, args[0]):
                out.append((i, [describe(f, a, depth=14) for a in args], line))
        return out

    # ---- readers
    for name in sorted(want_r):
        n, f = fn(name)
        cfg = CFG(f)
        oks = ok_sites(f, cfg)
        gets = cache_calls(f, "get")
        ins = cache_calls(f, "insert")
        rd = [(i, [describe(f, a, depth=14) for a in args]) for i, c, args, *_ in calls(f) if callee_matches(c, r"StorageRead.*::read_alloc$")]
        ok = len(gets) == 1 and len(rd) == 1 and len(ins) == 1
        rep.check(ok, "CACHE-coherence", name + ":shape(get,read,insert)", "%s:%s" % (f["file"], f["line"]),
                  "expected one cache lookup, one backing read, one cache fill; found %d/%d/%d" % (len(gets), len(rd), len(ins)))
        if not ok:
            continue
        rep.check(gets[0][1][1] == "agg:(tuple)(arg:contract_id,arg:key)" and cfg.dominates(gets[0][0], rd[0][0]), "CACHE-coherence",
                  name + ":lookup-dominates-read", "%s:%s" % (f["file"], gets[0][2]),
                  "the cache must be consulted with (contract_id, key) before the backing read; lookup key %s" % gets[0][1][1])
        rep.check(rd[0][1][1] == "call:new(arg:contract_id,arg:key)", "CACHE-coherence", name + ":read-same-key", "%s:%s" % (f["file"], f["line"]),
                  "backing read must use ContractsStateKey::new(contract_id, key); found %s" % rd[0][1][1])
        # on the miss path every Ok exit passes the fill, with the value read
        miss_oks = [o for o in oks if o in cfg.reachable_from(rd[0][0])]
        rep.check(bool(miss_oks) and cfg.must_pass([ins[0][0]], rd[0][0], miss_oks) and ins[0][1][1] == "agg:(tuple)(arg:contract_id,arg:key)"
                  and "read_alloc(" in ins[0][1][2], "CACHE-coherence", name + ":fill-on-miss", "%s:%s" % (f["file"], ins[0][2]),
                  "after a backing read the cache must be filled under the same key with the value read before returning Ok; insert args %s" % ins[0][1][1:])
        # the hit path must not reach the backing read
        hit_ok = [o for o in oks if o not in cfg.reachable_from(rd[0][0])]
        rep.check(bool(hit_ok), "CACHE-coherence", name + ":hit-path-skips-backing-read", "%s:%s" % (f["file"], f["line"]),
                  "a cache hit must return without touching the backing store")

    # ---- writers
    n, f = fn("storage_write_slot")
    cfg = CFG(f)
    oks = ok_sites(f, cfg)
    wr = [(i, [describe(f, a, depth=14) for a in args]) for i, c, args, *_ in calls(f) if callee_matches(c, r"InterpreterStorage::contract_state_insert$")]
    ins = cache_calls(f, "insert")
    ok = len(wr) == 1 and len(ins) == 1
    if ok:
        ok = wr[0][1][1:] == ["arg:contract_id", "arg:key", "call:deref(arg:value)"] and ins[0][1][1] == "agg:(tuple)(arg:contract_id,arg:key)" \
            and ins[0][1][2] == "agg:Option::Some(arg:value)" and cfg.must_pass([ins[0][0]], wr[0][0], [o for o in oks if o in cfg.reachable_from(wr[0][0])])
    rep.check(ok, "CACHE-coherence", "storage_write_slot:cache=Some(value)-after-insert", "%s:%s" % (f["file"], f["line"]),
              "after contract_state_insert(contract_id,key,value) the cache must hold Some(value) for (contract_id,key) on every Ok path; write %s cache %s"
              % (wr and wr[0][1][1:], ins and ins[0][1][1:]))
    # max length guard before the write
    gl = [(g, guard_region(g, r"len\(arg:value\)", r"max_storage_slot_length")) for g in guards(f)]
    gl = [(g, r) for g, r in gl if r is not None]
    eb = agg_blocks(f, r"PanicReason$", "StorageOutOfBounds")
    okg = False
    if gl and eb and wr:
        g, reg = gl[0]
        gt_side = g["t"] if reg == {"gt"} else (g["f"] if reg == {"lt", "eq"} else None)
        okg = gt_side is not None and eb[0] in cfg.reachable_incl(gt_side) and wr[0][0] not in cfg.reachable_incl(gt_side) and cfg.dominates(g["bb"], wr[0][0])
    rep.check(okg, "SHAPE-bounds", "write:len>max->StorageOutOfBounds-before-write", "%s:%s" % (f["file"], f["line"]),
              "a value longer than max_storage_slot_length must be rejected before the store is touched")
    n, f = fn("storage_clear_slot_range")
    n_clear = n
    cfg = CFG(f)
    oks = ok_sites(f, cfg)
    wr = [(i, [describe(f, a, depth=14) for a in args]) for i, c, args, *_ in calls(f) if callee_matches(c, r"InterpreterStorage::contract_state_remove_range$")]
    ins = cache_calls(f, "insert")
    kr = [(i, [describe(f, a, depth=14) for a in args]) for i, c, args, *_ in calls(f) if callee_matches(c, r"interpreter::storage::key_range$")]
    ok = len(wr) == 1 and len(ins) == 1 and len(kr) == 1
    if ok:
        ok = wr[0][1][1:] == ["arg:contract_id", "arg:key", "arg:range"] and kr[0][1] == ["arg:key", "arg:range"] and ins[0][1][2] == "agg:Option::None" \
            and ins[0][1][1].startswith("agg:(tuple)(arg:contract_id,") and cfg.dominates(wr[0][0], ins[0][0])
        # the loop: the cache insert lies on a cycle fed by key_range's iterator, and Ok is reached only through the loop head
        ok = ok and ins[0][0] in cfg.reachable_from(ins[0][0])
    rep.check(ok, "CACHE-coherence", "storage_clear_slot_range:cache=None-for-each-key", "%s:%s" % (f["file"], f["line"]),
              "after contract_state_remove_range the cache must be set to None for every key of key_range(key, range); remove %s key_range %s cache %s"
              % (wr and wr[0][1][1:], kr and kr[0][1], ins and ins[0][1][1:]))
    # range-end pre-check (in storage_clear_slot_range or a private helper of the module it hands key and range to)
    fam = family(F, n_clear, "fuel_vm::interpreter::storage::", depth=1)
    adds = []
    for gn, g in fam.items():
        for i, c, args, *_ in calls(g):
            if callee_matches(c, r"::checked_add$") and "from_big_endian(" in describe(g, args[0], depth=14):
                adds.append((gn, g, i, [describe(g, a, depth=14) for a in args]))
    okr = okg = False
    if len(adds) == 1:
        gn, g, ib, ad = adds[0]
        gcfg = CFG(g)
        first = re.match(r"^call:from_big_endian\((call:(deref|as_ref)\()?arg:\w+\)?\)$", ad[0]) is not None
        sub_form = re.search(r"Sub(WithOverflow|Unchecked)?\(arg:\w+,const:1\)", ad[1]) is not None
        csub_form = re.search(r"call:checked_sub\(arg:\w+,const:1\)", ad[1]) is not None      # None (range == 0) is handled by the Option
        okr = first and (sub_form or csub_form)
        if csub_form:
            okg = True
        else:
            gl = [(gd, guard_region(gd, r"^arg:\w+$", r"^const:1$")) for gd in guards(g)]
            gl = [(gd, r) for gd, r in gl if r is not None]
            if gl:
                gd, reg = gl[0]
                gt_side = gd["t"] if reg == {"gt"} else (gd["f"] if reg == {"lt", "eq"} else None)
                okg = gt_side is not None and ib in gcfg.reachable_incl(gt_side)
        if gn == n_clear and wr:
            okg = okg and not cfg.dominates(ib, wr[0][0]) if not csub_form else okg
    rep.check(okr and okg, "TAB-range-end", "clear:start+(range-1)-under-range>1", "%s:%s" % (f["file"], f["line"]),
              "overflow pre-check must be start.checked_add(range - 1) guarded by range > 1 (the last key of the range must exist, not one past it); found %s" % [(short(x[0]), x[3]) for x in adds])
    kn, kf = F.find(r"^fuel_vm::interpreter::storage::key_range::\{closure#0\}$", ["fuel_vm"], one=True)
    adds = [[describe(kf, a, depth=10) for a in args] for i, c, args, *_ in calls(kf) if callee_matches(c, r"::checked_add$")]
    rep.check(len(adds) == 1 and adds[0][1] in ("call:from(arg:i)", "arg:i") and "#1.0" in adds[0][0], "TAB-range-end", "key_range:start+i", "%s:%s" % (kf["file"], kf["line"]),
              "key_range must yield start.checked_add(i) for each i; found %s" % adds)

    # ---- the cache lives exactly as long as one transaction
    from fvlib.effects import FieldEffects, ResetCoverage
    ife = FieldEffects(cg, r"^fuel_vm::interpreter::Interpreter$", r"fuel_vm::interpreter::Interpreter<")
    irc = ResetCoverage(ife)
    inn, inf = F.find(r"^fuel_vm::interpreter::initialization::.*::init_inner$", ["fuel_vm"], one=True)
    rep.check("storage_slot_cache" in irc.must_reset(inn), "CACHE-coherence", "init_inner:clears-cache", "%s:%s" % (inf["file"], inf["line"]),
              "the slot cache must be cleared when a transaction is initialised (stale entries would change reads of the next transaction)")
    for m in cg.fns:
        if m.startswith("fuel_vm::interpreter::") and "::diff::" not in m and m != inn:
            rs = [x for x in irc.direct(m) if x[1] == "storage_slot_cache"]
            rep.check(not rs, "CACHE-coherence", "no-mid-transaction-reset:" + short(m), "%s:%s" % (cg.fns[m]["file"], rs[0][3] if rs else 0),
                      "the slot cache is reset outside init_inner (hot/cold gas then depends on when that happens): " + m) if rs else None

    # ---- handlers: id from internal_contract
    H = vm.handlers(F)
    helper_rx = r"interpreter::storage::.*::(storage_read_slot|storage_write_slot|storage_write_slot_from_memory|storage_clear_slot_range|storage_read_to_memory|storage_write_from_memory|storage_update_from_memory)$"
    inner_rx = r"interpreter::storage::.*::(dynamic_storage_read|dynamic_storage_write|dynamic_storage_update|storage_preload)$"
    for op in STORAGE_OPS:
        if op not in H:
            rep.anchor_missing("handler " + op)
            continue
        n, f = H[op]
        rep.saw(n)
        sites = [(i, args, line, callee_name(c)) for i, c, args, dest, tgt, line in calls(f) if callee_matches(c, helper_rx)]
        inner = [callee_name(c) for i, c, args, *_ in calls(f) if callee_matches(c, inner_rx)]
        if sites:
            bad = [(cn, describe(f, args[1], depth=12)) for i, args, line, cn in sites
                   if not all("internal_contract(" in x for x in origins(f, args[1], depth=14))]
            rep.check(not bad, "ID-current", "handler:" + op, "%s:%s" % (f["file"], f["line"]),
                      "storage helper called with a contract id that is not internal_contract(): %s" % bad)
        elif inner:
            g = cg.fns[inner[0]]
            s2 = [(i, args, callee_name(c)) for i, c, args, *_ in calls(g) if callee_matches(c, helper_rx)]
            bad = [(cn, describe(g, args[1], depth=12)) for i, args, cn in s2 if not all("internal_contract(" in x for x in origins(g, args[1], depth=14))]
            rep.check(bool(s2) and not bad, "ID-current", "handler:" + op, "%s:%s" % (g["file"], g["line"]),
                      "storage helper called with a contract id that is not internal_contract(): %s" % bad)
        else:
            rep.bad("ID-current", "handler:" + op, "%s:%s" % (f["file"], f["line"]), "storage handler no longer reaches a storage helper")
    # storage_update_from_memory re-derives the id itself before writing
    n, f = fn("storage_update_from_memory")
    s2 = [(args, callee_name(c)) for i, c, args, *_ in calls(f) if callee_matches(c, r"::storage_write_slot$")]
    rep.check(bool(s2) and all(all("internal_contract(" in x or x == "arg:contract_id" for x in origins(f, a[1], depth=14)) for a, _ in s2), "ID-current",
              "storage_update_from_memory:write-id", "%s:%s" % (f["file"], f["line"]), "the slot written back must belong to the current contract")

    # a storage *write* instruction leaves the key present afterwards for every argument (also a zero-length update of
    # a missing slot creates the empty slot): every Ok path of the write helpers reaches storage_write_slot
    rep.rule("ALWAYS-write-back", "storage_update_from_memory / storage_write_from_memory reach storage_write_slot on every Ok path")
    from fvlib.summ import ok_sites as _oks
    for hn in ("storage_update_from_memory", "storage_write_slot_from_memory"):
        try:
            n, f = fn(hn)
        except Exception:
            continue
        c_ = CFG(f)
        wb = [i for i, c, *_ in calls(f) if callee_matches(c, r"::storage_write_slot$")]
        rep.check(bool(wb) and c_.must_pass(wb, 0, _oks(f, c_)), "ALWAYS-write-back", hn, "%s:%s" % (f["file"], f["line"]),
                  "%s can return Ok without calling storage_write_slot: the slot would not exist after a successful write instruction" % hn)

    # ---- bounds shapes
    n, f = fn("storage_read_to_memory")
    clos = [(cn, cf) for cn, cf in cg.fns.items() if cf["kind"] == "Closure" and cf.get("parent") == n]
    okb = False
    for cn, cf in clos:
        gets = [[describe(cf, a, depth=12) for a in args] for i, c, args, *_ in calls(cf) if callee_matches(c, r"slice::<impl \[T\]>::get$")]
        oob = agg_blocks(cf, r"PanicReason$", "StorageOutOfBounds")
        env_ = closure_env(f, cn)        # the range end may be computed in the parent and captured
        rng = [[simplify_desc(subst_env(describe(cf, o, depth=14), env_)) for o in rv[3]] for i, j, p, rv, line in assignments(cf) if rv[0] == "agg" and rv[1].endswith("ops::range::Range")]
        okb = bool(gets) and bool(oob) and any(len(r) == 2 and "saturating_add(" in r[1] and r[0] in r[1] for r in rng)
        errs = set()
        for i, j, p, rv, line in assignments(cf):
            if rv[0] == "agg" and rv[1].endswith("result::Result") and rv[2] == "Ok":
                for o in rv[3]:
                    if o[0] == "k" and o[1].get("t") == "u64" and "v" in o[1]:
                        errs.add(o[1]["v"])
        errs = sorted(errs)
        rep.check(okb, "SHAPE-bounds", "dynamic-read:get(offset..offset+len)-else-OutOfBounds", "%s:%s" % (cf["file"], cf["line"]),
                  "dynamic read must slice value[offset..offset+len] and raise StorageOutOfBounds otherwise; ranges %s" % rng)
        # Some -> Ok(0), None -> Ok(1)
        okv = False
        for i, j, p, rv, line in assignments(cf):
            pass
        rep.check(set(errs) >= {0, 1}, "SHAPE-bounds", "dynamic-read:err=0/1", "%s:%s" % (cf["file"], cf["line"]),
                  "the closure must yield 0 when the slot exists and 1 when it is absent; constants %s" % errs)
    rep.floor("SHAPE-bounds", "storage_read_to_memory closures", len(clos), 1)
    n, f = fn("storage_update_from_memory")
    cfg = CFG(f)
    eb = agg_blocks(f, r"PanicReason$", "StorageOutOfBounds")
    regs = {}
    for g in guards(f):
        r1 = guard_region(g, r"^(var|arg):\w+$", r"^call:len\(")
        if r1 is not None and "max_storage" not in g["a_desc"] + g["b_desc"]:
            regs["offset-vs-len"] = (g, r1)
        r2 = guard_region(g, r"saturating_add\(", r"max_storage_slot_length")
        if r2 is not None:
            regs["after-vs-max"] = (g, r2)
    for k in ("offset-vs-len", "after-vs-max"):
        okk = False
        if k in regs and eb:
            g, reg = regs[k]
            gt_side = g["t"] if reg == {"gt"} else (g["f"] if reg == {"lt", "eq"} else None)
            okk = gt_side is not None and any(b in cfg.reachable_incl(gt_side) for b in eb)
        rep.check(okk, "SHAPE-bounds", "update:" + k + "->StorageOutOfBounds", "%s:%s" % (f["file"], f["line"]),
                  "storage update must raise StorageOutOfBounds exactly on the `>` side of %s; guards %s"
                  % (k, [(g["op"], g["a_desc"][:40], g["b_desc"][:40]) for g in guards(f)]))
    # SRW / SRWQ closures
    for op, want in (("SRW", "lt"), ("SRWQ", "ne")):
        n, f = H[op]
        okk = False
        for cn, cf in cg.fns.items():
            if cf["kind"] == "Closure" and cf.get("parent") == n:
                oob = agg_blocks(cf, r"PanicReason$", "StorageOutOfBounds")
                if not oob:
                    continue
                ccfg = CFG(cf)
                for g in guards(cf):
                    if want == "lt":
                        reg = guard_region(g, r"len\(", r"saturating_add\(call:saturating_mul\(.*const:8\),const:8\)")
                        if reg is not None:
                            side = g["t"] if reg == {"lt"} else (g["f"] if reg == {"eq", "gt"} else None)
                            okk = side is not None and oob[0] in ccfg.reachable_incl(side)
                    else:
                        reg = guard_region(g, r"len\(", r"const:(32|.*Bytes32::LEN)$")
                        if reg is not None:
                            side = g["t"] if reg == {"lt", "gt"} else (g["f"] if reg == {"eq"} else None)
                            okk = side is not None and oob[0] in ccfg.reachable_incl(side)
        rep.check(okk, "SHAPE-bounds", "%s:bounds->StorageOutOfBounds" % op, "%s:%s" % (f["file"], f["line"]),
                  "%s must raise StorageOutOfBounds when the stored value is %s" % (op, "shorter than offset*8+8" if want == "lt" else "not exactly 32 bytes"))

    # ---- MAT
    want = {"SCWQ": {"TooManySlots", "ExpectedInternalContext"}, "SRW": {"StorageOutOfBounds", "ExpectedInternalContext", "ReservedRegisterNotWritable"},
            "SRWQ": {"StorageOutOfBounds", "TooManySlots", "ExpectedInternalContext"}, "SWW": {"ExpectedInternalContext", "StorageOutOfBounds"},
            "SWWQ": {"TooManySlots", "ExpectedInternalContext"}, "SCLR": {"TooManySlots", "ExpectedInternalContext"},
            "SRDD": {"StorageOutOfBounds", "ExpectedInternalContext"}, "SRDI": {"StorageOutOfBounds", "ExpectedInternalContext"},
            "SWRD": {"StorageOutOfBounds", "ExpectedInternalContext"}, "SWRI": {"StorageOutOfBounds", "ExpectedInternalContext"},
            "SUPD": {"StorageOutOfBounds", "ExpectedInternalContext"}, "SUPI": {"StorageOutOfBounds", "ExpectedInternalContext"},
            "SPLD": {"ExpectedInternalContext"}}
    cache = {}
    for op in STORAGE_OPS:
        if op not in H:
            continue
        n, f = H[op]
        rs = set()
        for g in cg.reachable([n], stop=lambda x: not x.lstrip("<").startswith("fuel_vm::")):
            gf = cg.fns.get(g)
            if gf:
                for i, j, p, rv, line in assignments(gf):
                    if rv[0] == "agg" and rv[1].endswith("::PanicReason"):
                        rs.add(rv[2])
        miss = want[op] - rs
        rep.check(not miss, "MAT-panics", "handler:" + op, "%s:%s" % (f["file"], f["line"]), "%s can no longer raise %s" % (op, sorted(miss)))
