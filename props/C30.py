"""C30 Execution touches only the state of contracts listed as inputs — provenance / dominance clauses.

  DOM-inputs-check   every access to contract code / storage slots / balances from the interpreter
                     (helpers contract_size, balance, balance_increase/decrease, the InterpreterStorage /
                     ContractsAssetsStorage contract methods, StorageRead/Size/Inspect/Mutate on the three
                     contract tables, copy_from_storage_zero_fill::<ContractsRawCode>) has its contract id in
                     class CHECKED (dominated by a check_contract_in_inputs on the same value whose result
                     feeds `?`), CURRENT (internal_contract()/current_contract(): a contract entered through a
                     checked CALL), INPUT (iterating the transaction's inputs) or CREATED (the id computed
                     for the Create transaction). Helper functions that take the id as a parameter are
                     summarised and their callers classified instead (interprocedural).
  TAB-verifier       Normal::check_contract_in_inputs returns Ok exactly on the `contains` branch and
                     consults the set it is given; every call site passes the interpreter's
                     `input_contracts` set.
  COV-input-set      `input_contracts` is written only by init_inner, as a whole-field rebuild from the
                     transaction's inputs (never extended in place).
  PRED-storage       every contract-table operation of PredicateStorage fails on all paths; the
                     PREDICATE && !is_predicate_allowed test dominates instruction dispatch.
Known finding: CALL reads the callee's code size before the inputs check (F-C30-CALL).
"""
import re

from fvlib.core import (CFG, CallGraph, agg_blocks, assignments, bool_switch_targets, call_blocks, calls,
                        callee_matches, callee_name, describe, short, op_place)
from fvlib.effects import FieldEffects, ResetCoverage, direct_field_writes
from fvlib.summ import ok_sites

TABLE = r"fuel_vm::storage::(contracts_raw_code::)?ContractsRawCode|fuel_vm::storage::(contracts_state::)?ContractsState\b|fuel_vm::storage::(contracts_assets::)?ContractsAssets\b"
# callee regex -> index of the contract-id (or key) argument
PRIMS = [
    (r"^fuel_vm::interpreter::contract::(contract_size|balance|balance_increase|balance_decrease)$", 1),
    (r"InterpreterStorage::(storage_contract|storage_contract_size|storage_contract_exists|storage_contract_insert|contract_state|contract_state_insert|contract_state_remove_range)$", 1),
    (r"InterpreterStorage::deploy_contract_with_id$", 3),
    (r"ContractsAssetsStorage::contract_asset_id_balance(_insert|_replace)?$", 1),
    (r"^fuel_vm::interpreter::memory::copy_from_storage_zero_fill$", 5),
]
STORAGE_TRAIT = r"fuel_storage::(StorageInspect|StorageMutate|StorageSize|StorageRead|StorageWrite)(<[^>]*>)?::\w+$|fuel_storage::impls::<impl fuel_storage::Storage(Ref|Mut)<'_, T, Type>>::\w+$"
SKIP_FN = re.compile(r"^(fuel_vm::storage::|fuel_vm::interpreter::diff::|<&mut S as fuel_vm::storage::|fuel_vm::memory_client|fuel_vm::transactor|fuel_vm::util::)")
CHECK = r"Verifier::check_contract_in_inputs$|verification::.*check_contract_in_inputs$"


def table_of(c):
    s = " ".join(c.get("ga", [])) + " " + (c.get("self") or "")
    m = re.search(r"Contracts(RawCode|State|Assets)\b", s)
    return m.group(0) if m else None


_AF = {}


def always_fails(F, name, depth):
    """Every path of `name` returns an Err: an Err aggregate, or the result of a helper that itself always fails
    (`fn refuse<T>() -> Result<T, E> { Err(..) }`), on all paths and no Ok aggregate anywhere."""
    if (name, depth) in _AF:
        return _AF[(name, depth)]
    f = F.fn(name)
    res = False
    if f is not None:
        cfg = CFG(f)
        errb = agg_blocks(f, r"result::Result$", "Err")
        okb = agg_blocks(f, r"result::Result$", "Ok")
        via = [i for i, c, args, dest, *_ in calls(f) if dest == [0] and depth > 0 and "def" in c and always_fails(F, callee_name(c), depth - 1)]
        res = bool(errb or via) and not okb and cfg.must_pass(list(errb) + via)
    _AF[(name, depth)] = res
    return res


def run(F, rep, tier, allfacts):
    cg = CallGraph(F, ["fuel_vm", "fuel_storage"])
    rep.rule("DOM-inputs-check", "contract id of every contract-table access ∈ {CHECKED, CURRENT, INPUT, CREATED}")
    rep.rule("TAB-verifier", "Normal verifier: Ok iff contains(id); call sites pass input_contracts")
    rep.rule("COV-input-set", "input_contracts rebuilt (whole assignment) in init_inner only, from tx inputs")
    rep.rule("PRED-storage", "PredicateStorage contract operations always fail; predicate opcode filter dominates dispatch")

    # ------------------------------------------------------------ access sites, interprocedural
    from fvlib.core import dbg_name, origins
    PARAM_FLOW = re.compile(r"^(?:call:new\()?arg:(\w+)(?:,.*\))?$")

    def prim_id_index(c):
        if "ptr" in c:
            return None
        nm = callee_name(c)
        for rx, idx in PRIMS:
            if re.search(rx, nm):
                if "copy_from_storage_zero_fill" in nm and table_of(c) != "ContractsRawCode":
                    return None
                return idx
        if re.search(STORAGE_TRAIT, c["def"]) or re.search(STORAGE_TRAIT, nm):
            if table_of(c):
                return 1
        return None

    def param_of(f, d):
        """If description d is 'the value of parameter X' (possibly wrapped in a key constructor),
        return the parameter's local index."""
        m = PARAM_FLOW.match(d)
        if not m or f["kind"] == "Closure" or m.group(1) == "self":
            return None
        for li in range(1, f["argc"] + 1):
            if dbg_name(f, li) == m.group(1):
                return li
        return None

    param_access = {}   # helper fn -> set of parameter indices flowing into an access as the id

    def collect():
        out = []
        for n, f in cg.fns.items():
            if not n.startswith("fuel_vm::") or SKIP_FN.search(n):
                continue
            for i, c, args, dest, tgt, line in calls(f):
                idx = prim_id_index(c)
                if idx is not None:
                    if idx < len(args):
                        out.append((n, f, i, line, callee_name(c).rsplit("::", 1)[-1], args[idx]))
                    continue
                if "ptr" in c:
                    continue
                for t in cg.targets_of(c):
                    if t in param_access and t.startswith("fuel_vm::"):
                        for k in sorted(param_access[t]):
                            if k - 1 < len(args):
                                out.append((n, f, i, line, "via:" + short(t).rsplit("::", 1)[-1], args[k - 1]))
        return out

    for _round in range(10):
        changed = False
        for (n, f, i, line, what, op) in collect():
            if op_place(op) is None:
                continue
            li = param_of(f, describe(f, op, depth=20))
            if li is not None and li not in param_access.setdefault(n, set()):
                param_access[n].add(li)
                changed = True
        if not changed:
            break
    rep.note("summarised helpers (id is a parameter): %s" % sorted(short(k) for k in param_access))

    # thin wrappers of the verifier check (a private helper that only forwards to check_contract_in_inputs with its own
    # parameters): a call to the wrapper is a check of the argument in the id position
    wrappers = {}
    for wn, wf in cg.fns.items():
        if not wn.startswith("fuel_vm::") or wf["kind"] == "Closure" or SKIP_FN.search(wn) or re.search(CHECK, wn):
            continue
        wc = [(ci, cargs, cdest) for ci, cc, cargs, cdest, *_ in calls(wf) if callee_matches(cc, CHECK) and len(cargs) >= 4]
        if len(wc) != 1 or len(list(calls(wf))) > 3:
            continue
        ci, cargs, cdest = wc[0]
        pid, pset = param_of(wf, describe(wf, cargs[3], depth=8)), param_of(wf, describe(wf, cargs[2], depth=8))
        if pid is not None and pset is not None and (cdest == [0] or any(callee_matches(c2, r"Try(<[^>]*>)?>?::branch$") for _, c2, *_ in calls(wf))):
            wrappers[wn] = (pid - 1, pset - 1)
    if wrappers:
        rep.note("check wrappers: %s" % sorted(short(k) for k in wrappers))

    def check_calls(f_):
        """(block, id operand, set operand, target block) of every verifier check in f_, direct or through a wrapper"""
        out = []
        for ci, cc, cargs, cdest, ctgt, cline in calls(f_):
            if callee_matches(cc, CHECK) and len(cargs) >= 4:
                out.append((ci, cargs[3], cargs[2], ctgt))
            elif "ptr" not in cc:
                for t_ in cg.targets_of(cc):
                    if t_ in wrappers and max(wrappers[t_]) < len(cargs):
                        out.append((ci, cargs[wrappers[t_][0]], cargs[wrappers[t_][1]], ctgt))
        return out

    classified = {}
    ordinals = {}
    for (n, f, i, line, what, op) in collect():
        if op_place(op) is None:
            continue
        d = describe(f, op, depth=20)
        if param_of(f, d) is not None:
            continue            # classified at the callers of this helper
        rep.saw(n)
        cfg = CFG(f)
        cls = None
        for ci, cid_, cset_, ctgt in check_calls(f):
            if ci != i:
                if describe(f, cid_, depth=20) == d and cfg.dominates(ci, i):
                    nb_ = ctgt
                    for _hop in range(4):            # the result may travel through plain jumps (an inlined helper's return) before `?`
                        if nb_ is not None and f["bbs"][nb_]["t"][0] == "goto":
                            nb_ = f["bbs"][nb_]["t"][1]
                    used = nb_ is not None and f["bbs"][nb_]["t"][0] == "call" and callee_matches(f["bbs"][nb_]["t"][1], r"Try(<[^>]*>)?>?::branch$")
                    if used:
                        cls = "CHECKED"
        if cls is None:
            orig = origins(f, op, depth=16)
            cur = lambda x: bool(re.search(r"(internal_contract|current_contract)\(", x)) or bool(re.search(r"^arg:self\.current_contract(@Some(\.0)?)?$", x)) \
                or bool(re.search(r"call:to\(.*call:last\(.*arg:self\.frames", x)) or x in ("agg:Option::None",)
            if orig and all(cur(x) for x in orig):
                cls = "CURRENT"
            elif f["kind"] == "Closure" and re.match(r"^arg:#1\.\d+$|^arg:\w+\.\d+$", d):
                # captured upvar of a closure: classify the capture in the parent
                par = cg.fns.get(f["parent"])
                cls = None
                if par is not None:
                    for pi, pj, pp, prv, pline in assignments(par):
                        if prv[0] == "agg" and prv[1].startswith("closure:") and prv[1].endswith(n.rsplit("::", 1)[-1]) and n.startswith(prv[1][8:].rsplit("::", 1)[0]):
                            idx = int(d.rsplit(".", 1)[-1])
                            if idx < len(prv[3]):
                                od = origins(par, prv[3][idx], depth=16)
                                if od and all(cur(x) for x in od):
                                    cls = "CURRENT(captured)"
            elif re.search(r"inputs\(", d) and n.endswith("::run"):
                cls = "INPUT"
            elif n.endswith("::deploy_inner") and re.search(r"^var:\w+$|Contract::id|contract_id", d):
                cls = "CREATED"
        k0 = "%s:%s" % (short(n), what)
        ordinals[k0] = ordinals.get(k0, -1) + 1
        key = "%s#%d" % (k0, ordinals[k0])
        classified[key] = cls
        if cls is None:
            rep.bad("DOM-inputs-check", key, "%s:%s" % (f["file"], line),
                    "contract-table access %s with contract id `%s` is neither dominated by check_contract_in_inputs on that value "
                    "(result consumed by `?`) nor the current / input / created contract" % (what, d if len(d) < 200 else d[:200] + "..."))
        else:
            rep.ok("DOM-inputs-check", key, cls)
    rep.floor("DOM-inputs-check", "classified access sites", len([k for k, v in classified.items() if v]), 18)
    rep.sample({"sample_sites": dict(list(classified.items())[:14])})
    # CURRENT-field: ctx structs whose current_contract field must come from current_contract()
    for n, f in cg.fns.items():
        if not n.startswith("fuel_vm::interpreter::"):
            continue
        for i, j, p, rv, line in assignments(f):
            if rv[0] == "agg" and "current_contract" in rv[4] and rv[1].startswith("fuel_vm::interpreter::"):
                d = describe(f, rv[3][rv[4].index("current_contract")], depth=12)
                rep.check("current_contract(" in d or bool(re.search(r"call:last\(", d)) and "closure" in d, "DOM-inputs-check", "ctx-field:%s.current_contract" % rv[1].rsplit("::", 1)[-1] + "@" + short(n).rsplit("::", 1)[-1],
                          "%s:%s" % (f["file"], line), "ctx.current_contract must be the result of current_contract(..); found %s" % d)

    # ------------------------------------------------------------ verifier
    vn, vf = F.find(r"^<fuel_vm::verification::Normal as fuel_vm::verification::Verifier>::check_contract_in_inputs$", ["fuel_vm"], one=True)
    rep.saw(vn)
    cfg = CFG(vf)
    cb = [(i, args, tgt) for i, c, args, dest, tgt, line in calls(vf) if callee_matches(c, r"BTreeSet.*::contains$")]
    okb = agg_blocks(vf, r"result::Result$", "Ok")
    eb = agg_blocks(vf, r"PanicReason$", "ContractNotInInputs")
    okv = False
    if len(cb) == 1 and okb and eb:
        i, args, tgt = cb[0]
        tt = bool_switch_targets(vf["bbs"][tgt]["t"]) if tgt is not None else None
        d = [describe(vf, a) for a in args]
        okv = bool(tt) and okb[0] in cfg.reachable_incl(tt[0]) and okb[0] not in cfg.reachable_incl(tt[1]) and eb[0] in cfg.reachable_incl(tt[1]) \
            and d == ["arg:input_contracts", "arg:contract_id"]
    rep.check(okv, "TAB-verifier", "Normal:Ok<=>input_contracts.contains(id)", "%s:%s" % (vf["file"], vf["line"]),
              "Normal::check_contract_in_inputs must return Ok exactly when input_contracts.contains(contract_id)")
    nsites = 0
    sites_ = []
    for n, f in cg.fns.items():
        if not n.startswith("fuel_vm::") or n in wrappers or SKIP_FN.search(n):
            continue
        for ci, cid_, cset_, ctgt in check_calls(f):
            sites_.append((n, f, cset_, f["bbs"][ci]["t"][5]))
    for n, f, cset_, line in sites_:
        d = describe(f, cset_, depth=12)
        nsites += 1
        rep.check(d in ("arg:self.input_contracts",) or d.endswith(".input_contracts"), "TAB-verifier", "site-passes-input_contracts:" + short(n),
                  "%s:%s" % (f["file"], line), "check_contract_in_inputs must be given the interpreter's input_contracts set; found %s" % d)
    rep.floor("TAB-verifier", "check_contract_in_inputs call sites", nsites, 5)
    # ctx.input_contracts fields must come from &self.input_contracts
    for n, f in cg.fns.items():
        if not n.startswith("fuel_vm::interpreter::"):
            continue
        for i, j, p, rv, line in assignments(f):
            if rv[0] == "agg" and "input_contracts" in rv[4] and rv[1].startswith("fuel_vm::interpreter::") and not rv[1].endswith("::Interpreter"):
                d = describe(f, rv[3][rv[4].index("input_contracts")], depth=8)
                rep.check(d == "arg:self.input_contracts", "TAB-verifier", "ctx-field:%s.input_contracts@%s" % (rv[1].rsplit("::", 1)[-1], short(n).rsplit("::", 1)[-1]),
                          "%s:%s" % (f["file"], line), "ctx.input_contracts must borrow self.input_contracts; found %s" % d)

    # ------------------------------------------------------------ input set coverage
    ADT = r"^fuel_vm::interpreter::Interpreter$"
    fe = FieldEffects(cg, ADT, r"fuel_vm::interpreter::Interpreter<")
    rc = ResetCoverage(fe)
    writers = sorted({m for m, ws in fe.direct.items() for w in ws if w[1] == "input_contracts"})
    allowed = [m for m in writers if re.search(r"initialization::.*::init_inner$|constructors::|diff::", m)]
    for m in writers:
        rep.check(m in allowed, "COV-input-set", "writer:" + short(m), None, "input_contracts is written outside init_inner/constructors: " + m)
    inn, inf = F.find(r"^fuel_vm::interpreter::initialization::.*::init_inner$", ["fuel_vm"], one=True)
    must = rc.must_reset(inn)
    rep.check("input_contracts" in must, "COV-input-set", "init_inner:rebuilds-input_contracts", "%s:%s" % (inf["file"], inf["line"]),
              "init_inner must rebuild input_contracts by whole-field assignment on every path (an in-place extend keeps the previous transaction's contracts)")
    src = None
    for i, j, p, rv, line in assignments(inf):
        if p[1:] and isinstance(p[-1], list) and p[-1][0] == "f" and p[-1][2] == "input_contracts" and rv[0] == "use":
            src = describe(inf, rv[1], depth=14)
    rep.check(src is not None and "inputs(" in src and "collect(" in src, "COV-input-set", "init_inner:from-tx-inputs", "%s:%s" % (inf["file"], inf["line"]),
              "input_contracts must be collected from self.tx.inputs(); found %s" % src)

    # ------------------------------------------------------------ predicates
    npred = 0
    for imp in F.impls("fuel_vm"):
        st = imp["self"]
        tr = imp.get("traitref") or ""
        if not st.startswith("fuel_vm::storage::predicate::PredicateStorage<"):
            continue
        if not re.search(r"Contracts(RawCode|State|Assets)\b", tr) and not re.search(r"ContractsAssetsStorage|InterpreterStorage", tr) and "<Type>" not in tr:
            continue
        for name, dp, kind in imp["items"]:
            if not kind.startswith("Fn"):
                continue
            f = F.fn(dp)
            if f is None:
                continue
            if re.search(r"InterpreterStorage", tr) and not re.search(r"contract|storage_contract|deploy|set_", name):
                continue
            if "<Type>" in tr and "StorageInspect" not in tr and "StorageMutate" not in tr:
                continue
            fails = always_fails(F, dp, 2)
            # generic get/contains_key for all tables delegate: accept only pure-error bodies
            npred += 1
            rep.check(fails, "PRED-storage", "PredicateStorage:%s::%s" % (tr.rsplit("::", 1)[-1], name), "%s:%s" % (f["file"], f["line"]),
                      "PredicateStorage::%s for %s must return Err on every path" % (name, tr))
    rep.floor("PRED-storage", "PredicateStorage contract-table methods", npred, 20)
    dn, df = F.find(r"executors::instruction::.*::instruction_inner$", ["fuel_vm"], one=True)
    rep.saw(dn)
    cfg = CFG(df)
    pa = call_blocks(df, r"Opcode::is_predicate_allowed$")
    ex = call_blocks(df, r"executors::instruction::execute_instruction$")
    eb = agg_blocks(df, r"PanicReason$", "ContractInstructionNotAllowed")
    # the `PREDICATE` const generic shows up as a switch on an unevaluated bool constant: cut its
    # false (non-predicate) edge and require that dispatch is then unreachable without the filter.
    okd = False
    if pa and ex and eb:
        cut = {}
        for b in cfg.reach:
            t = df["bbs"][b]["t"]
            if t[0] == "switch" and len(t[2]) == 1 and t[2][0][0] == 0:
                k = None
                if t[1][0] == "k":
                    k = t[1][1]
                else:
                    from fvlib.core import root_of
                    r = root_of(df, t[1][1][0])
                    if isinstance(r, tuple) and r[0] == "const":
                        k = r[1]
                if k is not None and k.get("t") == "bool" and "v" not in k:
                    cut[b] = t[2][0][1]
        seen = {0}
        stack = [0]
        while stack:
            b = stack.pop()
            if b == pa[0]:
                continue
            for sx in cfg.succ[b]:
                if cut.get(b) == sx:
                    continue
                if sx not in seen:
                    seen.add(sx)
                    stack.append(sx)
        okd = bool(cut) and ex[0] not in seen
    rep.check(okd, "PRED-storage", "predicate-filter-dominates-dispatch",
              "%s:%s" % (df["file"], df["line"]), "in predicate mode (PREDICATE = true) every path to execute_instruction must pass the is_predicate_allowed test")
    if pa and ex and eb:
        tgt = df["bbs"][pa[0]]["t"][4]
        tt = bool_switch_targets(df["bbs"][tgt]["t"]) if tgt is not None else None
        # `!allowed` : Not then switch, or direct; the side reaching the error must not reach dispatch
        sides = cfg.succ[tgt] if tt is None else list(tt)
        okp = False
        for s in set(cfg.reachable_from(pa[0])):
            t = df["bbs"][s]["t"]
            if t[0] == "switch" and eb[0] in cfg.reachable_from(s):
                for side in cfg.succ[s]:
                    if eb[0] in cfg.reachable_incl(side) and ex[0] not in cfg.reachable_incl(side):
                        okp = True
        rep.check(okp, "PRED-storage", "disallowed-opcode-never-dispatched", "%s:%s" % (df["file"], df["line"]),
                  "the branch that raises ContractInstructionNotAllowed must not reach execute_instruction")
