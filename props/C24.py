"""C24 Programs can only write memory they own — structural clauses.

  WHO-noownerchecks   call sites of MemoryInstance::write_noownerchecks / write_bytes_noownerchecks in
                      library code = the reviewed table (function -> max count, reason). A new caller or
                      an extra site fails closed: an unchecked write path is what C24 forbids.
  WHO-owner-ctor      OwnershipRegisters is built only by `new` and `only_allow_stack_write`, its fields
                      are never assigned afterwards, and only the LDC code-loading modes call
                      only_allow_stack_write (with the live $ssp / $hp).
  TAB-owner-new       OwnershipRegisters::new reads sp/ssp/hp from $sp/$ssp/$hp and prev_hp from the
                      *last* (= direct caller's) frame's saved $hp, defaulting to VM_MAX_RAM.
  DOM-write           MemoryInstance::write: verify then verify_ownership(range) dominate the unchecked
                      write; memcopy: the overlap test and verify_ownership(dst_range) dominate every copy.
  SHAPE-ownership     has_ownership_heap denies start < hp and requires hp != prev_hp and end <= prev_hp;
                      has_ownership_stack tests start in [ssp, sp), end in [ssp, sp], end <= VM_MAX_RAM;
                      verify_ownership maps false to MemoryOwnership.
  MAT-panics          MemoryOwnership / MemoryOverflow / UninitalizedMemoryAccess remain constructible
                      from every storing handler's call graph.
Not decided: the full interval arithmetic for every value (an order-domain interpretation is future work).
"""
import re
from collections import Counter

from fvlib.core import (CFG, CallGraph, agg_blocks, assignments, call_blocks, calls, callee_matches,
                        callee_name, comparisons, describe, describe_nf, guards, guard_region, short, op_place, kdesc)
from fvlib.effects import direct_field_writes
from fvlib import vm

IMPL = "<impl fuel_vm::interpreter::Interpreter<M, S, Tx, Ecal, V>>"
NOOWNER = {
    "fuel_vm::interpreter::balances::RuntimeBalances::set_memory_balance_inner": (1, "VM-owned balance table in the tx preamble"),
    "fuel_vm::interpreter::balances::RuntimeBalances::to_vm::{closure#0}": (2, "VM init: writes the balance table"),
    "fuel_vm::interpreter::blockchain::LoadContractCodeCtx::<'_, S, V>::load_contract_code": (1, "LDC: updates code-size word of the current call frame"),
    "fuel_vm::interpreter::blockchain::LoadContractCodeCtx::<'_, S, V>::load_blob_code": (1, "LDC: updates code-size word of the current call frame"),
    "fuel_vm::interpreter::blockchain::LoadContractCodeCtx::<'_, S, V>::load_memory_code": (1, "LDC: updates code-size word of the current call frame"),
    "fuel_vm::interpreter::blockchain::CodeRootCtx::<'_, S, V>::code_root": (1, "CROO: bounds probe of the destination before charging; result unused, real write is ownership-checked"),
    "fuel_vm::interpreter::flow::PrepareCallCtx::<'_, S, V>::prepare_call": (1, "CALL: writes the call frame + code into freshly grown stack"),
    "fuel_vm::interpreter::initialization::%s::init_inner" % IMPL: (4, "VM init: tx id, base asset, tx size, tx bytes"),
    "fuel_vm::interpreter::internal::update_memory_output": (1, "mirror of a mutated tx output into the tx image"),
    "fuel_vm::interpreter::memory::MemoryInstance::write_bytes_noownerchecks": (1, "wrapper"),
    "fuel_vm::interpreter::memory::MemoryInstance::write": (1, "the ownership-checked gateway itself"),
    "fuel_vm::interpreter::memory::push_selected_registers": (1, "PSHL/PSHH: writes into stack space reserved just before by try_update_stack_pointer"),
}
STACK_ONLY_CALLERS = {
    "fuel_vm::interpreter::blockchain::LoadContractCodeCtx::<'_, S, V>::load_contract_code",
    "fuel_vm::interpreter::blockchain::LoadContractCodeCtx::<'_, S, V>::load_blob_code",
    "fuel_vm::interpreter::blockchain::LoadContractCodeCtx::<'_, S, V>::load_memory_code",
}
OWN = "fuel_vm::interpreter::memory::OwnershipRegisters"


def run(F, rep, tier, allfacts):
    cg = CallGraph(F)
    rep.rule("WHO-noownerchecks", "callers of write_*_noownerchecks ⊆ reviewed table (per-function site count)")
    rep.rule("WHO-owner-ctor", "OwnershipRegisters constructed only in new/only_allow_stack_write; fields never reassigned; only LDC uses only_allow_stack_write")
    rep.rule("TAB-owner-new", "new(): sp,ssp,hp from live registers; prev_hp from frames.last() saved $hp or VM_MAX_RAM")
    rep.rule("DOM-write", "ownership verification dominates the raw write in write() and every copy in memcopy()")
    rep.rule("SHAPE-ownership", "comparison atoms of has_ownership_heap/stack have the specified regions")
    rep.rule("MAT-panics", "memory panic reasons stay reachable from storing handlers")

    # ---- WHO noownerchecks
    sites = Counter()
    where = {}
    for n, i, c, args, line in cg.callers_of(r"^fuel_vm::interpreter::memory::MemoryInstance::write(_bytes)?_noownerchecks$"):
        sites[n] += 1
        where.setdefault(n, line)
    rep.floor("WHO-noownerchecks", "call sites", sum(sites.values()), 10)
    for n, k in sorted(sites.items()):
        rep.saw(n)
        f = cg.fns[n]
        lim = NOOWNER.get(n)
        if lim is None:
            rep.bad("WHO-noownerchecks", "caller:" + short(n), "%s:%s" % (f["file"], where[n]),
                    "UNREVIEWED caller of an ownership-unchecked memory write: %s (%d site(s))" % (n, k))
        else:
            rep.check(k <= lim[0], "WHO-noownerchecks", "caller:" + short(n), "%s:%s" % (f["file"], where[n]),
                      "%s has %d unchecked-write sites, reviewed maximum is %d (%s)" % (n, k, lim[0], lim[1]))
    # positive control
    if "fuel_vm::interpreter::memory::MemoryInstance::write" not in sites:
        rep.anchor_missing("MemoryInstance::write no longer calls write_noownerchecks (positive control)")

    # ---- ctor
    ctors = set()
    for n, f in F.all_fns():
        if agg_blocks(f, r"^" + re.escape(OWN) + "$"):
            ctors.add(n)
        fw = [w for w in direct_field_writes(f, r"^" + re.escape(OWN) + "$") if w[2] in ("assign", "calldest", "mutref")]
        for (bb, fld, kind, line) in fw:
            rep.bad("WHO-owner-ctor", "field-write:%s.%s" % (short(n), fld), "%s:%s" % (f["file"], line),
                    "OwnershipRegisters.%s is modified after construction in %s" % (fld, n))
    allowed = {OWN + "::new", OWN + "::only_allow_stack_write"}
    for n in sorted(ctors):
        f = cg.fns[n]
        rep.check(n in allowed, "WHO-owner-ctor", "ctor:" + short(n), "%s:%s" % (f["file"], f["line"]),
                  "OwnershipRegisters literal built outside new/only_allow_stack_write: " + n)
    rep.floor("WHO-owner-ctor", "constructors found", len(ctors & allowed), 2)
    for n, i, c, args, line in cg.callers_of(r"^" + re.escape(OWN) + "::only_allow_stack_write$"):
        f = cg.fns[n]
        ok = n in STACK_ONLY_CALLERS
        d = [describe(f, a) for a in args]
        ok2 = len(d) == 3 and d[1] == "call:deref(arg:self.ssp)" and d[2] == "call:deref(arg:self.hp)" and "arg:self.ssp" in d[0]
        rep.check(ok and ok2, "WHO-owner-ctor", "stack-only-caller:" + short(n), "%s:%s" % (f["file"], line),
                  "only_allow_stack_write may be used only by the LDC loaders with (ssp+len, $ssp, $hp); caller %s args %s" % (n, d))

    # ---- new()
    nn, nf = F.find(r"^" + re.escape(OWN) + "::new$", ["fuel_vm"], one=True)
    rep.saw(nn)
    fields, fields_nf = {}, {}
    for i, j, p, rv, line in assignments(nf):
        if rv[0] == "agg" and rv[1] == OWN:
            fields = dict(zip(rv[4], [describe(nf, o) for o in rv[3]]))
            fields_nf = dict(zip(rv[4], [describe_nf(F, nf, o, depth=24) for o in rv[3]]))
    want = {"sp": "RegId::SP", "ssp": "RegId::SSP", "hp": "RegId::HP"}
    for k, reg in want.items():
        d = fields.get(k, "")
        rep.check(bool(re.match(r"^call:index\(arg:vm\.registers,const:fuel_asm::%s\)$" % reg, d)), "TAB-owner-new", "new:" + k,
                  "%s:%s" % (nf["file"], nf["line"]), "OwnershipRegisters::new must read %s from vm.registers[%s]; found %s" % (k, reg, d))
    d = fields.get("prev_hp", "")
    lasts = [describe(nf, args[0]) for i, c, args, *_ in calls(nf) if callee_matches(c, r"slice::<impl \[T\]>::last$")]
    # name-/shape-free: the value is {HP saved in the last call frame | VM_MAX_RAM when there is none} (map/unwrap_or or match)
    dn = fields_nf.get("prev_hp", "")
    okp = (bool(re.search(r"unwrap_or\(call:map\(call:last\(", d)) or (re.search(r"call:last\(.*arg:vm\.frames", dn) is not None and "RegId::HP" in dn)) \
        and any("arg:vm.frames" in x for x in lasts) and "VM_MAX_RAM" in d + dn
    d = d + " nf=" + dn
    d = d + " last-args=%s" % lasts
    rep.check(okp, "TAB-owner-new", "new:prev_hp=frames.last()", "%s:%s" % (nf["file"], nf["line"]),
              "prev_hp must come from vm.frames.last() (the direct caller's frame) with default VM_MAX_RAM; found %s" % d)
    # the closure reads registers()[HP]
    # frame.registers()[RegId::HP] is read in `new` itself (match form) or in its mapping closure
    fam_ = [(OWN + "::new", nf)] + F.find(r"^" + re.escape(OWN) + r"::new::\{closure#\d+\}$", ["fuel_vm"], required=False)
    okr, ds = False, []
    for cn, cf in fam_:
        regs_ = [dest for _, c, args, dest, *_ in calls(cf) if callee_matches(c, r"CallFrame::registers$")]
        for i, c, args, *_ in calls(cf):
            if callee_matches(c, r"Index.*::index$"):
                dd = [describe(cf, a) for a in args]
                ds.append(dd)
                if regs_ and "registers(" in dd[0] and "RegId::HP" in dd[1]:
                    okr = True
    rep.check(okr, "TAB-owner-new", "new:prev_hp-reads-frame-HP", "%s:%s" % (nf["file"], nf["line"]),
              "prev_hp must be frame.registers()[RegId::HP]; found index args %s" % ds)
    rep.sample({"OwnershipRegisters::new": fields})

    # ---- write / memcopy dominance
    wn, wf = F.find(r"^fuel_vm::interpreter::memory::MemoryInstance::write$", ["fuel_vm"], one=True)
    rep.saw(wn)
    cfg = CFG(wf)
    vb = call_blocks(wf, r"MemoryInstance::verify$")
    ob = call_blocks(wf, r"OwnershipRegisters::verify_ownership$")
    rb = call_blocks(wf, r"MemoryInstance::write_noownerchecks$")
    ok = bool(vb and ob and rb) and all(cfg.dominates(vb[0], r) and cfg.dominates(ob[0], r) for r in rb)
    # ownership's Err must not fall through: raw write only on the Continue side of `?`
    ok = ok and all(cfg.must_pass(ob, 0, [r]) for r in rb)
    rep.check(ok, "DOM-write", "write:verify+ownership-dominate-raw", "%s:%s" % (wf["file"], wf["line"]),
              "MemoryInstance::write must verify range and ownership before handing out the slice")
    if ob:
        a = wf["bbs"][ob[0]]["t"][2]
        rep.check("verify(" in describe(wf, a[1]) and describe(wf, a[0]).startswith("arg:owner"), "DOM-write", "write:ownership-of-verified-range",
                  "%s:%s" % (wf["file"], wf["line"]), "verify_ownership must be applied to the verified range by the caller's owner; found %s" % [describe(wf, x) for x in a])
    mn, mf = F.find(r"^fuel_vm::interpreter::memory::MemoryInstance::memcopy$", ["fuel_vm"], one=True)
    rep.saw(mn)
    cfg = CFG(mf)
    ob = call_blocks(mf, r"OwnershipRegisters::verify_ownership$")
    copies = call_blocks(mf, r"(copy_within|copy_from_slice)$")
    rep.floor("DOM-write", "copy sites in memcopy", len(copies), 3)
    okm = bool(ob) and all(cfg.dominates(ob[0], c) for c in copies)
    rep.check(okm, "DOM-write", "memcopy:ownership-dominates-copies", "%s:%s" % (mf["file"], mf["line"]),
              "verify_ownership must dominate every copy in memcopy")
    if ob:
        a = mf["bbs"][ob[0]]["t"][2]
        rep.check("dst" in describe(mf, a[1]) and "src" not in describe(mf, a[1]), "DOM-write", "memcopy:ownership-of-dst",
                  "%s:%s" % (mf["file"], mf["line"]), "ownership must be verified for the destination range; found %s" % describe(mf, a[1]))
    ovl = agg_blocks(mf, r"PanicReason$", "MemoryWriteOverlap")
    rep.check(bool(ovl) and all(not cfg.dominates(c, ovl[0]) for c in copies) and all(
        cfg.path_avoiding([], ovl[0], [c]) is None for c in copies), "DOM-write", "memcopy:overlap-test-before-copies",
        "%s:%s" % (mf["file"], mf["line"]), "the MemoryWriteOverlap exit must be decided before (and exclude) every copy")

    # ---- ownership predicates
    hn, hf = F.find(r"^" + re.escape(OWN) + "::has_ownership_heap$", ["fuel_vm"], one=True)
    rep.saw(hn)
    cfg = CFG(hf)
    false_blocks = {i for i, j, p, rv, line in assignments(hf) if p == [0] and rv[0] == "use" and rv[1][0] == "k" and rv[1][1].get("v") == 0}
    g1 = None
    for g in guards(hf):
        reg = guard_region(g, r"^arg:range\.start$", r"^arg:self\.hp$")
        if reg is not None and g["op"] not in ("Eq", "Ne"):
            lt_side = g["t"] if reg == {"lt"} else (g["f"] if reg == {"eq", "gt"} else None)
            if lt_side is not None:
                # the lt side must return false without further tests
                g1 = lt_side in false_blocks or all(s in false_blocks for s in cfg.succ[lt_side])
    rep.check(bool(g1), "SHAPE-ownership", "heap:deny-start<hp", "%s:%s" % (hf["file"], hf["line"]),
              "has_ownership_heap must return false exactly on the start < hp side of a (start, hp) comparison")
    g3 = None
    for g in guards(hf):
        reg = guard_region(g, r"^arg:self\.hp$", r"^arg:self\.prev_hp$")
        if reg is not None:
            eq_side = g["t"] if reg == {"eq"} else (g["f"] if reg == {"lt", "gt"} else None)
            g3 = eq_side is not None and eq_side in false_blocks
    rep.check(bool(g3), "SHAPE-ownership", "heap:deny-hp==prev_hp", "%s:%s" % (hf["file"], hf["line"]),
              "has_ownership_heap must deny when hp == prev_hp (frame allocated nothing)")
    g2 = False
    for i, j, p, rv, line in assignments(hf):
        if p == [0] and rv[0] == "bin":
            a, b = describe(hf, rv[2]), describe(hf, rv[3])
            from fvlib.core import CMP_REGION, FLIP
            if rv[1] in CMP_REGION:
                reg = set(CMP_REGION[rv[1]])
                if (a, b) == ("arg:self.prev_hp", "arg:range.end"):
                    reg = {FLIP[x] for x in reg}
                    a, b = b, a
                g2 = (a, b) == ("arg:range.end", "arg:self.prev_hp") and reg == {"lt", "eq"}
    rep.check(g2, "SHAPE-ownership", "heap:end<=prev_hp", "%s:%s" % (hf["file"], hf["line"]),
              "has_ownership_heap's final answer must be range.end <= prev_hp")
    sn, sf = F.find(r"^" + re.escape(OWN) + "::has_ownership_stack$", ["fuel_vm"], one=True)
    rep.saw(sn)
    cs = [(callee_name(c), [describe(sf, a) for a in args]) for i, c, args, *_ in calls(sf)]
    s1 = any(bool(re.search(r"ops::(range::)?Range::<Idx>::contains$", n)) and a[1] == "arg:range.start" for n, a in cs) and any(
        rv[0] == "agg" and rv[1].endswith("ops::range::Range") and [describe(sf, o) for o in rv[3]] == ["arg:self.ssp", "arg:self.sp"]
        for i, j, p, rv, line in assignments(sf))
    s2 = any(bool(re.search(r"RangeInclusive::<Idx>::contains$", n)) and a[0] == "call:new(arg:self.ssp,arg:self.sp)" and a[1] == "arg:range.end" for n, a in cs)
    alt = {}
    for g in comparisons(sf):
        for nm, (x, y) in {"start-ssp": (r"^arg:range\.start$", r"^arg:self\.ssp$"), "start-sp": (r"^arg:range\.start$", r"^arg:self\.sp$"),
                           "end-ssp": (r"^arg:range\.end$", r"^arg:self\.ssp$"), "end-sp": (r"^arg:range\.end$", r"^arg:self\.sp$")}.items():
            reg = guard_region(g, x, y)
            if reg is not None and g["op"] not in ("Eq", "Ne"):
                alt[nm] = reg
    rep.check(s1 or ("start-ssp" in alt and "start-sp" in alt), "SHAPE-ownership", "stack:start-in-[ssp,sp)", "%s:%s" % (sf["file"], sf["line"]),
              "has_ownership_stack must test range.start against the half-open interval ssp..sp; calls=%s" % cs)
    rep.check(s2 or ("end-ssp" in alt and "end-sp" in alt), "SHAPE-ownership", "stack:end-in-[ssp,sp]", "%s:%s" % (sf["file"], sf["line"]),
              "has_ownership_stack must test range.end against the closed interval ssp..=sp; calls=%s" % cs)
    vn, vf = F.find(r"^" + re.escape(OWN) + "::verify_ownership$", ["fuel_vm"], one=True)
    rep.saw(vn)
    cfg = CFG(vf)
    hb = call_blocks(vf, r"has_ownership_range$")
    okb = agg_blocks(vf, r"result::Result$", "Ok")
    eb = agg_blocks(vf, r"PanicReason$", "MemoryOwnership")
    okv = False
    if hb and okb and eb:
        sw = vf["bbs"][hb[0]]["t"][4]
        from fvlib.core import bool_switch_targets
        tt = bool_switch_targets(vf["bbs"][sw]["t"]) if sw is not None else None
        if tt:
            okv = okb[0] in cfg.reachable_incl(tt[0]) and eb[0] in cfg.reachable_incl(tt[1]) and okb[0] not in cfg.reachable_incl(tt[1])
    rep.check(okv, "SHAPE-ownership", "verify_ownership:false->MemoryOwnership", "%s:%s" % (vf["file"], vf["line"]),
              "verify_ownership must return Ok only on the true branch of has_ownership_range")
    rn, rf = F.find(r"^" + re.escape(OWN) + "::has_ownership_range$", ["fuel_vm"], one=True)
    rep.check(bool(call_blocks(rf, r"has_ownership_stack$")) and bool(call_blocks(rf, r"has_ownership_heap$")), "SHAPE-ownership",
              "range=stack||heap", None, "has_ownership_range must consult both regions")

    # ---- MAT
    H = vm.handlers(F)
    storing = ["SB", "SW", "SQW", "SHW", "MCL", "MCLI", "MCP", "MCPI", "CCP", "S256", "K256", "ECK1", "ECR1", "BHSH", "CB",
               "WDOP", "WQOP", "WDML", "WQML", "WDDV", "WQDV", "WDMD", "WQMD", "WDAM", "WQAM", "WDMM", "WQMM", "SRWQ", "SRDD", "SRDI",
               "CROO", "BLDD", "LDC", "ECOP"]
    want_reasons = ("MemoryOwnership", "MemoryOverflow", "UninitalizedMemoryAccess")
    cache = {}

    def reasons(n):
        if n not in cache:
            rs = set()
            for g in cg.reachable([n], stop=lambda x: not x.lstrip("<").startswith("fuel_vm::")):
                f = cg.fns.get(g)
                if not f:
                    continue
                for i, j, p, rv, line in assignments(f):
                    if rv[0] == "agg" and rv[1].endswith("::PanicReason"):
                        rs.add(rv[2])
            cache[n] = rs
        return cache[n]

    for op in storing:
        if op not in H:
            rep.anchor_missing("handler " + op)
            continue
        n, f = H[op]
        rs = reasons(n)
        miss = [r for r in want_reasons if r not in rs]
        rep.check(not miss, "MAT-panics", "handler:" + op, "%s:%s" % (f["file"], f["line"]),
                  "storing handler %s can no longer raise %s" % (op, miss))
