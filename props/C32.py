"""C32 Breakpoints and single-stepping do not change execution results — effect-confinement clauses.

  CONFINE-debug     eval_debugger_state and everything it reaches write no Interpreter field other than
                    `debugger`, and Debugger::eval_state writes only Debugger fields (last_state is *taken*,
                    which is what suppresses the duplicate event when resuming at the same location).
  DOM-early-return  instruction_per_inner: when the debugger is active and says stop, it returns Ok(debug
                    event) before instruction_inner is called and without any other effect; when it says
                    continue (or is inactive) the instruction executes exactly once. Decided by case analysis
                    (fvlib.cases) over {inactive, active & continue, active & stop}, so `!should_continue()` and a
                    match on DebugEval are the same.
  DEBUG-exit        run_program's DebugEvent arm records the state and returns immediately: no receipt,
                    no finalize_outputs, no receipts-root write is reachable from it; `resume` re-enters
                    run_program only from RunProgram and records the new debug state only when is_debug().
  SHAPE-eval        eval_state: single-stepping or a matching breakpoint produces an event unless the taken
                    last state equals the current location (then Continue).
Not decided: equality of final results (values).
"""
import re

from fvlib.core import (CFG, CallGraph, agg_blocks, assignments, bool_switch_targets, call_blocks, calls, callee_matches,
                        callee_name, describe, enum_switches, short)
from fvlib.effects import FieldEffects
from fvlib.summ import ok_sites, path_minmax
from fvlib import vm


def run(F, rep, tier, allfacts):
    cg = CallGraph(F, ["fuel_vm"])
    rep.rule("CONFINE-debug", "write-set of eval_debugger_state ⊆ {debugger}; write-set of Debugger::eval_state ⊆ Debugger fields; last_state taken")
    rep.rule("DOM-early-return", "stop => return before instruction_inner with no other effect; otherwise instruction_inner exactly once")
    rep.rule("DEBUG-exit", "DebugEvent arm of run_program returns without receipts/finalisation; resume re-enters only from RunProgram")
    rep.rule("SHAPE-eval", "event unless last taken state == current breakpoint")

    fe = FieldEffects(cg, r"^fuel_vm::interpreter::Interpreter$", r"fuel_vm::interpreter::Interpreter<")
    n, f = F.find(r"^fuel_vm::interpreter::debug::<impl fuel_vm::interpreter::Interpreter<M, S, Tx, Ecal, V>>::eval_debugger_state$", ["fuel_vm"], one=True)
    rep.saw(n)
    may = fe.may(n)
    rep.check(set(may) <= {"debugger"}, "CONFINE-debug", "eval_debugger_state:writes⊆{debugger}", "%s:%s" % (f["file"], f["line"]),
              "evaluating the debugger may only touch the debugger; it can also write %s" % sorted(set(may) - {"debugger"}))
    # effect-free otherwise: no memory / storage / receipts calls reachable
    bad = []
    for g in cg.reachable([n], stop=lambda x: not x.lstrip("<").startswith("fuel_vm::")):
        gf = cg.fns.get(g)
        if gf is None:
            continue
        for i, c, args, *_ in calls(gf):
            if callee_matches(c, r"MemoryInstance::(write|grow|memcopy)|ReceiptsCtx::push|StorageMutate|gas_charge|inc_pc$"):
                bad.append((g, callee_name(c)))
    rep.check(not bad, "CONFINE-debug", "eval_debugger_state:no-vm-effects", "%s:%s" % (f["file"], f["line"]), "debugger evaluation reaches VM effects: %s" % bad[:3])
    en, ef = F.find(r"^fuel_vm::state::debugger::Debugger::eval_state$", ["fuel_vm"], one=True)
    rep.saw(en)
    tk = [[describe(ef, a, depth=6) for a in args] for i, c, args, *_ in calls(ef) if callee_matches(c, r"Option.*::take$")]
    rep.check(tk == [["arg:self.last_state"]], "CONFINE-debug", "eval_state:last_state.take()", "%s:%s" % (ef["file"], ef["line"]),
              "eval_state must take (consume) last_state so that an event is reported at most once per location; found %s" % tk)
    dfe = FieldEffects(cg, r"^fuel_vm::state::debugger::Debugger$", r"fuel_vm::state::debugger::Debugger")
    dm = dfe.may(en)
    rep.check(set(dm) <= {"last_state"}, "CONFINE-debug", "eval_state:writes⊆{last_state}", "%s:%s" % (ef["file"], ef["line"]),
              "eval_state may only consume last_state; it also writes %s" % sorted(set(dm) - {"last_state"}))

    # ---------------- early return
    n, f = F.find(r"executors::instruction::.*::instruction_per_inner$", ["fuel_vm"], one=True)
    rep.saw(n)
    cfg = CFG(f)
    where = "%s:%s" % (f["file"], f["line"])
    dc = vm.debugger_bypass_cases(F, f)
    ALLOWED_STOP = {"is_active", "eval_debugger_state", "should_continue", "into", "from"}
    ok = dc is not None and dc["inactive"][0] and "eval_debugger_state" not in dc["inactive"][1] and dc["continue"][0] and \
        not dc["stop"][0] and "eval_debugger_state" in dc["stop"][1] and set(dc["stop"][1]) <= ALLOWED_STOP
    rep.check(ok, "DOM-early-return", "stop=>return-before-instruction_inner", where,
              "a debugger stop must return the event before the instruction executes and without other calls")
    ii = call_blocks(f, r"::instruction_inner$")
    if ii:
        oks = ok_sites(f, cfg)
        w = {ii[0]: (1, 1)}
        rets = set(cfg.exits("ret"))
        mm = path_minmax(cfg, w, rets)
        rep.check(mm == (0, 1), "DOM-early-return", "instruction_inner-at-most-once", where, "instruction_inner must run at most once per step; min/max %s" % (mm,))

    # ---------------- run_program debug exit
    n, f = F.find(r"executors::main::.*::run_program$", ["fuel_vm"], one=True)
    rep.saw(n)
    cfg = CFG(f)
    where = "%s:%s" % (f["file"], f["line"])
    ds = call_blocks(f, r"::debugger_set_last_state$")
    okd = False
    if len(ds) == 1:
        after = cfg.reachable_from(ds[0])
        eff = [callee_name(f["bbs"][b]["t"][1]) for b in after if f["bbs"][b]["t"][0] == "call" and
               callee_matches(f["bbs"][b]["t"][1], r"ReceiptsCtx::push$|::finalize_outputs$|::receipts_root_mut$|::append_panic_receipt$|::execute$|::update_transaction_outputs$")]
        a = describe(f, f["bbs"][ds[0]]["t"][2][1], depth=6)
        okd = not eff and "RunProgram" in a
    rep.check(okd, "DEBUG-exit", "run_program:DebugEvent-arm-returns-immediately", where,
              "after recording the debug state run_program must return without receipts, finalisation or further execution")
    # run_program is re-entered by resume(): it must not (re)initialise interpreter state itself
    from fvlib.effects import ResetCoverage
    rc = ResetCoverage(fe)
    rs = sorted({fld for (_, fld, kind, _) in rc.direct(n)})
    rep.rule("RESUME-idempotent", "run_program (re-entered on resume) performs no whole-field reset of interpreter state")
    rep.check(not rs, "RESUME-idempotent", "run_program:no-field-reset", where,
              "run_program resets interpreter field(s) %s; because resume() re-enters run_program this happens again after every debug event, "
              "so a debugged run diverges from an undebugged one" % rs)
    n, f = F.find(r"^fuel_vm::interpreter::executors::debug::.*::resume$", ["fuel_vm"], one=True)
    rep.saw(n)
    cfg = CFG(f)
    where = "%s:%s" % (f["file"], f["line"])
    rp = call_blocks(f, r"::run_program$")
    sw = enum_switches(f, cfg, r"disc\(")
    V = {v["discr"]: v["name"] for v in F.adt("fuel_vm::state::ProgramState")["variants"]}
    okr = False
    for b, t in sw:
        arms = {V.get(v, str(v)): tg for v, tg in t[2]}
        if "RunProgram" in arms and rp:
            others = [tg for nm, tg in arms.items() if nm != "RunProgram" and tg != arms["RunProgram"]]
            okr = rp[0] in cfg.reachable_incl(arms["RunProgram"]) and not any(rp[0] in cfg.reachable_incl(o) - cfg.reachable_incl(arms["RunProgram"]) for o in others)
    rep.check(okr and len(rp) == 1, "DEBUG-exit", "resume:run_program-only-from-RunProgram", where, "resume must re-enter run_program exactly from a RunProgram debug state")
    idb = [(i, tgt) for i, c, a, d, tgt, l in calls(f) if callee_matches(c, r"ProgramState::is_debug$")]
    ds = call_blocks(f, r"::debugger_set_last_state$")
    oki = False
    if len(idb) == 1 and len(ds) == 1 and idb[0][1] is not None:
        tt = bool_switch_targets(f["bbs"][idb[0][1]]["t"])
        oki = bool(tt) and ds[0] in cfg.reachable_incl(tt[0]) and ds[0] not in cfg.reachable_incl(tt[1])
    rep.check(oki, "DEBUG-exit", "resume:records-state-iff-is_debug", where, "resume must store the new state exactly when it is a debug state")
    dl = [[describe(f, a, depth=4) for a in args] for i, c, args, *_ in calls(f) if callee_matches(c, r"::debugger_last_state$")]
    rep.check(len(dl) == 1 and bool(agg_blocks(f, r"InterpreterError$", "DebugStateNotInitialized")), "DEBUG-exit", "resume:requires-last-state", where,
              "resume without a recorded debug state must fail with DebugStateNotInitialized")

    # ---------------- eval_state shape
    cfg = CFG(ef)
    ss = enum_switches(ef, cfg, r"^arg:self\.single_stepping$")
    cont = agg_blocks(ef, r"DebugEval$", "Continue")
    eqs = [i for i, c, args, *_ in calls(ef) if callee_matches(c, r"PartialEq.*::eq$")]
    clos_eq = 0
    for cn, cf in cg.fns.items():
        if cf["kind"] == "Closure" and cf.get("parent") == en:
            clos_eq += len([1 for i, c, args, *_ in calls(cf) if callee_matches(c, r"PartialEq.*::eq$")])
    # single_stepping is consulted (as a branch or as an operand of the `watched` condition), Continue can be answered, and
    # the last reported state is compared with the current one (once for both modes, or once per mode)
    ss_read = len(ss) >= 1 or any(rv[0] == "use" and describe(ef, rv[1], depth=4) == "arg:self.single_stepping" for i, j, p, rv, line in assignments(ef))
    rep.check(ss_read and bool(cont) and (len(eqs) + clos_eq) >= 1, "SHAPE-eval", "event-unless-last==current(both modes)", "%s:%s" % (ef["file"], ef["line"]),
              "both the single-stepping and the breakpoint path must compare the taken last state with the current location (found %d comparisons)" % (len(eqs) + clos_eq))
    bp = [[describe(ef, a, depth=8) for a in args] for i, c, args, *_ in calls(ef) if callee_matches(c, r"HashMap.*::get$")]
    rep.check(len(bp) == 1 and "breakpoints" in bp[0][0], "SHAPE-eval", "breakpoints-lookup-by-contract", "%s:%s" % (ef["file"], ef["line"]), "found %s" % bp)
