"""C06 Serde formats round-trip protocol types — the hand-written parts only (Policies serde, upgrade checksum).

  SIB-layout-predicate  the Policies serde chooses between the legacy 4-value layout and the compact layout with one
                     predicate that is written three times (serialize, visit_seq, visit_map): `bits ∩ all() ==
                     bits ∩ (Maturity ∪ MaxFee ∪ Tip ∪ WitnessLimit)`. The three copies must be the same predicate
                     (same operator, same flag constants), the flag set must be exactly the low 4 bits — the policies
                     whose values occupy values[..4] — and each copy must take the 4-element path on the true side
                     and the compact path on the false side. A copy drifting from the others makes writer and reader
                     disagree for some of the 64 masks.
  SIB-compact-loop   the compact path iterates PoliciesBits::all() in definition order guarded by bits.contains(bit)
                     on both sides: the serializer pushes `values[i]` of set bits; both deserializers place the next
                     decoded value at index i of a set bit, advance the cursor only then (checked_add), and reject a
                     length mismatch; flags are the consecutive powers of two 1,2,4,8,16,32 = POLICIES_NUMBER flags.
  DOM-upgrade-checksum  UpgradeMetadata::compute hashes exactly the witness bytes it later decodes with postcard,
                     compares the hash with the committed checksum before decoding/accepting (mismatch ->
                     ChecksumMismatch), and stores that same hash as calculated_checksum.
Not decided (not applicable to static analysis): value equality of derive-generated serde for all other types and of
third-party formats (serde_json / postcard / bincode).
"""
import re

from fvlib.core import (CFG, agg_blocks, assignments, bool_consumers, calls, callee_matches, callee_name, describe, guards)

P = "fuel_tx::transaction::policies::"
SITES = {
    "serialize": r"^<fuel_tx::transaction::policies::Policies as serde_core::ser::Serialize>::serialize$",
    "visit_seq": r"policies::Policies as serde_core::de::Deserialize<'de>>::deserialize::StructVisitor<'de> as serde_core::de::Visitor<'de>>::visit_seq$",
    "visit_map": r"policies::Policies as serde_core::de::Deserialize<'de>>::deserialize::StructVisitor<'de> as serde_core::de::Visitor<'de>>::visit_map$",
}
LEVEL_NOTE = ("Decides only the hand-written serde of Policies and the upgrade checksum ordering, structurally. The derive-generated serde of all "
              "other types and the third-party formats are outside what static analysis of this repository can decide and are not claimed.")


def union_consts(f):
    out = []
    for i, c, args, *_ in calls(f):
        if callee_matches(c, r"PoliciesBits>::union$"):
            for a in args:
                if a[0] == "k" and a[1].get("const"):
                    out.append((a[1]["const"].rsplit("::", 1)[-1], a[1].get("v")))
    return out


def run(F, rep, tier, allfacts):
    rep.rule("SIB-layout-predicate", "three copies of the legacy/compact predicate are identical; flag set = low 4 bits; true -> 4 values, false -> compact")
    rep.rule("SIB-compact-loop", "compact path: for bit in all() if contains(bit); cursor advanced only for set bits; length mismatch rejected")
    rep.rule("DOM-upgrade-checksum", "hash(witness bytes) compared with the committed checksum before the same bytes are decoded and accepted")

    preds = {}
    fns = {}
    for site, rx in SITES.items():
        n, f = F.find(rx, ["fuel_tx"], one=True)
        rep.saw(n)
        fns[site] = f
        where = "%s:%s" % (f["file"], f["line"])
        cfg = CFG(f)
        gs = [g for g in guards(f) if g["op"] in ("Eq", "Ne") and "call:intersection(" in g["a_desc"] and "call:intersection(" in g["b_desc"]]
        if len(gs) != 1:
            rep.bad("SIB-layout-predicate", "%s:predicate-present" % site, where, "expected one `bits ∩ X == bits ∩ Y` test, found %d" % len(gs))
            continue
        g = gs[0]
        sides = sorted([g["a_desc"], g["b_desc"]], key=lambda d: "call:all()" not in d)
        src = re.match(r"^call:intersection\((.*),call:all\(\)\)$", sides[0])
        src2 = re.match(r"^call:intersection\((.*),call:union\(", sides[1])
        uc = union_consts(f)
        preds[site] = (g["op"], sorted(uc))
        rep.check(src is not None and src2 is not None and src.group(1) == src2.group(1), "SIB-layout-predicate", "%s:both-sides-on-the-same-bits" % site, where,
                  "predicate sides: %s | %s" % (sides[0], sides[1]))
        mask = 0
        for nm, v in uc:
            mask |= v if isinstance(v, int) else 0
        rep.check(len(uc) == 4 and mask == 0b1111, "SIB-layout-predicate", "%s:legacy-set=low-4-bits" % site, where, "legacy flags %s (mask %s); the 4-value layout stores values[..4]" % (uc, bin(mask)))
        # true side -> 4-element path ; false side -> compact path
        t_side, f_side = (g["t"], g["f"]) if g["op"] == "Eq" else (g["f"], g["t"])
        # (visit_map tests inside its key loop: cut the regions at the loop back edge)
        rt = (cfg._reach_from([t_side], avoid={g["bb"]}) | {t_side}) - (cfg._reach_from([f_side], avoid={g["bb"]}) | {f_side})
        rf = (cfg._reach_from([f_side], avoid={g["bb"]}) | {f_side}) - (cfg._reach_from([t_side], avoid={g["bb"]}) | {t_side})

        def has4(blocks):
            for b in blocks:
                tb = f["bbs"][b]["t"]
                if tb[0] == "call" and "def" in tb[1]:
                    ga = " ".join(tb[1].get("ga") or [])
                    if "[u64; 4]" in ga:
                        return True
            return False

        def hasloop(blocks):
            al = [b for b in blocks if f["bbs"][b]["t"][0] == "call" and callee_matches(f["bbs"][b]["t"][1], r"PoliciesBits>::all$")]
            ct = [b for b in blocks if f["bbs"][b]["t"][0] == "call" and callee_matches(f["bbs"][b]["t"][1], r"PoliciesBits>::contains$")]
            return len(al) == 1 and len(ct) == 1 and ct[0] in cfg.reachable_from(ct[0])
        def haschain(blocks):
            """the same loop as an iterator chain: zip(values, all()).filter(|(_, bit)| bits.contains(bit)).map(..).collect()"""
            al = [b for b in blocks if f["bbs"][b]["t"][0] == "call" and callee_matches(f["bbs"][b]["t"][1], r"PoliciesBits>::all$")]
            co = [b for b in blocks if f["bbs"][b]["t"][0] == "call" and callee_matches(f["bbs"][b]["t"][1], r"Iterator>?::collect$|Iterator::collect$")]
            if len(al) != 1 or len(co) != 1:
                return False
            recv = describe(f, f["bbs"][co[0]]["t"][2][0], depth=30)
            fl = [cn for cn, cf in F.find("^" + re.escape(n) + r"::\{closure#\d+\}$", ["fuel_tx"], required=False)
                  if any(callee_matches(c, r"PoliciesBits>::contains$") for _, c, *_ in calls(cf))]
            return len(fl) == 1 and "call:filter(" in recv and "call:all(" in recv and fl[0].rsplit("::", 1)[-1] in recv
        chain = haschain(rf) and not haschain(rt)
        rep.check(has4(rt) and not has4(rf) and ((hasloop(rf) and not hasloop(rt)) or chain), "SIB-layout-predicate", "%s:true->[Word;4];false->compact-loop" % site, where,
                  "4-element path on true side=%s / false side=%s; compact loop on false side=%s / true side=%s" % (has4(rt), has4(rf), hasloop(rf), hasloop(rt)))
        # compact loop details
        ct = [b for b in rf if f["bbs"][b]["t"][0] == "call" and callee_matches(f["bbs"][b]["t"][1], r"PoliciesBits>::contains$")]
        if not ct:
            if site == "serialize" and chain:
                rep.check(True, "SIB-compact-loop", "serialize:push-only-for-set-bits", where, "")      # the filter of the chain (checked above) selects the set bits
            continue
        bc = bool_consumers(f, ct[0])
        if len(bc) != 1:
            rep.bad("SIB-compact-loop", "%s:contains-branch" % site, where, "contains(bit) result is not branched on once")
            continue
        _, yes, no = bc[0]
        only_yes = cfg.reachable_incl(yes) - cfg.reachable_incl(no) if ct[0] in cfg.reachable_incl(no) else cfg._reach_from([yes], avoid={ct[0]}) - cfg._reach_from([no], avoid={ct[0]})
        only_yes = cfg._reach_from([yes], avoid={ct[0]}) - cfg._reach_from([no], avoid={ct[0]})
        if site == "serialize":
            push = [b for b in only_yes if f["bbs"][b]["t"][0] == "call" and callee_matches(f["bbs"][b]["t"][1], r"Vec::<T, A>::push$|Vec::<T>::push$")]
            allpush = [b for b in rf if f["bbs"][b]["t"][0] == "call" and callee_matches(f["bbs"][b]["t"][1], r"Vec::<T, A>::push$|Vec::<T>::push$")]
            rep.check(len(push) == 1 and allpush == push, "SIB-compact-loop", "serialize:push-only-for-set-bits", where, "pushes under contains: %s, all pushes: %s" % (push, allpush))
        else:
            get = [b for b in only_yes if f["bbs"][b]["t"][0] == "call" and callee_matches(f["bbs"][b]["t"][1], r"slice::<impl \[T\]>::get$")]
            inc = [b for b in only_yes if f["bbs"][b]["t"][0] == "call" and callee_matches(f["bbs"][b]["t"][1], r"checked_add$")]
            allinc = [b for b in rf if f["bbs"][b]["t"][0] == "call" and callee_matches(f["bbs"][b]["t"][1], r"checked_add$")]
            ok = len(get) == 1 and len(inc) == 1 and allinc == inc and "decoded_index" in describe(f, f["bbs"][get[0]]["t"][2][1], depth=6) and \
                describe(f, f["bbs"][inc[0]]["t"][2][1], depth=4) == "const:1"
            rep.check(ok, "SIB-compact-loop", "%s:cursor-advances-only-for-set-bits" % site, where, "get %s checked_add %s (all %s)" % (get, inc, allinc))
            lg = [g2 for g2 in guards(f) if g2["op"] in ("Ne", "Eq") and "decoded_index" in g2["a_desc"] + g2["b_desc"] and "call:len(" in g2["a_desc"] + g2["b_desc"]]
            rep.check(len(lg) == 1, "SIB-compact-loop", "%s:length-mismatch-rejected" % site, where, "cursor/len comparisons: %s" % [(x["op"], x["a_desc"], x["b_desc"]) for x in lg])
    rep.check(len(preds) == 3 and len({repr(v) for v in preds.values()}) == 1, "SIB-layout-predicate", "three-copies-identical", None, "predicates: %s" % preds)

    flags = {k.rsplit("::", 1)[-1]: F.const(k) for k in F.consts("fuel_tx") if k.startswith(P + "PoliciesBits::") and isinstance(F.const(k), int)}
    npol = F.const(P + "POLICIES_NUMBER")
    rep.check(sorted(flags.values()) == [1 << i for i in range(npol or 0)] and npol == 6, "SIB-compact-loop", "flags=consecutive-powers-of-two(POLICIES_NUMBER)", None,
              "PoliciesBits flags %s, POLICIES_NUMBER %s" % (flags, npol))
    pt = F.adt(P + "PolicyType")
    order = [v["name"] for v in pt["variants"]]
    byval = [k for k, v in sorted(flags.items(), key=lambda kv: kv[1])]
    rep.check(order == byval, "SIB-compact-loop", "PolicyType-order=flag-order", None, "PolicyType variants %s; flags by value %s (values[i] belongs to flag 1<<i)" % (order, byval))

    # ---------------- upgrade checksum
    n, f = F.find(r"^fuel_tx::transaction::types::upgrade::UpgradeMetadata::compute$", ["fuel_tx"], one=True)
    rep.saw(n)
    cfg = CFG(f)
    where = "%s:%s" % (f["file"], f["line"])
    h = [(i, describe(f, args[0], depth=16)) for i, c, args, *_ in calls(f) if callee_matches(c, r"^fuel_crypto::hasher::Hasher::hash$")]
    d = [(i, describe(f, args[0], depth=16)) for i, c, args, *_ in calls(f) if callee_matches(c, r"^postcard::de::from_bytes$|postcard::from_bytes$")]
    ne = [(i, sorted([describe(f, a, depth=12) for a in args])) for i, c, args, *_ in calls(f) if callee_matches(c, r"PartialEq.*::(ne|eq)$")]
    mism = agg_blocks(f, r"ValidityError$", "TransactionUpgradeConsensusParametersChecksumMismatch")
    oks = [(i, dict(zip(rv[4], [describe(f, x, depth=12) for x in rv[3]]))) for i, j, p, rv, line in assignments(f) if rv[0] == "agg" and rv[1].endswith("::UpgradeMetadata") and rv[2] == "ConsensusParameters"]
    def src_bb(bb):
        from fvlib.core import root_of, op_place
        o = f["bbs"][bb]["t"][2][0]
        for _ in range(4):
            if o[0] == "k":
                return None
            r = root_of(f, o[1][0], 14)
            if isinstance(r, tuple) and r[0] == "call":
                if callee_matches(r[1], r"Deref(>| for .*>)?::deref$|AsRef.*::as_ref$"):
                    o = r[2][0]
                    continue
                return (callee_name(r[1]).rsplit("::", 1)[-1], r[3])
            return None
        return None
    same_src = len(h) == 1 and len(d) == 1 and src_bb(h[0][0]) is not None and src_bb(h[0][0]) == src_bb(d[0][0]) and src_bb(h[0][0])[0] == "as_vec"
    ok = same_src and "witnesses" in h[0][1] and len(ne) >= 1 and bool(mism) and len(oks) == 1
    detail = "hash over %s; decode of %s; comparisons %s" % (h, d, ne)
    if ok:
        cmpb = [x for x in ne if any("call:hash(" in a for a in x[1]) and any("checksum" in a for a in x[1])]
        ok = len(cmpb) == 1
        if ok:
            bc = bool_consumers(f, cmpb[0][0])
            ok = len(bc) == 1
            if ok:
                _, t_, f_ = bc[0]
                is_ne = callee_name(f["bbs"][cmpb[0][0]]["t"][1]).endswith("::ne")
                bad_side, good_side = (t_, f_) if is_ne else (f_, t_)
                from fvlib.core import infeasible_continue_blocks
                dead = infeasible_continue_blocks(f)          # `Err(Mismatch)?` never continues
                free = cfg._reach_from([0], avoid={good_side} | dead)
                ok = all(b in cfg.reachable_incl(bad_side) and b not in cfg.reachable_incl(good_side) for b in mism) and d[0][0] not in free and oks[0][0] not in free and \
                    cfg.dominates(h[0][0], cmpb[0][0])
                ok = ok and oks[0][1].get("calculated_checksum", "").startswith("call:hash(")
    rep.check(ok, "DOM-upgrade-checksum", "compute:hash->compare->decode->accept", where, detail)
