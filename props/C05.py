"""C05 In-VM transaction introspection returns the executed transaction's data — selector tables and memory image.

  TAB-gtf         GTFInput::get_transaction_field: for every GTFArgs selector the functions its arm (and the closures
                  the arm creates) calls and the panic reasons it can raise are extracted and compared with the
                  reviewed table tables/C05_gtf.json (written from the instruction-set specification by reading the
                  code once; e.g. InputCoinOwner -> is_coin filter, InputRepr::owner_offset, inputs_offset_at,
                  InputNotFound). Every selector of the enum must be covered by an arm or by the transaction-kind
                  specific second-level match, whose fall-through is InvalidMetadataIdentifier.
  GTF-consistency independent of the table: `Input<Kind>*` selectors filter with Input::is_<kind> and fail with
                  InputNotFound; `Output<Kind>*` with the Output kind test and OutputNotFound (InputNotFound for the
                  contract input index); `Policy<X>` reads PolicyType::<X> and fails with PolicyIsNotSet; an arm uses
                  an `*_offset*` accessor if and only if it adds the transaction's memory offset (pointer answers are
                  absolute addresses, value answers are not); kind-specific selectors (`Script*`, `Create*`, `Upload*`,
                  `Upgrade*`, `Blob*`) are answered only in the arm of that executable transaction kind.
  TAB-gm          metadata(): GetChainId -> the configured chain id; BaseAssetId -> VM_MEMORY_BASE_ASSET_ID_OFFSET;
                  TxStart -> tx_offset; GetGasPrice -> gas_price except in predicate contexts
                  (CanNotGetGasPriceInPredicate); GetOwner -> owner_ptr or OwnerIsUnknown; GetCaller /
                  IsCallerExternal from the parent frame pointer with their two errors; the wrapper passes
                  self.tx_offset(), self.chain_id(), self.gas_price(), self.owner_ptr.
  OWNER-scan      without an Owner policy the owner is known only if every owner-carrying input agrees: on the first
                  disagreement init_inner sets owner = None and leaves the scan (GM GetOwner then fails with
                  OwnerIsUnknown); a later input cannot re-seed the owner.
  IMG-init        init_inner pushes, in this order, the transaction id, the base asset id, the balances, the
                  transaction size and the transaction bytes (self.tx.to_bytes()) — which is what makes
                  VM_MEMORY_BASE_ASSET_ID_OFFSET = 32, VM_MEMORY_BALANCES_OFFSET = 64 and tx_offset() =
                  max_inputs * BALANCE_ENTRY_SIZE + 32 + 8 + 32 true; GTF reads the size word at tx_offset - 8; the
                  owner pointer is tx_offset + inputs_offset_at(i) + owner_offset of the same input.
Not decided: the returned values themselves (C04 decides that the offsets used here locate the fields).
"""
import json
import os
import re

from fvlib.core import CFG, PLUMBING_TOKENS, family, assignments, calls, callee_matches, callee_name, describe, switch_arms

TABLE = os.path.join(os.path.dirname(os.path.dirname(os.path.abspath(__file__))), "tables", "C05_gtf.json")
NOISE = {"branch", "from_residual", "into", "from", "get", "ok_or", "map", "map_err", "and_then", "filter", "inputs", "outputs", "witnesses", "deref", "copied",
         "unwrap_or_default", "policies", "ok_or_else", "inc_pc", "try_from", "try_into"}
GTF = r"^fuel_vm::interpreter::metadata::GTFInput::<'_, Tx>::get_transaction_field$"


def arm_facts(F, n, f, cfg, blocks, closures):
    """(domain callees, PanicReasons, adds-tx-offset) of one selector arm. Calls and errors inside closures created in
    the arm count like inline ones, and Option/Result/iterator plumbing is not recorded, so `x.map(|w| ofs + w).ok_or(E)?`
    and `let w = x.ok_or(E)?; ofs + w` have the same row."""
    cs, errs, cl = [], set(), []
    ptr = False

    def is_ofs(fn_, o):
        return re.search(r"^arg:self\.tx_offset$|^arg:#1\.\w*ofs\w*$|^arg:#1\.0$", describe(fn_, o, depth=10)) is not None

    def scan(fn_, bbs_, top):
        nonlocal ptr
        for bb in bbs_:
            tb = fn_["bbs"][bb]["t"]
            if tb[0] == "call" and "def" in tb[1]:
                cs.append(callee_name(tb[1]).rsplit("::", 1)[-1])
                for a in tb[2]:
                    d = describe(fn_, a, depth=3)
                    m = re.search(r"closure#(\d+)", d)
                    if m and top:
                        cl.append(int(m.group(1)))
                    if a[0] == "k" and "fn" in a[1]:
                        fnn = callee_name(a[1]["fn"])
                        cs.append("fn:" + fnn.rsplit("::", 2)[-2].split("<")[0].rsplit(" ", 1)[-1] + "::" + fnn.rsplit("::", 1)[-1])
                    if top and is_ofs(fn_, a):
                        ptr = True
            for s in fn_["bbs"][bb]["s"]:
                if s[0] != "=":
                    continue
                if s[2][0] == "agg" and s[2][1].endswith("PanicReason"):
                    errs.add(s[2][2])
                if s[2][0] == "agg" and s[2][1].endswith("PolicyType"):
                    cs.append("PolicyType::" + s[2][2])
                if s[2][0] == "agg" and "closure#" in s[2][1] and top:
                    cl.append(int(re.search(r"closure#(\d+)", s[2][1]).group(1)))
                    if any(is_ofs(fn_, o) for o in s[2][3]):
                        ptr = True
    scan(f, sorted(blocks), True)
    for k in sorted(set(cl)):
        cf = closures.get(n + "::{closure#%d}" % k)
        if cf:
            scan(cf, [i for i, bb in enumerate(cf["bbs"]) if not bb.get("cu")], False)
    cs = sorted(set(c for c in cs if c not in NOISE and c not in PLUMBING_TOKENS))
    return cs, sorted(errs), ptr


def disc_adt(f, t):
    from fvlib.core import root_of
    if t[1][0] == "k":
        return None
    r = root_of(f, t[1][1][0])
    if isinstance(r, tuple) and r[0] == "rvalue" and r[1][0] == "disc" and len(r[1]) > 2:
        return r[1][2]
    return None


def run(F, rep, tier, allfacts):
    rep.rule("TAB-gtf", "per-selector callee / error sets = reviewed table; every selector answered or rejected with InvalidMetadataIdentifier")
    rep.rule("GTF-consistency", "kind filters, error reasons, pointer-iff-offset, policy names, kind-specific selectors only in their kind's arm")
    rep.rule("TAB-gm", "GM selectors return the configured values / specified errors")
    rep.rule("IMG-init", "memory image order = the offsets GM/GTF report")

    n, f = F.find(GTF, ["fuel_vm"], one=True)
    rep.saw(n)
    cfg = CFG(f)
    where = "%s:%s" % (f["file"], f["line"])
    gadt = F.adt("fuel_asm::args::GTFArgs")
    names = {v["discr"]: v["name"] for v in gadt["variants"]}
    allsel = set(names.values())
    closures = {cn: cf for cn, cf in F.find(re.escape(n) + r"::\{closure#\d+\}$", ["fuel_vm"], required=False)}
    sw = None
    for b in sorted(cfg.reach):
        t = f["bbs"][b]["t"]
        if t[0] == "switch" and len(t[2]) > 40 and describe(f, t[1], depth=6).startswith("disc("):
            sw = (b, t)
            break
    if sw is None:
        rep.anchor_missing("selector switch of get_transaction_field not found")
        return
    b0, t0 = sw
    groups = {}
    for v, tg in t0[2]:
        groups.setdefault(tg, []).append(names.get(v, str(v)))
    alltg = set(groups) | {t0[3]}
    cur = {}
    for tg, sels in groups.items():
        mine = cfg.reachable_incl(tg)
        for t2 in alltg:
            if t2 != tg:
                mine = mine - cfg.reachable_incl(t2)
        cs, errs, ptr = arm_facts(F, n, f, cfg, mine, closures)
        cur["|".join(sorted(sels))] = {"calls": cs, "errors": errs, "adds_tx_offset": ptr}
    # second level: kind-specific
    spec = {}
    kinds = None
    other = cfg.reachable_incl(t0[3])
    for tg in groups:
        other = other - cfg.reachable_incl(tg)
    ksw = None
    kadt = F.adt("fuel_vm::interpreter::ExecutableTxType")
    kn = {k: v["name"] for k, v in enumerate(kadt["variants"])}
    for b in sorted(other):
        t = f["bbs"][b]["t"]
        if t[0] == "switch" and str(disc_adt(f, t)).endswith("::ExecutableTxType"):
            ksw = t
            break
    if ksw is not None:
        arms_k = [(kn.get(kv, str(kv)), ktg) for kv, ktg in ksw[2]]
        missing = [x for x in kn.values() if x not in [a_[0] for a_ in arms_k]]
        if len(missing) == 1 and f["bbs"][ksw[3]]["t"][0] != "unreachable":
            arms_k.append((missing[0], ksw[3]))
        for kind, ktg in arms_k:
            t = f["bbs"][ktg]["t"]
            if t[0] != "switch" or not str(disc_adt(f, t)).endswith("::GTFArgs"):
                continue
            inner = {}
            for v, tg in t[2]:
                inner.setdefault(tg, []).append(names.get(v, str(v)))
            for tg, sels in inner.items():
                mine = cfg.reachable_incl(tg)
                for t2 in set(inner) | {t[3]}:
                    if t2 != tg:
                        mine = mine - cfg.reachable_incl(t2)
                cs, errs, ptr = arm_facts(F, n, f, cfg, mine, closures)
                spec["%s:%s" % (kind, "|".join(sorted(sels)))] = {"calls": cs, "errors": errs, "adds_tx_offset": ptr}
    fall = [s[2][2] for bb in other for s in f["bbs"][bb]["s"] if s[0] == "=" and s[2][0] == "agg" and s[2][1].endswith("PanicReason")]
    rep.check("InvalidMetadataIdentifier" in fall, "TAB-gtf", "unknown-selector->InvalidMetadataIdentifier", where, "fall-through errors %s" % sorted(set(fall)))
    covered = set()
    for k in cur:
        covered |= set(k.split("|"))
    for k in spec:
        covered |= set(k.split(":", 1)[1].split("|"))
    rep.check(covered == allsel, "TAB-gtf", "every-selector-has-an-arm", where, "selectors without an arm: %s; unknown: %s" % (sorted(allsel - covered), sorted(covered - allsel)))
    full = dict(cur)
    full.update(spec)
    if os.environ.get("FV_WRITE_TABLES") == "1":
        json.dump(full, open(TABLE + ".new", "w"), indent=1, sort_keys=True)
    table = json.load(open(TABLE))
    rep.floor("TAB-gtf", "selector arms", len(full), 60)
    for k, v in sorted(full.items()):
        row = table.get(k)
        if row is None:
            rep.bad("TAB-gtf", "UNREVIEWED:" + k, where, "selector arm %s is not in the reviewed table (calls %s, errors %s)" % (k, v["calls"], v["errors"]))
            continue
        rep.check(v == row, "TAB-gtf", "arm:" + k, where, "selector %s now uses %s, reviewed %s" % (k, v, row))
    for k in table:
        if k not in full:
            rep.bad("TAB-gtf", "MISSING:" + k, where, "reviewed selector arm %s no longer exists" % k)

    # ---- consistency rules
    def each(pred):
        for k, v in full.items():
            for sel in k.split(":")[-1].split("|"):
                if pred(sel):
                    yield k, sel, v
    for k, sel, v in each(lambda s: re.match(r"^Input(Coin|Contract|Message)\w+", s) and s not in ("InputContractOutputIndex",)):
        kind = re.match(r"^Input(Coin|Contract|Message)", sel).group(1).lower()
        rep.check("is_%s" % kind in v["calls"] and v["errors"] == ["InputNotFound"], "GTF-consistency", "%s:filter=is_%s;error=InputNotFound" % (sel, kind), where, "arm %s" % v)
    OK_ = {"OutputCoin": {"is_coin"}, "OutputContractCreated": {"is_contract_created"}, "OutputContract": {"is_contract"}}
    for k, sel, v in each(lambda s: re.match(r"^Output(ContractCreated|Contract|Coin)\w+", s)):
        kind = re.match(r"^(OutputContractCreated|OutputContract|OutputCoin)", sel).group(1)
        werr = ["InputNotFound"] if sel == "OutputContractInputIndex" else ["OutputNotFound"]
        rep.check(OK_[kind] <= set(v["calls"]) and v["errors"] == werr, "GTF-consistency", "%s:filter=%s;error=%s" % (sel, sorted(OK_[kind])[0], werr[0]), where, "arm %s" % v)
    for k, sel, v in each(lambda s: re.match(r"^Policy(?!Types)\w+", s)):
        p = sel[len("Policy"):]
        rep.check("PolicyType::" + p in v["calls"] and [c for c in v["calls"] if c.startswith("PolicyType::")] == ["PolicyType::" + p] and v["errors"] == ["PolicyIsNotSet"],
                  "GTF-consistency", "%s:PolicyType::%s;PolicyIsNotSet" % (sel, p), where, "arm %s" % v)
    for k, v in full.items():
        has_off = any(re.search(r"_offset(_at|_static)?\}?$", c) for c in v["calls"])
        rep.check(has_off == v["adds_tx_offset"], "GTF-consistency", "%s:pointer<=>adds-tx_offset" % k, where,
                  "arm uses offset accessors=%s but adds the transaction offset=%s (%s)" % (has_off, v["adds_tx_offset"], v["calls"]))
    for k, v in spec.items():
        kind, sels = k.split(":", 1)
        for sel in sels.split("|"):
            rep.check(sel.startswith(kind), "GTF-consistency", "%s:answered-only-for-%s" % (sel, kind), where, "selector %s is answered in the arm of transaction kind %s" % (sel, kind))
    for k in cur:
        for sel in k.split("|"):
            rep.check(not re.match(r"^(Upload|Upgrade|Blob)", sel), "GTF-consistency", "%s:kind-specific-not-general" % sel, where, "kind-specific selector answered for every transaction kind")

    # ---------------- GM
    n, f = F.find(r"^fuel_vm::interpreter::metadata::metadata$", ["fuel_vm"], one=True)
    rep.saw(n)
    cfg = CFG(f)
    where = "%s:%s" % (f["file"], f["line"])
    gm = {v["discr"]: v["name"] for v in F.adt("fuel_asm::args::GMArgs")["variants"]}
    got = {}
    for b in sorted(cfg.reach):
        t = f["bbs"][b]["t"]
        if t[0] == "switch" and len(t[2]) >= 6 and describe(f, t[1], depth=8).startswith("disc("):
            arms = switch_arms(f, cfg, t, {k: v for k, v in gm.items()})
            for nm, blocks in arms.items():
                vals = set()
                errs = set()
                for bb in blocks:
                    for s in f["bbs"][bb]["s"]:
                        if s[0] == "=" and s[2][0] == "agg" and s[2][1].endswith("PanicReason"):
                            errs.add(s[2][2])
                        if s[0] == "=" and s[2][0] == "use" and s[1][0] != 0 and s[2][1][0] != "k":
                            d = describe(f, s[2][1], depth=4)
                            if re.match(r"^arg:(chain_id|tx_offset|gas_price|owner_ptr)", d):
                                vals.add(d.split("@")[0])
                        if s[0] == "=" and s[2][0] in ("cast", "use"):
                            o = s[2][2] if s[2][0] == "cast" else s[2][1]
                            if o[0] == "k" and o[1].get("const"):
                                vals.add("const:" + o[1]["const"].rsplit("::", 1)[-1])
                    tb = f["bbs"][bb]["t"]
                    if tb[0] == "call":
                        for a in tb[2]:
                            d = describe(f, a, depth=4)
                            if re.match(r"^arg:(chain_id|tx_offset|gas_price|owner_ptr)", d):
                                vals.add(d.split("@")[0])
                got[nm] = (sorted(vals), sorted(errs))
            break
    want = {
        "GetChainId": (["arg:chain_id"], []), "BaseAssetId": (["const:VM_MEMORY_BASE_ASSET_ID_OFFSET"], []), "TxStart": (["arg:tx_offset"], []),
        "GetGasPrice": (["arg:gas_price"], ["CanNotGetGasPriceInPredicate"]), "GetOwner": (["arg:owner_ptr"], ["OwnerIsUnknown"]),
        "GetCaller": ([], ["ExpectedInternalContext", "ExpectedNestedCaller"]), "IsCallerExternal": ([], ["ExpectedInternalContext"]), "GetVerifyingPredicate": ([], ["TransactionValidity"]),
    }
    rep.check(got == want, "TAB-gm", "GM-arms", where, "GM arms (sources, errors): %s" % {k: v for k, v in got.items() if want.get(k) != v} if got != want else "")
    n, f = F.find(r"^fuel_vm::interpreter::metadata::<impl fuel_vm::interpreter::Interpreter<M, S, Tx, Ecal, V>>::metadata$", ["fuel_vm"], one=True)
    a = [[describe(f, x, depth=8) for x in args] for i, c, args, *_ in calls(f) if callee_matches(c, r"^fuel_vm::interpreter::metadata::metadata$")]
    ok = len(a) == 1 and "call:chain_id(arg:self)" in a[0][5] and "call:tx_offset(arg:self)" in a[0][6] and "call:gas_price(arg:self)" in a[0][7] and a[0][8] == "arg:self.owner_ptr"
    rep.check(ok, "TAB-gm", "Interpreter::metadata:passes-configured-values", "%s:%s" % (f["file"], f["line"]), "arguments %s" % a)

    # ---------------- memory image
    n, f = F.find(r"^fuel_vm::interpreter::initialization::<impl fuel_vm::interpreter::Interpreter<M, S, Tx, Ecal, V>>::init_inner$", ["fuel_vm"], one=True)
    rep.saw(n)
    cfg = CFG(f)
    where = "%s:%s" % (f["file"], f["line"])
    dom = cfg.dominators()
    writes = []
    for i, c, args, dest, tgt, line in calls(f):
        if callee_matches(c, r"copy_from_slice$") and "write_noownerchecks" in describe(f, args[0], depth=10):
            writes.append((len(dom.get(i, ())), describe(f, args[1], depth=14)))
        if callee_matches(c, r"RuntimeBalances::to_vm$"):
            writes.append((len(dom.get(i, ())), "balances"))
    seq = [d for _, d in sorted(writes)]
    pats = [r"call:id\(call:transaction\(arg:self\)", r"base_asset_id", r"^balances$", r"to_be_bytes\(.*size", r"call:to_bytes\(arg:self\.tx\)"]
    ok = len(seq) == 5 and all(re.search(p, s) for p, s in zip(pats, seq))
    rep.check(ok, "IMG-init", "push-order=id,base_asset,balances,size,tx_bytes", where, "stack initialisation writes: %s" % seq)
    # owner without an Owner policy: known only if *all* owner-carrying inputs agree — on the first disagreement the
    # scan must set owner = None and stop (a later input must not be able to re-seed it)
    rep.rule("OWNER-scan", "owner scan: first mismatch sets owner = None and leaves the loop; owner is assigned Some only from None")
    ne = [(i, [describe(f, a, depth=6) for a in args]) for i, c, args, *_ in calls(f) if callee_matches(c, r"cmp::PartialEq(<.*>)?>?::ne$|PartialEq::ne$") and any("input_owner(" in describe(f, a, depth=6) for a in args)]
    mown = [re.match(r"^var:(\w+)@Some", a) for a in ne[0][1]] if len(ne) == 1 else []
    oname = next((m.group(1) for m in mown if m), None)
    okown = len(ne) == 1 and oname is not None
    if okown:
        from fvlib.core import bool_consumers
        bc = bool_consumers(f, ne[0][0])
        okown = len(bc) == 1
        if okown:
            _, differs, same = bc[0]
            dom = cfg.dominators()
            heads = [d for d in dom[ne[0][0]] if f["bbs"][d]["t"][0] == "call" and callee_matches(f["bbs"][d]["t"][1], r"Iterator>?::next$")]
            heads.sort(key=lambda d: len(dom[d]), reverse=True)
            dn = __import__("fvlib.core", fromlist=["dbg_name"]).dbg_name
            none_set = [i for i, j, p, rv, line in assignments(f) if len(p) == 1 and dn(f, p[0]) == oname and i in cfg.reachable_incl(differs) and
                        ((rv[0] == "agg" and rv[2] == "None") or (rv[0] == "use" and describe(f, rv[1], depth=4).startswith("agg:Option::None")))]
            okown = bool(heads) and bool(none_set) and heads[0] not in cfg._reach_from([differs], avoid=set()) and heads[0] in cfg.reachable_incl(same)
    rep.check(okown, "OWNER-scan", "init_inner:mismatch->None+break", where, "owner comparisons %s" % ne)

    c1 = F.const("fuel_vm::consts::VM_MEMORY_BASE_ASSET_ID_OFFSET")
    c2 = F.const("fuel_vm::consts::VM_MEMORY_BALANCES_OFFSET")
    rep.check(c1 == 32 and c2 == 64, "IMG-init", "BASE_ASSET_ID_OFFSET=32;BALANCES_OFFSET=64", None, "constants %s %s" % (c1, c2))
    n, f = F.find(r"^fuel_tx::transaction::consensus_parameters::TxParameters::tx_offset$", ["fuel_tx"], one=True)
    rets = [(callee_name(c).rsplit("::", 1)[-1], [describe(f, x, depth=12) for x in args]) for i, c, args, dest, *_ in calls(f) if dest == [0]]
    be = F.const("fuel_tx::consts::BALANCE_ENTRY_SIZE")
    from fvlib import codec
    add = [codec.fold(f, args[1]) for i, c, args, dest, *_ in calls(f) if dest == [0]]
    ok = len(rets) == 1 and rets[0][0] == "saturating_add" and re.search(r"checked_mul\(.*max_inputs\(arg:self\).*BALANCE_ENTRY_SIZE", rets[0][1][0]) is not None and add == [72]
    rep.check(ok and be == 40, "IMG-init", "tx_offset=max_inputs*BALANCE_ENTRY_SIZE+32+8+32", "%s:%s" % (f["file"], f["line"]), "tx_offset returns %s; BALANCE_ENTRY_SIZE=%s" % (rets, be))
    n, f = F.find(r"^fuel_vm::interpreter::metadata::<impl fuel_vm::interpreter::Interpreter<M, S, Tx, Ecal, V>>::get_transaction_field$", ["fuel_vm"], one=True)
    fam = family(F, n, "fuel_vm::interpreter::metadata::")
    cs, rd, passes = [], [], False
    for gn, g in fam.items():
        for i, c, args, *_ in calls(g):
            if callee_matches(c, r"checked_sub$"):
                cs.append((gn, [describe(g, x, depth=8) for x in args]))
            if callee_matches(c, r"MemoryInstance::read_bytes$"):
                rd.append([describe(g, x, depth=12) for x in args])
            if callee_name(c) in fam and any("call:tx_offset(arg:self)" in describe(g, x, depth=8) for x in args):
                passes = True
    okc = len(cs) == 1 and cs[0][1][1] == "const:8" and (cs[0][1][0] == "call:tx_offset(arg:self)" or (cs[0][0] != n and re.match(r"^arg:\w+$", cs[0][1][0]) and passes))
    ok = okc and len(rd) == 1 and re.search(r"checked_sub\((call:tx_offset\(arg:self\)|arg:\w+),const:8\)", rd[0][1]) is not None
    rep.check(ok, "IMG-init", "GTF:tx_size-read-at-tx_offset-8", "%s:%s" % (f["file"], f["line"]), "checked_sub %s read %s" % (cs, rd))
    n2, f2 = F.find(r"^fuel_vm::interpreter::initialization::<impl fuel_vm::interpreter::Interpreter<M, S, Tx, Ecal, V>>::init_inner$", ["fuel_vm"], one=True)
    own = set()
    for gn, g in family(F, n2, "fuel_vm::interpreter::initialization::").items():
        for i, c, args, *_ in calls(g):
            nm = callee_name(c).rsplit("::", 1)[-1]
            if nm in ("tx_offset", "owner_offset", "inputs_offset_at", "saturating_add"):
                own.add(nm)
    rep.check(own == {"tx_offset", "owner_offset", "inputs_offset_at", "saturating_add"}, "IMG-init", "owner_ptr=tx_offset+inputs_offset_at(i)+owner_offset", where, "owner pointer computation (init_inner, its closures and private helpers) calls %s" % sorted(own))
