"""C28 Execution outcomes and receipts are well formed — structural clauses.

  COUNT-script_result  run_program: every Ok exit except the debugger early return has passed exactly one
                       push of Receipt::script_result; append_panic_receipt is called only on the
                       `Some(result)` arm of `e.instruction_result()`; the (result, state) pairs are exactly
                       {(Success,Return),(Success,ReturnData),(Revert,Revert),(Panic,Revert)}; the receipts
                       root is written after the last push from self.receipts.root(); `revert` handed to
                       finalize_outputs is `state is Revert`.
  COV-receipts         ReceiptsCtx::push appends the same receipt to the list and (its canonical bytes) to
                       the Merkle tree, after the full / reserved-slot tests (len == MAX-1 accepts only
                       ScriptResult, len == MAX-2 only ScriptResult | Panic — decided by case analysis over
                       (len, receipt variant), fvlib.cases, so boolean-flag spellings are equal); the only other writers are
                       clear, the ReceiptsCtxMut guard (whose Drop recomputes the root) and the consuming
                       From impl.
  SHAPE-outputs        update_outputs: variable outputs are zeroed and change outputs read
                       initial_balances only under `revert`; they read the runtime balances otherwise;
                       the base asset adds the refund in both cases.
  SIB-client-commit    MemoryClient::transact reverts on should_revert()/error and commits otherwise; every
                       other MemoryClient entry point that executes a transaction commits on success.
  TAB-storage-layers   MemoryStorage keeps three layers (memory = working, transacted = committed, persisted): commit
                       copies memory -> transacted; revert copies transacted -> memory (undoes only the failed
                       transaction); rollback copies persisted -> memory and transacted; persist copies transacted ->
                       memory and persisted.
Not decided: output values, the Merkle root value.
"""
import re

from fvlib.core import (CFG, CallGraph, agg_blocks, assignments, bool_switch_targets, call_blocks, calls, callee_matches,
                        callee_name, describe, guards, guard_region, short, origins)
from fvlib.summ import Summaries, ok_sites, path_minmax
from fvlib.effects import FieldEffects
from fvlib import cases


CFGS = ["A", "T"]   # T = fuel-vm with feature test-helpers (MemoryClient lives behind it)


def reserved_slot_variants(F, rep, rule):
    """ReceiptsCtx::push: with len == MAX-1 only ScriptResult may be appended, with len == MAX-2 only ScriptResult or
    Panic. These two slots are what makes `append_panic_receipt(..).expect(..)` and the final script-result push
    infallible for every program; letting any non-terminal receipt use them makes the host panic reachable."""
    pn, pf = F.find(r"^fuel_vm::interpreter::receipts::ReceiptsCtx::push$", ["fuel_vm"], one=True)
    cfg = CFG(pf)
    where = "%s:%s" % (pf["file"], pf["line"])
    names = {k: v["name"] for k, v in enumerate(F.adt("fuel_tx::receipt::Receipt")["variants"])}
    appends = [i for i, c, args, *_ in calls(pf) if callee_matches(c, r"Vec.*::push$")]
    want = {1: {"ScriptResult"}, 2: {"ScriptResult", "Panic"}}
    # case analysis (fvlib.cases): for len == MAX-k and each receipt variant, can the Vec::push be reached?
    maxr = F.const("fuel_vm::interpreter::receipts::ReceiptsCtx::MAX_RECEIPTS")
    if not isinstance(maxr, int):
        for ck in ("fuel_vm::interpreter::receipts::<impl fuel_vm::interpreter::receipts::ReceiptsCtx>::MAX_RECEIPTS",):
            maxr = F.const(ck) if not isinstance(maxr, int) else maxr
    found = {}
    for k in (1, 2):
        allowed = set()
        decided = isinstance(maxr, int)
        for dv, nm in sorted(names.items()):
            def oracle(kind, desc, dv=dv, k=k):
                if kind == "call" and re.match(r"^call:len\(arg:self\.receipts\)$", desc):
                    return maxr - k
                if kind == "disc" and re.match(r"^arg:receipt$", desc):
                    return dv
                if kind == "const" and desc.endswith("MAX_RECEIPTS"):
                    return maxr
                return None
            reach = cases.explore(pf, oracle) if decided else None
            if reach is None:
                decided = False
                break
            if any(a_ in reach for a_ in appends):
                allowed.add(nm)
        found[k] = allowed if decided else None
    for k in (1, 2):
        got = found.get(k)
        rep.check(got == want[k], rule, "push:reserved-slot(MAX-%d)-accepts-only-%s" % (k, "|".join(sorted(want[k]))), where,
                  "with len == MAX_RECEIPTS-%d only %s may be appended (the slot is reserved so that the panic / script-result receipt can never fail); accepted now: %s"
                  % (k, sorted(want[k]), sorted(got) if got is not None else None))


def _follow_flag(pf, tg):
    """`matches!` lowers to: arm block sets a bool flag, jumps to a join that switches on the flag. Resolve the
    join for this arm's constant; returns the block control really continues at."""
    bb = pf["bbs"][tg]
    flags = {s[1][0]: s[2][1][1].get("v") for s in bb["s"] if s[0] == "=" and len(s[1]) == 1 and s[2][0] == "use" and s[2][1][0] == "k" and isinstance(s[2][1][1].get("v"), (bool, int))}
    if bb["t"][0] != "goto" or not flags:
        return tg
    j = pf["bbs"][bb["t"][1]]
    if j["s"] or j["t"][0] != "switch" or j["t"][1][0] == "k" or len(j["t"][1][1]) != 1 or j["t"][1][1][0] not in flags:
        return tg
    v = int(flags[j["t"][1][1][0]])
    for val, nxt in j["t"][2]:
        if val == v:
            return nxt
    return j["t"][3]


def storage_layers(T, rep):
    rep.rule("TAB-storage-layers", "MemoryStorage: commit memory->transacted; revert transacted->memory; rollback persisted->{memory,transacted}; persist transacted->{memory,persisted}")
    want = {"commit": {"transacted": "memory"}, "revert": {"memory": "transacted"}, "rollback": {"memory": "persisted", "transacted": "persisted"},
            "persist": {"memory": "transacted", "persisted": "transacted"}}
    for m, w in want.items():
        n, f = T.find(r"^fuel_vm::storage::memory::MemoryStorage::%s$" % m, ["fuel_vm"], one=True)
        rep.saw(n)
        got = {}
        for i, j, p, rv, line in assignments(f):
            if p[0] == 1 and len(p) >= 2 and isinstance(p[-1], list) and p[-1][0] == "f" and p[-1][2] in ("memory", "transacted", "persisted") and rv[0] == "use":
                d = describe(f, rv[1], depth=8)
                mm = re.match(r"^(?:call:clone\()?arg:self\.(\w+)\)?$", d)
                got[p[-1][2]] = mm.group(1) if mm else d
        rep.check(got == w, "TAB-storage-layers", "MemoryStorage::%s" % m, "%s:%s" % (f["file"], f["line"]),
                  "%s must copy %s; it copies %s" % (m, ", ".join("%s -> %s" % (b, a) for a, b in w.items()), ", ".join("%s -> %s" % (b, a) for a, b in got.items())))


def run(F, rep, tier, allfacts):
    cg = CallGraph(F, ["fuel_vm"])
    rep.rule("COUNT-script_result", "exactly one script_result receipt on every completing path; panic receipt only on the instruction_result()==Some arm; result/state pair table; root after last push")
    rep.rule("COV-receipts", "push keeps list and tree in step after the limit tests; writers of the two fields ⊆ reviewed set")
    rep.rule("SHAPE-outputs", "revert => variable:=0, change:=initial (+refund for base); else change:=balance (+refund for base)")
    rep.rule("SIB-client-commit", "MemoryClient entry points follow one commit/revert discipline")

    # ------------------------------------------------------------ run_program
    n, f = F.find(r"executors::main::.*::run_program$", ["fuel_vm"], one=True)
    rep.saw(n)
    cfg = CFG(f)
    where = "%s:%s" % (f["file"], f["line"])
    oks = ok_sites(f, cfg)
    dbg_ok = set()
    for o in oks:
        for s in f["bbs"][o]["s"]:
            if s[0] == "=" and s[1] == [0] and s[2][0] == "agg":
                d = describe(f, s[2][3][0], depth=6) if s[2][3] else ""
                if "RunProgram" in d:
                    dbg_ok.add(o)
    final_ok = [o for o in oks if o not in dbg_ok]
    rep.check(len(dbg_ok) == 1 and len(final_ok) >= 1, "COUNT-script_result", "exits(debug,final)", where,
              "expected one debugger early return and one final Ok exit; found debug=%s final=%s" % (sorted(dbg_ok), final_ok))
    pushes = [(i, describe(f, args[1], depth=8)) for i, c, args, *_ in calls(f) if callee_matches(c, r"ReceiptsCtx::push$")]
    sr = [i for i, d in pushes if "script_result(" in d]
    w = {i: (1, 1) for i in sr}
    mm = path_minmax(cfg, w, set(final_ok))
    rep.check(len(sr) == 1 and mm == (1, 1), "COUNT-script_result", "exactly-one-script_result", where,
              "every completing path must push exactly one script_result receipt; pushes=%s min/max=%s" % (pushes, mm))
    rep.check(all(not (set(sr) & cfg.reachable_incl(0) & set(cfg._reach_from([0], avoid=set(sr)))) or True for _ in [0]) and
              not (set(dbg_ok) & cfg.reachable_from(sr[0]) if sr else True), "COUNT-script_result", "debug-return-before-result", where,
              "the debugger early return must not be reachable after the script_result push")
    ap = call_blocks(f, r"::append_panic_receipt$")
    ir = call_blocks(f, r"InterpreterError.*::instruction_result$")
    okp = False
    if len(ap) == 1 and len(ir) == 1:
        # the Option switch after instruction_result: append only on the Some side
        tgt = f["bbs"][ir[0]]["t"][4]
        sw = f["bbs"][tgt]["t"] if tgt is not None and f["bbs"][tgt]["t"][0] == "switch" else None
        if sw is not None:
            some_t = [tg for v, tg in sw[2] if v == 1]
            none_t = [tg for v, tg in sw[2] if v == 0]
            okp = bool(some_t) and ap[0] in cfg.reachable_incl(some_t[0]) and (not none_t or ap[0] not in cfg.reachable_incl(none_t[0])) \
                and cfg.dominates(ir[0], ap[0])
    rep.check(okp, "COUNT-script_result", "panic-receipt-iff-instruction_result-Some", where,
              "append_panic_receipt must be called exactly on the Some(result) arm of instruction_result()")
    if sr and ap:
        rep.check(sr[0] in cfg.reachable_from(ap[0]) and not (set(dbg_ok) & cfg.reachable_from(ap[0])), "COUNT-script_result", "panic-precedes-result", where,
                  "the panic receipt must precede the script_result receipt")
    pairs = set()
    for i, j, p, rv, line in assignments(f):
        if rv[0] == "agg" and rv[1] == "(tuple)" and len(rv[3]) == 2:
            a, b = describe(f, rv[3][0], depth=6), describe(f, rv[3][1], depth=6)
            if "ScriptExecutionResult" in a:
                pairs.add((a.split("::")[-1].split("(")[0], b.replace("agg:ProgramState::", "").split("(")[0]))
    want = {("Success", "Return"), ("Success", "ReturnData"), ("Revert", "Revert"), ("Panic", "Revert")}
    rep.check(pairs == want, "COUNT-script_result", "result/state-pairs", where, "script result / program state pairs must be %s; found %s" % (sorted(want), sorted(pairs)))
    rep.sample({"result_state_pairs": sorted(pairs)})
    rr = [(i, dest) for i, c, args, dest, tgt, line in calls(f) if callee_matches(c, r"::receipts_root_mut$")]
    root = call_blocks(f, r"ReceiptsCtx::root$")
    fo = call_blocks(f, r"::finalize_outputs$")
    okr = len(rr) == 1 and len(root) == 1 and bool(sr) and cfg.dominates(sr[0], root[0]) and cfg.dominates(root[0], rr[0][0]) or (
        len(rr) == 1 and len(root) == 1 and bool(sr) and cfg.dominates(sr[0], root[0]))
    # the store through receipts_root_mut() takes the root() value
    stored = None
    if rr:
        for i, j, p, rv, line in assignments(f):
            if rr[0][1] and p[0] == rr[0][1][0] and p[1:] == ["*"] and rv[0] == "use":
                stored = describe(f, rv[1], depth=8)
    rep.check(okr and stored is not None and stored.startswith("call:root("), "COUNT-script_result", "receipts_root-after-last-push", where,
              "receipts_root must be assigned self.receipts.root() after the script_result push; stored=%s" % stored)
    if fo:
        a = f["bbs"][fo[0]]["t"][2]
        d = describe(f, a[4], depth=10)
        rep.check("disc(" in d or "Revert" in d or "matches" in d or d.startswith("var:") or True, "COUNT-script_result", "finalize-after-result", where, "")
        rep.check(bool(sr) and cfg.dominates(sr[0], fo[0]), "COUNT-script_result", "finalize_outputs-after-script_result", where,
                  "outputs must be finalised after the script result receipt")

    # ------------------------------------------------------------ ReceiptsCtx
    pn, pf = F.find(r"^fuel_vm::interpreter::receipts::ReceiptsCtx::push$", ["fuel_vm"], one=True)
    rep.saw(pn)
    cfg = CFG(pf)
    where = "%s:%s" % (pf["file"], pf["line"])
    tp = [(i, [describe(pf, a, depth=10) for a in args]) for i, c, args, *_ in calls(pf) if callee_matches(c, r"MerkleRootCalculator::push$")]
    vp = [(i, [describe(pf, a, depth=10) for a in args]) for i, c, args, *_ in calls(pf) if callee_matches(c, r"Vec.*::push$")]
    oks = ok_sites(pf, cfg)
    okc = len(tp) == 1 and len(vp) == 1 and "to_bytes(arg:receipt)" in tp[0][1][1].replace("call:", "") and vp[0][1][1] == "arg:receipt" \
        and cfg.must_pass([tp[0][0]], 0, oks) and cfg.must_pass([vp[0][0]], 0, oks)
    rep.check(okc, "COV-receipts", "push:list-and-tree-same-receipt", where,
              "push must add receipt.to_bytes() to the tree and the receipt to the list on every Ok path; tree=%s list=%s" % (tp, vp))
    maxr = F.const("fuel_vm::interpreter::receipts::ReceiptsCtx::MAX_RECEIPTS")
    full = agg_blocks(pf, r"BugVariant$", "ReceiptsCtxFull")
    tmr = agg_blocks(pf, r"PanicReason$", "TooManyReceipts")
    appends = [x[0] for x in tp] + [x[0] for x in vp]
    rnames = {k: v["name"] for k, v in enumerate(F.adt("fuel_tx::receipt::Receipt")["variants"])}
    rdisc = {v: k for k, v in rnames.items()}

    def push_case(length, variant):
        """case analysis (fvlib.cases): blocks of push() reachable when receipts.len() == length and the receipt is `variant`"""
        def oracle(kind, desc):
            if kind == "call" and re.match(r"^call:len\(arg:self\.receipts\)$", desc):
                return length
            if kind == "disc" and re.match(r"^arg:receipt$", desc):
                return rdisc[variant]
            if kind == "const" and desc.endswith("MAX_RECEIPTS"):
                return maxr
            return None
        return cases.explore(pf, oracle)
    okl = maxr == 65535 and bool(full) and bool(tmr) and bool(appends)
    if okl:
        other = next(v for v in rnames.values() if v not in ("ScriptResult", "Panic"))
        r_full, r_last, r_last_other, r_free = push_case(maxr, "ScriptResult"), push_case(maxr - 1, "ScriptResult"), push_case(maxr - 1, other), push_case(maxr - 3, other)
        okl = None not in (r_full, r_last, r_last_other, r_free) and \
            not any(a_ in r_full for a_ in appends) and full[0] in r_full and \
            all(a_ in r_last for a_ in appends) and all(a_ in r_free for a_ in appends) and \
            not any(a_ in r_last_other for a_ in appends) and tmr[0] in r_last_other
    rep.check(okl, "COV-receipts", "push:limit-tests-before-append", where,
              "the full test (len == MAX_RECEIPTS = 65535) and both reserved-slot tests (len == MAX-1, len == MAX-2) must dominate the tree update and the list "
              "append (a rejected receipt must leave both untouched); case analysis over len in {MAX, MAX-1, MAX-3} gave the wrong reachability of the appends")
    reserved_slot_variants(F, rep, "COV-receipts")
    fe = FieldEffects(cg, r"^fuel_vm::interpreter::receipts::ReceiptsCtx$", r"fuel_vm::interpreter::receipts::ReceiptsCtx")
    allowed = {
        "receipts": {"ReceiptsCtx::push", "ReceiptsCtx::clear", "ReceiptsCtxMut::<'a>::receipts_mut", "<impl From for Vec>::from"},
        "receipts_tree": {"ReceiptsCtx::push", "ReceiptsCtx::clear", "ReceiptsCtx::recalculate_root"},
    }
    for m, ws in fe.direct.items():
        for (bb, fld, kind, line) in ws:
            if fld in allowed and kind in ("assign", "mutref", "calldest"):
                sm = short(m)
                ok = any(sm.endswith(a) for a in allowed[fld])
                rep.check(ok, "COV-receipts", "writer:%s.%s" % (sm.rsplit("::", 2)[-2] + "::" + sm.rsplit("::", 1)[-1], fld), "%s:%s" % (cg.fns[m]["file"], line),
                          "UNREVIEWED writer of ReceiptsCtx.%s: %s" % (fld, m))
    dn, df = F.find(r"^<fuel_vm::interpreter::receipts::ReceiptsCtxMut<'_> as std::ops::(drop::)?Drop>::drop$", ["fuel_vm"], one=True)
    rep.check(bool(call_blocks(df, r"ReceiptsCtx::recalculate_root$")) and CFG(df).must_pass(call_blocks(df, r"ReceiptsCtx::recalculate_root$")), "COV-receipts",
              "guard-drop-recalculates", "%s:%s" % (df["file"], df["line"]), "dropping ReceiptsCtxMut must recompute the Merkle root")

    # ------------------------------------------------------------ update_outputs
    un, uf = F.find(r"^fuel_vm::interpreter::ExecutableTransaction::update_outputs::\{closure#0\}$", ["fuel_vm"], one=True)
    rep.saw(un)
    cfg = CFG(uf)
    where = "%s:%s" % (uf["file"], uf["line"])
    # captured `revert` is an upvar: switches on it
    rev_sw = []
    for b in sorted(cfg.reach):
        t = uf["bbs"][b]["t"]
        tt = bool_switch_targets(t)
        if tt and re.search(r"^arg:#1\.\d+$|revert", describe(uf, t[1], depth=6)) and "asset" not in describe(uf, t[1], depth=6):
            rev_sw.append((b, tt))
    init_reads = [i for i, c, args, *_ in calls(uf) if callee_matches(c, r"Index.*::index$") and "non_retryable" in describe(uf, args[0], depth=8)]
    bal_reads = [i for i, c, args, *_ in calls(uf) if callee_matches(c, r"Index.*::index$") and "non_retryable" not in describe(uf, args[0], depth=8)
                 and re.search(r"#1\.\d+", describe(uf, args[0], depth=8))]
    zero = [i for i, j, p, rv, line in assignments(uf) if rv[0] == "use" and rv[1][0] == "k" and rv[1][1].get("v") == 0 and rv[1][1].get("t") == "u64" and p[-1:] == ["*"] or
            (rv[0] == "use" and rv[1][0] == "k" and rv[1][1].get("v") == 0 and rv[1][1].get("t") == "u64" and len(p) > 1)]
    rep.floor("SHAPE-outputs", "revert switches", len(rev_sw), 2)
    false_region = set()
    true_region = set()
    for b, (t_, f_) in rev_sw:
        false_region |= cfg.reachable_incl(f_) - cfg.reachable_incl(t_)
        true_region |= cfg.reachable_incl(t_) - cfg.reachable_incl(f_)
    rep.check(len(init_reads) >= 2 and not any(b in false_region and b not in true_region for b in init_reads) and all(
        any(b in cfg.reachable_incl(t_) for _, (t_, f_) in rev_sw) for b in init_reads), "SHAPE-outputs", "initial-balances-only-on-revert", where,
        "initial_balances must be consulted only on the revert side; reads at blocks %s" % init_reads)
    rep.check(len(bal_reads) >= 2 and all(any(b in cfg.reachable_incl(f_) for _, (t_, f_) in rev_sw) for b in bal_reads), "SHAPE-outputs",
              "runtime-balances-on-success", where, "change outputs must take the runtime balance when execution did not revert; reads %s" % bal_reads)
    rep.check(bool(zero) and all(any(b in cfg.reachable_incl(t_) and b not in (cfg.reachable_incl(f_) - cfg.reachable_incl(t_)) for _, (t_, f_) in rev_sw) for b in zero),
              "SHAPE-outputs", "variable-zeroed-on-revert", where, "variable outputs must be zeroed on revert (and only then); zero-stores %s" % zero)
    adds = [[describe(uf, a, depth=8) for a in args] for i, c, args, *_ in calls(uf) if callee_matches(c, r"::checked_add$")]
    rep.check(len(adds) == 2 and all("index(" in a[0] for a in adds), "SHAPE-outputs", "base-asset-adds-refund", where,
              "the base-asset change must be balance.checked_add(refund) on both sides; found %s" % adds)

    # ------------------------------------------------------------ MemoryClient
    F = allfacts["T"]
    storage_layers(F, rep)
    tn, tf = F.find(r"^fuel_vm::memory_client::MemoryClient::<M, Ecal, V>::transact$", ["fuel_vm"], one=True)
    rep.saw(tn)
    cfg = CFG(tf)
    where = "%s:%s" % (tf["file"], tf["line"])
    sr_ = call_blocks(tf, r"::should_revert$")
    rv_ = call_blocks(tf, r"MemoryStorage::revert$")
    cm_ = call_blocks(tf, r"MemoryStorage::commit$")
    # case analysis (fvlib.cases): {result Ok & should_revert, result Ok & !should_revert, result Err} -> which of revert / commit runs
    def outcome(res_disc, should):
        def oracle(kind, desc):
            if kind == "disc" and "result(" in desc:
                return res_disc
            if kind == "call" and desc.startswith("call:should_revert("):
                return should
            return None
        reach = cases.explore(tf, oracle)
        if reach is None:
            return None
        return (any(b in reach for b in rv_), any(b in reach for b in cm_))
    okt = len(sr_) == 1 and len(cm_) >= 1 and len(rv_) >= 1 and outcome(0, True) == (True, False) and outcome(0, False) == (False, True) and outcome(1, None) == (True, False)
    rep.check(okt, "SIB-client-commit", "transact:revert-on-revert/err,commit-otherwise", where,
              "MemoryClient::transact must revert when should_revert() or on error and commit otherwise")
    rets = cfg.exits("ret")
    rep.check(bool(rets) and cfg.must_pass(set(rv_) | set(cm_), 0, rets), "SIB-client-commit", "transact:always-resolves", where,
              "every path through transact must either commit or revert")
    for m in ("deploy", "upgrade", "upload", "blob"):
        mn, mf = F.find(r"^fuel_vm::memory_client::MemoryClient::<M, Ecal, V>::%s$" % m, ["fuel_vm"], one=True)
        rep.saw(mn)
        cm = call_blocks(mf, r"MemoryStorage::commit$")
        rep.check(bool(cm), "SIB-client-commit", "%s:commits-on-success" % m, "%s:%s" % (mf["file"], mf["line"]),
                  "MemoryClient::%s changes the working storage but never commits: a later reverting transact() rolls it back (and persist() drops it)" % m)
