"""C03 Transaction id commits to exactly the non-malleable content — structural clauses.

  TAB-malleable     the set of fields each prepare_sign writes equals the specification's malleable set:
                    coin input {tx_pointer, predicate_gas_used}; contract input {utxo_id, balance_root,
                    state_root, tx_pointer}; message input {predicate_gas_used}; contract output
                    {balance_root, state_root}; change output {amount}; variable output {to, amount,
                    asset_id}; script body {receipts_root}; create/upload/upgrade/blob bodies {}.
                    The Input / Output dispatchers delegate variant-to-variant and the transaction-level
                    prepare_sign visits the body, every input and every output.
  DOM-id            ChargeableTransaction::id: unless a cached id exists, clone -> prepare_sign(clone) ->
                    clone.witnesses.clear() -> compute_transaction_id(chain_id, clone), in that order and all
                    on the clone; compute_transaction_id feeds the hasher chain_id.to_be_bytes() then
                    tx.to_bytes(); Mint::id zeroes its contract input/output the same way.
  DOM-precompute    every Cacheable::precompute assigns `metadata = None` before it computes the new
                    metadata (whose computation calls id(): otherwise id() returns the stale cached value), and
                    makes no call that reads `self` before the clear (every accessor answers from the cache);
                    cached_id reads the id stored in that metadata.
Not decided: SHA-256, staleness after a *_mut() accessor is used post precompute (allowed by the trait's docs).
"""
import re

from fvlib.core import (CFG, CallGraph, agg_blocks, arm_regions, assignments, call_blocks, calls, callee_matches, callee_name,
                        closure_env, describe, enum_switches, short, subst_env)
from fvlib.effects import direct_field_writes, _exact_field
from fvlib.summ import ok_sites

NOCLONE = re.compile(r"(ops::deref::Deref(Mut)?::deref(_mut)?|convert::AsRef::as_ref|convert::AsMut::as_mut|borrow::Borrow(Mut)?::borrow(_mut)?)")

T = "fuel_tx::transaction::types::"
CL = "call:clone(arg:self)"
SETS = {
    T + "input::coin::Coin::<Specification>::prepare_sign": (r"input::coin::Coin$", {"tx_pointer", "predicate_gas_used"}),
    T + "input::contract::Contract::prepare_sign": (r"input::contract::Contract$", {"utxo_id", "balance_root", "state_root", "tx_pointer"}),
    T + "input::message::Message::<Specification>::prepare_sign": (r"input::message::Message$", {"predicate_gas_used"}),
    T + "output::contract::Contract::prepare_sign": (r"output::contract::Contract$", {"balance_root", "state_root"}),
    "<" + T + "script::ScriptBody as fuel_tx::transaction::id::PrepareSign>::prepare_sign": (r"script::ScriptBody$", {"receipts_root"}),
    "<" + T + "create::CreateBody as fuel_tx::transaction::id::PrepareSign>::prepare_sign": (r"create::CreateBody$", set()),
    "<" + T + "upload::UploadBody as fuel_tx::transaction::id::PrepareSign>::prepare_sign": (r"upload::UploadBody$", set()),
    "<" + T + "upgrade::UpgradeBody as fuel_tx::transaction::id::PrepareSign>::prepare_sign": (r"upgrade::UpgradeBody$", set()),
    "<" + T + "blob::BlobBody as fuel_tx::transaction::id::PrepareSign>::prepare_sign": (r"blob::BlobBody$", set()),
}
OUT_VARIANTS = {"Change": {"amount"}, "Variable": {"to", "amount", "asset_id"}, "Coin": set(), "ContractCreated": set()}


def run(F, rep, tier, allfacts):
    cg = CallGraph(F, ["fuel_tx", "fuel_types"])
    rep.rule("TAB-malleable", "write-set of each prepare_sign == specification's malleable field set; dispatchers exhaustive")
    rep.rule("DOM-id", "id(): clone -> prepare_sign -> witnesses.clear -> hash(chain_id_be ++ canonical bytes) on the clone")
    rep.rule("DOM-precompute", "metadata = None dominates the metadata computation in every precompute")

    for fn, (adt_rx, want) in sorted(SETS.items()):
        f = F.fn(fn)
        if f is None:
            rep.anchor_missing(fn)
            continue
        rep.saw(fn)
        got = {w[1] for w in direct_field_writes(f, adt_rx)}
        # every write must be a reset to Default (call default / const) — value provenance
        rep.check(got == want, "TAB-malleable", short(fn).replace("fuel_tx::transaction::types::", ""), "%s:%s" % (f["file"], f["line"]),
                  "prepare_sign must zero exactly %s; it writes %s (missing %s, extra %s)" % (sorted(want), sorted(got), sorted(want - got), sorted(got - want)))
        vals = [describe(f, rv[1], depth=4) for i, j, p, rv, line in assignments(f) if rv[0] == "use" and len(p) > 1 and any(isinstance(e, list) and e[0] == "f" for e in p[1:])]
        rep.check(all(v.startswith("call:default(") or v.startswith("const:") for v in vals), "TAB-malleable", short(fn).replace("fuel_tx::transaction::types::", "") + ":values-are-default", None,
                  "malleable fields must be set to their default value; found %s" % vals)
    # Output dispatcher
    on = T + "output::Output::prepare_sign"
    f = F.fn(on)
    if f is None:
        rep.anchor_missing(on)
    else:
        rep.saw(on)
        cfg = CFG(f)
        per = {}
        for i, j, p, rv, line in assignments(f):
            places = [p]
            if rv[0] == "ref" and rv[1] == "mut":
                places.append(rv[2])
            for q in places:
                dc = [e for e in q[1:] if isinstance(e, list) and e[0] == "d"]
                fl = [e for e in q[1:] if isinstance(e, list) and e[0] == "f"]
                if dc and fl and (q is p or True) and not (q is p and rv[0] == "ref" and rv[1] != "mut" and False):
                    if q is p or rv[1] == "mut":
                        per.setdefault(dc[0][1], set()).add(fl[0][2])
        for v, want in OUT_VARIANTS.items():
            rep.check(per.get(v, set()) == want, "TAB-malleable", "Output::" + v, "%s:%s" % (f["file"], f["line"]),
                      "Output::%s must zero exactly %s; prepare_sign writes %s" % (v, sorted(want), sorted(per.get(v, set()))))
        dl = [describe(f, args[0], depth=6) for i, c, args, *_ in calls(f) if callee_matches(c, r"output::contract::Contract::prepare_sign$")]
        rep.check(len(dl) == 1 and "@Contract" in dl[0], "TAB-malleable", "Output::Contract->delegates", "%s:%s" % (f["file"], f["line"]), "Output::Contract must delegate to its own prepare_sign; found %s" % dl)
    # Input dispatcher
    inn = T + "input::Input::prepare_sign"
    f = F.fn(inn)
    if f is None:
        rep.anchor_missing(inn)
    else:
        rep.saw(inn)
        cfg = CFG(f)
        V = {v["discr"]: v["name"] for v in F.adt(T + "input::Input")["variants"]}
        sw = enum_switches(f, cfg, r"^disc\(arg:self\)$")
        want = {"CoinSigned": "coin::Coin", "CoinPredicate": "coin::Coin", "Contract": "contract::Contract", "MessageCoinSigned": "message::Message",
                "MessageCoinPredicate": "message::Message", "MessageDataSigned": "message::Message", "MessageDataPredicate": "message::Message"}
        rep.check(len(sw) == 1 and set(V.values()) == set(want), "TAB-malleable", "Input:variants", "%s:%s" % (f["file"], f["line"]), "Input variants %s vs table %s" % (sorted(V.values()), sorted(want)))
        if len(sw) == 1:
            regs = arm_regions(f, cfg, sw[0][1], V)
            for v, blocks in sorted(regs.items()):
                cs = [(callee_name(f["bbs"][b]["t"][1]), describe(f, f["bbs"][b]["t"][2][0], depth=6)) for b in blocks if f["bbs"][b]["t"][0] == "call" and callee_name(f["bbs"][b]["t"][1]).endswith("::prepare_sign")]
                ok = len(cs) == 1 and want.get(v, "?") in cs[0][0] and ("@" + v) in cs[0][1]
                rep.check(ok, "TAB-malleable", "Input::" + v, "%s:%s" % (f["file"], f["line"]), "Input::%s must delegate to %s::prepare_sign on its own payload; found %s" % (v, want.get(v), cs))
    # transaction-level
    tn = "<" + T + "chargeable_transaction::ChargeableTransaction<Body, MetadataBody> as fuel_tx::transaction::id::PrepareSign>::prepare_sign"
    f = F.fn(tn)
    if f is None:
        rep.anchor_missing(tn)
    else:
        rep.saw(tn)
        cfg = CFG(f)
        body = call_blocks(f, r"PrepareSign::prepare_sign$")
        fe = [(i, [describe(f, a, depth=10) for a in args]) for i, c, args, *_ in calls(f) if callee_matches(c, r"Iterator::for_each$|IterMut.*::for_each$")]
        rets = cfg.exits("ret")

        def visits(kind, ty):
            """block that makes every element of self.<kind>_mut() go through <ty>::prepare_sign: a for_each over the
            iterator, or a `for` loop (the call sits on a cycle headed by next() of that iterator)"""
            for i_, a in fe:
                if (kind + "_mut(") in a[0] and a[1].endswith(ty + "::prepare_sign"):
                    return i_
            dom_ = cfg.dominators()
            for i_, c_, args_, *_r in calls(f):
                if callee_name(c_).endswith("::" + ty + "::prepare_sign") or callee_name(c_).endswith(ty + "::prepare_sign"):
                    if i_ in cfg.reachable_from(i_):
                        heads = [h for h in dom_.get(i_, ()) if f["bbs"][h]["t"][0] == "call" and callee_matches(f["bbs"][h]["t"][1], r"Iterator>?::next$")
                                 and (kind + "_mut(") in describe(f, f["bbs"][h]["t"][2][0], depth=14)]
                        if heads:
                            return heads[0]
            return None
        vi, vo = visits("inputs", "Input"), visits("outputs", "Output")
        body = [b for b in body if "ChargeableBody" in callee_name(f["bbs"][b]["t"][1]) or "body" in describe(f, f["bbs"][b]["t"][2][0], depth=8)] or body
        ok = len(body) >= 1 and vi is not None and vo is not None and all(cfg.must_pass([b], 0, rets) for b in body[:1] + [vi, vo])
        rep.check(ok, "TAB-malleable", "tx:body+all-inputs+all-outputs", "%s:%s" % (f["file"], f["line"]), "transaction prepare_sign must visit the body, every input and every output; found body=%d for_each=%s" % (len(body), fe))

    # ---------------- id pipeline
    idn = "<" + T + "chargeable_transaction::ChargeableTransaction<Body, MetadataBody> as fuel_tx::transaction::id::UniqueIdentifier>::id"
    f = F.fn(idn)
    if f is None:
        rep.anchor_missing(idn)
    else:
        rep.saw(idn)
        cfg = CFG(f)
        where = "%s:%s" % (f["file"], f["line"])
        cl = call_blocks(f, r"Clone.*::clone$")
        ps = [(i, describe(f, args[0], depth=4, through=NOCLONE)) for i, c, args, *_ in calls(f) if callee_matches(c, r"PrepareSign.*::prepare_sign$")]
        wm = [(i, describe(f, args[0], depth=4, through=NOCLONE)) for i, c, args, *_ in calls(f) if callee_matches(c, r"::witnesses_mut$")]
        clr = [(i, describe(f, args[0], depth=6, through=NOCLONE)) for i, c, args, *_ in calls(f) if callee_matches(c, r"Vec.*::clear$")]
        cti = [(i, [describe(f, a, depth=4, through=NOCLONE) for a in args]) for i, c, args, *_ in calls(f) if callee_matches(c, r"compute_transaction_id$")]
        ok = len(cl) == 1 and len(ps) == 1 and len(wm) == 1 and len(clr) == 1 and len(cti) == 1
        if ok:
            ok = cfg.dominates(cl[0], ps[0][0]) and cfg.dominates(ps[0][0], clr[0][0]) and cfg.dominates(clr[0][0], cti[0][0]) \
                and ps[0][1] == CL and wm[0][1] == CL and clr[0][1].startswith("call:witnesses_mut(call:clone(") and cti[0][1] == ["arg:chain_id", CL]
        rep.check(ok, "DOM-id", "id:clone->prepare_sign->clear-witnesses->hash(clone)", where,
                  "id() must hash a clone that has been through prepare_sign and had its witnesses cleared; found prepare=%s witnesses=%s/%s hash=%s" % (ps, wm, clr, cti))
        ci = call_blocks(f, r"::cached_id$")
        rep.check(len(ci) == 1 and all(cfg.dominates(ci[0], b) for b in cl), "DOM-id", "id:cache-consulted-first", where, "cached_id must be consulted before recomputing")
    cn = T + "compute_transaction_id"
    f = F.fn(cn)
    if f is None:
        rep.anchor_missing(cn)
    else:
        rep.saw(cn)
        cfg = CFG(f)
        ins = [(i, describe(f, args[1], depth=8)) for i, c, args, *_ in calls(f) if callee_matches(c, r"Hasher::input$")]
        ok = len(ins) == 2 and cfg.dominates(ins[0][0], ins[1][0]) and bool(re.search(r"to_be_bytes\((call:deref\()?arg:chain_id", ins[0][1])) and "to_bytes(arg:tx)" in ins[1][1] and bool(call_blocks(f, r"Hasher::finalize$"))
        rep.check(ok, "DOM-id", "hash(chain_id.to_be_bytes() ++ tx.to_bytes())", "%s:%s" % (f["file"], f["line"]), "compute_transaction_id must hash the big-endian chain id and then the canonical bytes; found %s" % ins)
    mn = "<" + T + "mint::Mint as fuel_tx::transaction::id::UniqueIdentifier>::id"
    f = F.fn(mn)
    if f is not None:
        rep.saw(mn)
        cfg = CFG(f)
        ps = [(callee_name(c), describe(f, args[0], depth=4, through=NOCLONE)) for i, c, args, *_ in calls(f) if callee_name(c).endswith("::prepare_sign")]
        cti = [[describe(f, a, depth=4, through=NOCLONE) for a in args] for i, c, args, *_ in calls(f) if callee_matches(c, r"compute_transaction_id$")]
        # the uncached computation may sit in the closure of `cached_id().unwrap_or_else(|| ..)`: read it in the parent's vocabulary
        for cn_, cf_ in F.find("^" + re.escape(mn) + r"::\{closure#\d+\}$", ["fuel_tx"], required=False):
            env_ = closure_env(f, cn_, through=NOCLONE)
            ps += [(callee_name(c), subst_env(describe(cf_, args[0], depth=20, through=NOCLONE), env_)) for i, c, args, *_ in calls(cf_) if callee_name(c).endswith("::prepare_sign")]
            cti += [[subst_env(describe(cf_, a, depth=20, through=NOCLONE), env_) for a in args] for i, c, args, *_ in calls(cf_) if callee_matches(c, r"compute_transaction_id$")]
        ok = sorted(p[1] for p in ps) == [CL + ".input_contract", CL + ".output_contract"] and cti == [["arg:chain_id", CL]]
        rep.check(ok, "DOM-id", "Mint::id", "%s:%s" % (f["file"], f["line"]), "Mint::id must zero the clone's contract input and output and hash the clone; found %s / %s" % (ps, cti))

    # ---------------- precompute
    pcs = [(n, f) for n, f in F.find(r"metadata::Cacheable.*::precompute$", ["fuel_tx"]) if "transaction::Transaction as" not in n]
    rep.floor("DOM-precompute", "precompute impls", len(pcs), 6)
    for n, f in pcs:
        rep.saw(n)
        cfg = CFG(f)
        where = "%s:%s" % (f["file"], f["line"])
        nones = [i for i, j, p, rv, line in assignments(f) if p[1:] and isinstance(p[-1], list) and p[-1][0] == "f" and p[-1][2] == "metadata" and rv[0] == "agg" and rv[2] == "None"]
        if not nones:
            # `self.metadata = None` may be lowered as: tmp = None; drop(field); field = move tmp
            for i, j, p, rv, line in assignments(f):
                if p[1:] and isinstance(p[-1], list) and p[-1][0] == "f" and p[-1][2] == "metadata" and rv[0] == "use" and describe(f, rv[1], depth=4) == "agg:Option::None":
                    nones.append(i)
        comp = [i for i, c, args, *_ in calls(f) if callee_matches(c, r"Metadata::compute$|Metadata<.*>::compute$|::compute$") and "Metadata" in callee_name(c)]
        key = re.search(r"types::(\w+)::", n).group(1)
        rep.check(bool(nones) and bool(comp) and all(any(cfg.dominates(x, c) for x in nones) for c in comp), "DOM-precompute", key + ":metadata=None-before-compute", where,
                  "precompute must clear the cached metadata before computing the new one (compute() calls id(), which would otherwise return the stale cached id); None-assignments at %s, compute at %s" % (nones, comp))
        # every other value stored in the new metadata is obtained through accessors that answer from the cache when it is
        # present: each call that receives `self` must therefore come after the clear as well
        early = []
        for i, c, args, dest, tgt, line in calls(f):
            if callee_matches(c, r"ops::drop|drop_in_place"):
                continue
            if any(re.match(r"^arg:self($|\.)", describe(f, a, depth=4)) for a in args) and not any(cfg.dominates(x, i) for x in nones):
                early.append((callee_name(c).rsplit("::", 1)[-1], line))
        rep.check(not early, "DOM-precompute", key + ":no-self-read-before-clear", where,
                  "precompute reads through `self` before clearing the cached metadata (the accessor answers from the stale cache): %s" % early)
    ci = [(n, f) for n, f in F.find(r"UniqueIdentifier>::cached_id$", ["fuel_tx"]) if "transaction::Transaction as" not in n]
    for n, f in ci:
        clos = [cf for cn, cf in cg.fns.items() if cf["kind"] == "Closure" and cf.get("parent") == n]
        reads = [describe(cf, rv[1], depth=6) for cf in clos for i, j, p, rv, line in assignments(cf) if p == [0] and rv[0] == "use"]
        rep.check(len(reads) == 1 and reads[0].endswith(".id") and "metadata" in describe(f, f["bbs"][call_blocks(f, r"Option.*::as_ref$")[0]]["t"][2][0], depth=6) if call_blocks(f, r"Option.*::as_ref$") else False,
                  "DOM-precompute", "cached_id-reads-metadata.id:" + short(n)[:60], "%s:%s" % (f["file"], f["line"]), "cached_id must return the id stored in the metadata; found %s" % reads)
