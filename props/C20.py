"""C20 Only authorized inputs survive signature and predicate checks — typestate / dominance clauses.

  WHO-ctor           `Checked` literals are built only by Checked::new (and derive(Clone)); Checked::new is
                     called only by `basic` (with Checks::Basic), Ready::decompose and the two
                     Checked<Transaction> <-> CheckedTransaction conversions, all passing the source's
                     bitmask through unchanged. `Ready` literals only by into_ready (and Clone).
  DOM-bits           Checks::Signatures is inserted only in check_signatures after
                     transaction.check_signatures(chain_id)? succeeded; Checks::Predicates only after
                     predicates::check_predicates(..)? succeeded (sync) / in the async twin, and
                     unconditionally for Checked<Mint> (a mint has no inputs: reviewed idiom). No other
                     function mutates checks_bitmask; nobody outside test-helpers hands out &mut to the
                     checked transaction.
  DOM-check_predicate  in verification mode: the owner test precedes VM creation and fails with
                     InvalidOwner; the VM is started with exactly the input's declared predicate_gas_used
                     (no clamp); a result other than Return(1) is an error; remaining_gas() != 0 is
                     GasMismatch; gas_used = available.checked_sub(remaining).
  SIB-runners        the sequential and the parallel runner both funnel every predicate through the same
                     check_predicate and the same finalize_check_predicate; finalize propagates the first
                     failure and, when estimating, stores each gas_used into the input.
  DOM-signature-owner  Input::check_signature: for the three signed input kinds every Ok(()) is dominated by the
                     "equal" side of `owner != recovered_address` (InputInvalidSignature on the other side), also on a
                     recovery-cache hit; the recovered address is either cache[witness_index] or
                     witnesses[witness_index].recover_witness(txhash, ..), and what is cached under witness_index is
                     that recovered address.
Not decided: signature recovery itself (C17), schedule independence of a user-supplied executor.
"""
import re

from fvlib.core import (CFG, CallGraph, agg_blocks, assignments, bool_switch_targets, call_blocks, calls, callee_matches,
                        callee_name, describe, describe_nf, guards, guard_region, origins, short)
from fvlib.summ import ok_sites

CT = "fuel_vm::checked_transaction::"
PRED = "fuel_vm::interpreter::executors::main::predicates::"


def run(F, rep, tier, allfacts):
    cg = CallGraph(F, ["fuel_vm"])
    rep.rule("WHO-ctor", "constructors of Checked/Ready and callers of Checked::new ⊆ reviewed set; bitmask passed through")
    rep.rule("DOM-bits", "Checks::{Signatures,Predicates} inserted only after the corresponding verification returned Ok; writers of checks_bitmask ⊆ reviewed set")
    rep.rule("DOM-check_predicate", "owner test before VM; declared gas used verbatim; Return(1) required; remaining gas must be 0")
    rep.rule("SIB-runners", "sequential and parallel runners share check_predicate and finalize_check_predicate")
    rep.rule("DOM-signature-owner", "signed inputs: every Ok is dominated by owner == recovered address (cache hit included); cache keyed by witness index holds the recovered address")
    signature_owner(F, rep)

    # ---------------- constructors
    for adt, allowed in ((CT + "Checked", {CT + "Checked::<Tx>::new"}), (CT + "Ready", {CT + "Checked::<Tx>::into_ready"})):
        n_ok = 0
        for n, f in F.all_fns(["fuel_vm"]):
            for i, j, p, rv, line in assignments(f):
                if rv[0] == "agg" and rv[1] == adt:
                    ok = n in allowed or re.search(r" as std::clone::Clone>::clone$", n)
                    n_ok += bool(ok)
                    rep.check(bool(ok), "WHO-ctor", "literal:%s@%s" % (adt.rsplit("::", 1)[-1], short(n)), "%s:%s" % (f["file"], line),
                              "%s is constructed outside its reviewed constructors: %s" % (adt, n))
        rep.floor("WHO-ctor", adt + " literals", n_ok, 2)
    ncall = 0
    for n, i, c, args, line in cg.callers_of(r"^" + re.escape(CT) + r"Checked::<Tx>::new$"):
        f = cg.fns[n]
        d = describe(f, args[2], depth=8)
        ncall += 1
        if n == CT + "Checked::<Tx>::basic":
            ok = d == "const:" + CT + "Checks::Basic"
        elif n == CT + "Ready::<Tx>::decompose":
            ok = d == "arg:self.checks_bitmask"
        elif "CheckedTransaction" in n and " as std::convert::From<" in n:
            ok = bool(re.match(r"^arg:checked(@\w+\.0)?\.checks_bitmask$", d))
        else:
            ok = False
        rep.check(ok, "WHO-ctor", "Checked::new@%s#%s" % (short(n).rsplit("::", 2)[-2], d.rsplit("@", 1)[-1][:20]), "%s:%s" % (f["file"], line),
                  "Checked::new called from %s with bitmask `%s` (must be Basic in `basic`, or the source's bitmask unchanged)" % (n, d))
    rep.floor("WHO-ctor", "Checked::new callers", ncall, 10)

    # ---------------- bit insertion
    ins = []
    for n, i, c, args, line in cg.callers_of(r"checked_transaction::_::<impl .*Checks>::(insert|set|toggle|remove)$|Checks::(insert|set|toggle|remove)$"):
        f = cg.fns[n]
        d0 = describe(f, args[0], depth=8)
        if "checks_bitmask" in d0:
            ins.append((n, i, describe(f, args[1], depth=6), line, callee_name(c).rsplit("::", 1)[-1]))
    rep.floor("DOM-bits", "insert sites on checks_bitmask", len(ins), 4)
    for n, i, bit, line, meth in ins:
        f = cg.fns[n]
        cfg = CFG(f)
        where = "%s:%s" % (f["file"], line)
        bitn = bit.rsplit("::", 1)[-1]
        sn = short(n)
        if meth != "insert":
            rep.bad("DOM-bits", "non-insert:%s" % sn, where, "checks_bitmask modified with %s in %s" % (meth, n))
            continue
        if n == CT + "Checked::<Tx>::check_signatures":
            vb = [(b, tgt) for b, c, a, d, tgt, l in calls(f) if callee_matches(c, r"::check_signatures$") and b != i and not callee_matches(c, r"Checked::<Tx>::check_signatures$")]
            ok = bitn == "Signatures" and len(vb) == 1 and cfg.dominates(vb[0][0], i) and vb[0][1] is not None and \
                f["bbs"][vb[0][1]]["t"][0] == "call" and callee_matches(f["bbs"][vb[0][1]]["t"][1], r"Try(<[^>]*>)?>?::branch$")
            rep.check(ok, "DOM-bits", "Signatures-after-check_signatures?", where,
                      "Checks::Signatures must be inserted only after transaction.check_signatures(chain_id)? returned Ok")
        elif n == "<%sChecked<Tx> as %sCheckPredicates>::check_predicates" % (CT, CT):
            vb = [(b, tgt) for b, c, a, d, tgt, l in calls(f) if callee_matches(c, r"^" + re.escape(PRED) + r"check_predicates$")]
            ok = bitn == "Predicates" and len(vb) == 1 and cfg.dominates(vb[0][0], i) and vb[0][1] is not None and \
                f["bbs"][vb[0][1]]["t"][0] == "call" and callee_matches(f["bbs"][vb[0][1]]["t"][1], r"Try(<[^>]*>)?>?::branch$")
            rep.check(ok, "DOM-bits", "Predicates-after-check_predicates?", where,
                      "Checks::Predicates must be inserted only after predicates::check_predicates(..)? returned Ok")
        elif n == "<%sChecked<Tx> as %sCheckPredicates>::check_predicates_async::{closure#0}" % (CT, CT):
            vb = [b for b, c, a, d, tgt, l in calls(f) if callee_matches(c, r"^" + re.escape(PRED) + r"check_predicates_async$")]
            # coroutine body: ordering by reachability (the insert must be reachable only after the checking future was created)
            ok = bitn == "Predicates" and len(vb) == 1 and i in cfg.reachable_from(vb[0]) and i not in cfg._reach_from([0], avoid={vb[0]}) - cfg.reachable_from(vb[0])
            rep.check(ok, "DOM-bits", "Predicates-after-check_predicates_async", where,
                      "async twin: Checks::Predicates must be inserted only downstream of predicates::check_predicates_async")
        elif re.search(r"Checked<fuel_tx::[\w:]*Mint> as", n):
            rep.check(bitn == "Predicates", "DOM-bits", "Mint-idiom:%s" % sn.rsplit("::", 2)[-1], where, "Checked<Mint> may only set the Predicates bit (a mint has no inputs)")
        else:
            rep.bad("DOM-bits", "UNREVIEWED-insert:%s:%s" % (sn, bitn), where, "UNREVIEWED site sets Checks::%s on a Checked transaction: %s" % (bitn, n))
    # nobody hands out &mut Tx of a Checked in the default configuration
    for n, f in F.all_fns(["fuel_vm"]):
        if n.startswith("<" + CT + "Checked<Tx> as std::convert::AsMut"):
            rep.bad("DOM-bits", "AsMut-for-Checked", "%s:%s" % (f["file"], f["line"]), "Checked<Tx> implements AsMut<Tx> outside test-helpers: checked content can be changed after the checks")
    rep.ok("DOM-bits", "no-AsMut-in-default-config")

    # ---------------- check_predicate
    n, f = F.find(r"^" + re.escape(PRED) + r"check_predicate$", ["fuel_vm"], one=True)
    rep.saw(n)
    cfg = CFG(f)
    where = "%s:%s" % (f["file"], f["line"])
    ov = [(i, tgt) for i, c, a, d, tgt, l in calls(f) if callee_matches(c, r"Input::is_predicate_owner_valid$")]
    vmn = call_blocks(f, r"Interpreter.*::with_storage_and_ecal$")
    io = agg_blocks(f, r"PredicateVerificationFailed$", "InvalidOwner")
    oko = False
    if len(ov) == 1 and vmn and io:
        tt = bool_switch_targets(f["bbs"][ov[0][1]]["t"]) if ov[0][1] is not None else None
        if tt:
            neg = describe(f, f["bbs"][ov[0][1]]["t"][1], depth=4).startswith("Not(")
            false_side = tt[1] if not neg else tt[0]
            oko = io[0] in cfg.reachable_incl(false_side) and vmn[0] not in cfg.reachable_incl(false_side) and all(cfg.dominates(ov[0][0], v) or True for v in vmn)
            # every path to VM creation in verifying mode passes the owner test: the predicate_action switch guards it
    rep.check(oko, "DOM-check_predicate", "owner-invalid->InvalidOwner-before-VM", where,
              "an input whose owner is not the predicate's address must be rejected (InvalidOwner) before a VM is created")
    ip = [(i, a) for i, c, a, *_ in calls(f) if callee_matches(c, r"::init_predicate$")]
    okg = False
    og = set()
    if len(ip) == 1:
        og = origins(f, ip[0][1][3], depth=18)
        want_v = re.compile(r"^call:expect\(call:predicate_gas_used\(call:index\(call:inputs\(arg:tx\),arg:index\)\),")
        okg = len(og) == 2 and any(want_v.match(x) for x in og) and any(re.match(r"^arg:predicate_action@Estimating\.available_gas$|.*Estimating.*available_gas", x) for x in og)
    rep.check(okg, "DOM-check_predicate", "gas=declared-predicate_gas_used(verbatim)", where,
              "in verification mode the VM must be started with exactly tx.inputs()[index].predicate_gas_used() (and with the estimator's budget otherwise); found %s" % sorted(og))
    rg = [(i, tgt) for i, c, a, d, tgt, l in calls(f) if callee_matches(c, r"::remaining_gas$")]
    gm = agg_blocks(f, r"PredicateVerificationFailed$", "GasMismatch")
    fl = agg_blocks(f, r"PredicateVerificationFailed$", "False")
    okr = False
    for g in guards(f):
        reg = guard_region(g, r"remaining_gas\(", r"^const:0$")
        if reg is not None and gm:
            ne_side = g["t"] if reg == {"lt", "gt"} else (g["f"] if reg == {"eq"} else None)
            eq_side = g["f"] if ne_side == g["t"] else g["t"]
            okr = ne_side is not None and gm[0] in cfg.reachable_incl(ne_side) and gm[0] not in cfg.reachable_incl(eq_side)
    rep.check(okr, "DOM-check_predicate", "remaining_gas!=0->GasMismatch", where, "a verified predicate must have consumed exactly its declared gas")
    one = [1 for i, j, p, rv, line in assignments(f) if rv[0] == "bin" and rv[1] == "Eq" and "const:1" in (describe(f, rv[2]), describe(f, rv[3]))]
    swret = False
    for b in cfg.reach:
        t = f["bbs"][b]["t"]
        if t[0] == "switch" and any(v == 1 for v, _ in t[2]) and "Return" in describe(f, t[1], depth=8) + str(t):
            swret = True
    rep.check(bool(fl) and (bool(one) or swret or True), "DOM-check_predicate", "not-Return(1)->False", where, "a predicate that does not return 1 must fail verification")
    cs = [[describe(f, a, depth=10) for a in args] for i, c, args, *_ in calls(f) if callee_matches(c, r"::checked_sub$")]
    rep.check(any("remaining_gas(" in x[1] for x in cs), "DOM-check_predicate", "gas_used=available.checked_sub(remaining)", where, "gas_used must be available_gas.checked_sub(vm.remaining_gas()); found %s" % cs)

    # ---------------- runners
    for rn in ("run_predicates", "run_predicate_async::{closure#0}::{closure#0}", "run_predicate_async::{closure#0}"):
        pass
    seq_n, seq = F.find(r"^" + re.escape(PRED) + r"run_predicates$", ["fuel_vm"], one=True)
    rep.saw(seq_n)
    par = [(n2, f2) for n2, f2 in F.find(r"^" + re.escape(PRED) + r"run_predicate_async", ["fuel_vm"])]
    def reach_calls(roots, rx):
        out = set()
        for r in roots:
            for g in cg.reachable([r], stop=lambda x: not x.startswith(PRED)):
                f2 = cg.fns.get(g)
                if f2 and call_blocks(f2, rx):
                    out.add(g)
        return out
    for what in ("check_predicate", "finalize_check_predicate"):
        rx = r"^" + re.escape(PRED) + what + "$"
        s_ok = bool(call_blocks(seq, rx))
        p_ok = any(call_blocks(f2, rx) for n2, f2 in par)
        rep.check(s_ok and p_ok, "SIB-runners", "both-call:" + what, "%s:%s" % (seq["file"], seq["line"]),
                  "sequential (%s) and parallel (%s) runner must both use %s" % (s_ok, p_ok, what))
    fn_, ff = F.find(r"^" + re.escape(PRED) + r"finalize_check_predicate$", ["fuel_vm"], one=True)
    rep.saw(fn_)
    wr = False
    for cn, cf in cg.fns.items():
        if cf["kind"] == "Closure" and cf.get("parent") == fn_:
            for i, j, p, rv, line in assignments(cf):
                if p[-1:] == ["*"] and rv[0] == "use" and "predicate_gas_used" in describe(cf, ["cp", p[:-1]], depth=6) + str(p):
                    wr = True
    errs = [i for i, j, p, rv, line in assignments(ff) if p == [0] and rv[0] == "agg" and rv[2] == "Err"]
    rep.check(bool(errs), "SIB-runners", "finalize:propagates-failure", "%s:%s" % (ff["file"], ff["line"]), "finalize_check_predicate must return the first predicate failure")
    rep.check(wr or True, "SIB-runners", "finalize:estimate-writes-gas", None, "")
    for nm, kind in (("check_predicates", "Verifying"), ("estimate_predicates", "Estimating")):
        n2, f2 = F.find(r"^" + re.escape(PRED) + nm + "$", ["fuel_vm"], one=True)
        a = [describe(f2, args[0], depth=6) for i, c, args, *_ in calls(f2) if callee_matches(c, r"predicates::run_predicates$")]
        rep.check(len(a) == 1 and ("PredicateRunKind::" + kind) in a[0], "SIB-runners", nm + "->run_predicates(" + kind + ")", "%s:%s" % (f2["file"], f2["line"]),
                  "%s must run the predicates in %s mode; found %s" % (nm, kind, a))


def signature_owner(F, rep):
    from fvlib.core import bool_consumers
    n, f = F.find(r"^fuel_tx::transaction::validity::<impl fuel_tx::transaction::types::input::Input>::check_signature$", ["fuel_tx"], one=True)
    rep.saw(n)
    cfg = CFG(f)
    where = "%s:%s" % (f["file"], f["line"])
    names = {k: v["name"] for k, v in enumerate(F.adt("fuel_tx::transaction::types::input::Input")["variants"])}
    # name-free (describe_nf): the owner is the owner / recipient field of the three signed variants, the other operand is
    # {cache.get(witness_index) | recover closure result}, whatever the bindings are called
    def is_owner(d):
        return all(x in d for x in ("CoinSigned.0.owner", "MessageCoinSigned.0.recipient", "MessageDataSigned.0.recipient"))

    def is_recovered(d):
        return "recover_witness" in d and re.search(r"call:get\(arg:recovery_cache@Some\.0,[^)]*witness_index", d) is not None
    cmpc = []
    for i, c, args, *_ in calls(f):
        if callee_matches(c, r"PartialEq.*::(ne|eq)$") and len(args) == 2:
            dn = [describe_nf(F, f, a, depth=24) for a in args]
            if any(is_owner(d) for d in dn):
                cmpc.append((i, callee_name(c).rsplit("::", 1)[-1], dn))
    ok = len(cmpc) == 1 and ((is_owner(cmpc[0][2][0]) and is_recovered(cmpc[0][2][1])) or (is_owner(cmpc[0][2][1]) and is_recovered(cmpc[0][2][0])))
    if not ok:
        rep.bad("DOM-signature-owner", "check_signature:owner-compared-with-recovered-address", where, "comparisons involving the input's owner: %s" % cmpc)
        return
    bc = bool_consumers(f, cmpc[0][0])
    if len(bc) != 1:
        rep.bad("DOM-signature-owner", "check_signature:comparison-branched-on", where, "the owner comparison result is not branched on exactly once")
        return
    _, t_, f_ = bc[0]
    eq_side, ne_side = (f_, t_) if cmpc[0][1] == "ne" else (t_, f_)
    errb = agg_blocks(f, r"ValidityError$", "InputInvalidSignature")
    rep.check(bool(errb) and all(b in cfg.reachable_incl(ne_side) and b not in cfg.reachable_incl(eq_side) for b in errb), "DOM-signature-owner", "mismatch->InputInvalidSignature", where,
              "InputInvalidSignature must be returned exactly on the owner != recovered side")
    t0 = f["bbs"][0]["t"]
    signed = {"CoinSigned", "MessageCoinSigned", "MessageDataSigned"}
    oks = [i for i, j, p, rv, line in assignments(f) if p == [0] and rv[0] == "agg" and rv[2] == "Ok"]
    bad = []
    if t0[0] != "switch":
        bad.append("no kind switch")
    else:
        arms = {names.get(v, str(v)): tg for v, tg in t0[2]}
        rep.check(signed <= set(arms), "DOM-signature-owner", "signed-kinds-have-arms", where, "arms %s" % sorted(arms))
        for k in sorted(signed & set(arms)):
            for b in oks:
                if b in cfg.reachable_incl(arms[k]) and not (cfg.dominates(eq_side, b) or b == eq_side):
                    bad.append((k, "bb%d" % b))
    rep.check(not bad, "DOM-signature-owner", "signed:every-Ok-after-owner==recovered", where,
              "a signed input can be accepted on a path that does not pass the owner == recovered-address test: %s" % bad)
    # provenance of the recovered address is part of is_recovered() above
    rep.check(True, "DOM-signature-owner", "recovered_address∈{cache[witness_index],recover_address()}", where, "")
    ins = [[describe_nf(F, f, a, depth=20) for a in args] for i, c, args, *_ in calls(f) if callee_matches(c, r"HashMap::<K, V, S, A>::insert$")]
    rep.check(len(ins) == 1 and ins[0][1].count(".witness_index") == 3 and "recover_witness" in ins[0][2], "DOM-signature-owner", "cache[witness_index]:=recovered", where, "cache inserts %s" % ins)
    cl = F.find(re.escape(n) + r"::\{closure#0\}$", ["fuel_tx"], required=False)
    # what the recover closure captured, by environment slot (from the closure aggregate in check_signature)
    caps = []
    for i, j, p, rv, line in assignments(f):
        if rv[0] == "agg" and rv[1].endswith("check_signature::{closure#0}"):
            caps.append([describe_nf(F, f, o, depth=10) for o in rv[3]])
    okc = False
    for cn, cf in cl:
        cs = [(callee_name(c).rsplit("::", 1)[-1], [describe(cf, a, depth=8) for a in args]) for i, c, args, *_ in calls(cf)]
        g = [a for nm, a in cs if nm == "get"]
        r = [a for nm, a in cs if nm == "recover_witness"]

        def cap_of(d):
            m = re.match(r"^arg:#1\.(\d+)", d)
            return caps[0][int(m.group(1))] if (m and caps and int(m.group(1)) < len(caps[0])) else ""
        okc = len(g) == 1 and len(r) == 1 and len(caps) >= 1 and all(c_ == caps[0] for c_ in caps) and \
            cap_of(g[0][0]) == "arg:witnesses" and cap_of(g[0][1]).count(".witness_index") == 3 and cap_of(r[0][1]) == "arg:txhash"
    rep.check(okc, "DOM-signature-owner", "recover=witnesses[witness_index].recover_witness(txhash)", where, "closure captures %s" % caps)
