"""C22 Wide-integer instructions follow the specification — structural clauses (both 128- and 256-bit
instances of the wideint_ops! macro are analysed after expansion, with the same rules).

  TAB-cmp / TAB-op   one arm per CompareMode / MathOp with exactly its operator (EQ->==, ..., LZC->leading_zeros;
                     ADD->overflowing_add, ..., SHL->checked_shl).
  SHAPE-operands     every handler body reads the left operand from memory at b (big-endian), the right operand
                     from memory at c when `indirect` and from the register value otherwise, the third operand at d;
                     results are written big-endian through the ownership-checked write with
                     ownership_registers(); compares write the destination register obtained by try_into()? first.
  SHAPE-arith        div: lhs.checked_div(rhs); addmod: (lhs+rhs) in the wider type then checked_rem(modulus);
                     mulmod: lhs.full_mul(rhs).checked_rem(modulus); muldiv: full_mul, checked_div(divider)
                     defaulting to product >> bits; mul: overflowing_mul(lhs, rhs).
  POST-flags         $of and $err written on every Ok path, inc_pc exactly once; ArithmeticOverflow only behind
                     !is_wrapping, ArithmeticError only behind !is_unsafe_math (then $err = 1 and result zero).
  TAB-handlers       WDCM/WQCM/... call the helper of their width with (rA|$rA, $rB, $rC[, $rD]) and decode the
                     immediate with from_imm(..) else InvalidImmediateValue.
Not decided: the arithmetic itself; immediate bit layouts are decided under C08.
"""
import re

from fvlib.core import (CFG, CallGraph, agg_blocks, arm_regions, assignments, bool_switch_targets, call_blocks, calls,
                        callee_matches, callee_name, describe, enum_switches, ops_in_blocks, origins, short)
from fvlib.summ import ok_sites, path_minmax
from fvlib import vm

W = "fuel_vm::interpreter::alu::wideint::"
IMPL = "<impl fuel_vm::interpreter::Interpreter<M, S, Tx, Ecal, V>>::"
CMP = {"EQ": {"bin:Eq", "call:eq"}, "NE": {"bin:Ne", "call:ne"}, "LT": {"bin:Lt", "call:lt"}, "GT": {"bin:Gt", "call:gt"},
       "LTE": {"bin:Le", "call:le"}, "GTE": {"bin:Ge", "call:ge"}, "LZC": {"call:leading_zeros"}}
MOP = {"ADD": {"call:overflowing_add"}, "SUB": {"call:overflowing_sub"}, "NOT": {"un:Not", "call:not"}, "OR": {"bin:BitOr", "call:bitor"},
       "XOR": {"bin:BitXor", "call:bitxor"}, "AND": {"bin:BitAnd", "call:bitand"}, "SHL": {"call:checked_shl"}, "SHR": {"call:checked_shr"}}
NOISE = {"call:default", "call:try_into", "call:try_from", "call:unwrap_or_default", "call:into", "call:from"}
HANDLERS = {
    "WDCM": ("alu_wideint_cmp_u128", "CompareArgs", True), "WQCM": ("alu_wideint_cmp_u256", "CompareArgs", True),
    "WDOP": ("alu_wideint_op_u128", "MathArgs", False), "WQOP": ("alu_wideint_op_u256", "MathArgs", False),
    "WDML": ("alu_wideint_mul_u128", "MulArgs", False), "WQML": ("alu_wideint_mul_u256", "MulArgs", False),
    "WDDV": ("alu_wideint_div_u128", "DivArgs", False), "WQDV": ("alu_wideint_div_u256", "DivArgs", False),
    "WDMD": ("alu_wideint_muldiv_u128", None, False), "WQMD": ("alu_wideint_muldiv_u256", None, False),
    "WDAM": ("alu_wideint_addmod_u128", None, False), "WQAM": ("alu_wideint_addmod_u256", None, False),
    "WDMM": ("alu_wideint_mulmod_u128", None, False), "WQMM": ("alu_wideint_mulmod_u256", None, False),
}


def run(F, rep, tier, allfacts):
    cg = CallGraph(F, ["fuel_vm"])
    H = vm.handlers(F)
    rep.rule("TAB-cmp", "one arm per CompareMode with its operator")
    rep.rule("TAB-op", "one arm per MathOp with its operator")
    rep.rule("SHAPE-operands", "operand sources (b, c/indirect, d), big-endian read/write, ownership-checked write")
    rep.rule("SHAPE-arith", "operator and operand order of div / addmod / mulmod / muldiv / mul")
    rep.rule("POST-flags", "$of,$err written, inc_pc once, panics behind flag tests")
    rep.rule("TAB-handlers", "opcode -> helper / argument order / immediate decoding")
    VC = {v["discr"]: v["name"] for v in F.adt("fuel_asm::args::wideint::CompareMode")["variants"]}
    VM = {v["discr"]: v["name"] for v in F.adt("fuel_asm::args::wideint::MathOp")["variants"]}
    for ty in ("u128", "u256"):
        # ---- cmp / op tables
        for fnname, desc, V, table, rule in (("cmp_" + ty, r"disc\(arg:mode\)", VC, CMP, "TAB-cmp"), ("op_overflowing_" + ty, r"disc\(arg:args\.op\)", VM, MOP, "TAB-op")):
            n, f = F.find(r"^" + re.escape(W + fnname) + "$", ["fuel_vm"], one=True)
            rep.saw(n)
            cfg = CFG(f)
            sw = enum_switches(f, cfg, desc)
            if len(sw) != 1:
                rep.bad(rule, fnname + ":switch", "%s:%s" % (f["file"], f["line"]), "expected one switch over the mode/op")
                continue
            regs = arm_regions(f, cfg, sw[0][1], V)
            rep.check(set(regs) == set(V.values()), rule, fnname + ":exhaustive", "%s:%s" % (f["file"], f["line"]), "arms %s vs variants %s" % (sorted(regs), sorted(V.values())))
            for nm, bl in sorted(regs.items()):
                got = ops_in_blocks(f, bl) - NOISE
                want = table.get(nm, set())
                rep.check(bool(got) and got <= want, rule, "%s:%s" % (fnname, nm), "%s:%s" % (f["file"], f["line"]),
                          "%s::%s must be implemented with %s; its arm uses %s" % (fnname, nm, sorted(want), sorted(got)))
            # operand order for asymmetric operators: (lhs, rhs)
            for b in cfg.reach:
                for s in f["bbs"][b]["s"]:
                    if s[0] == "=" and s[2][0] == "bin" and s[2][1] in ("Lt", "Gt", "Le", "Ge"):
                        a, c = describe(f, s[2][2], depth=4), describe(f, s[2][3], depth=4)
                        rep.check((a, c) == ("arg:lhs", "arg:rhs"), rule, "%s:operand-order@%s" % (fnname, s[2][1]), "%s:%s" % (f["file"], s[3]), "comparison operands must be (lhs, rhs); found (%s,%s)" % (a, c))
                t = f["bbs"][b]["t"]
                if t[0] == "call" and callee_matches(t[1], r"::(lt|gt|le|ge|overflowing_sub|checked_shl|checked_shr|overflowing_add)$"):
                    a = [describe(f, x, depth=6) for x in t[2]]
                    rep.check(a[0] == "arg:lhs" and (len(a) < 2 or "rhs" in a[1]), rule, "%s:operand-order@%s" % (fnname, callee_name(t[1]).rsplit("::", 1)[-1]),
                              "%s:%s" % (f["file"], t[5]), "operands must be (lhs, rhs); found %s" % a)

        # ---- helper bodies
        for kind in ("cmp", "op", "mul", "div", "addmod", "mulmod", "muldiv"):
            full = W + IMPL + "alu_wideint_%s_%s" % (kind, ty)
            f = F.fn(full)
            if f is None:
                rep.anchor_missing(full)
                continue
            rep.saw(full)
            cfg = CFG(f)
            oks = ok_sites(f, cfg)
            where = "%s:%s" % (f["file"], f["line"])
            key = "%s_%s" % (kind, ty)
            reads = [(i, describe(f, args[1], depth=6)) for i, c, args, *_ in calls(f) if callee_matches(c, r"MemoryInstance::read_bytes$")]
            want_reads = {"cmp": ["arg:b", "arg:c"], "op": ["arg:b", "arg:c"], "mul": ["arg:b", "arg:c"], "div": ["arg:b", "arg:c"],
                          "addmod": ["arg:b", "arg:c", "arg:d"], "mulmod": ["arg:b", "arg:c", "arg:d"], "muldiv": ["arg:b", "arg:c", "arg:d"]}[kind]
            rep.check(sorted(r[1] for r in reads) == sorted(want_reads), "SHAPE-operands", key + ":memory-operands", where,
                      "operands must be read from memory at %s; found %s" % (want_reads, [r[1] for r in reads]))
            fb = [1 for i, c, args, *_ in calls(f) if callee_matches(c, r"::from_be_bytes$")]
            rep.check(len(fb) == len(want_reads), "SHAPE-operands", key + ":big-endian-reads", where, "every memory operand must be decoded with from_be_bytes (found %d of %d)" % (len(fb), len(want_reads)))
            # indirect flags
            flags = {"cmp": ["indirect_rhs"], "op": ["indirect_rhs"], "div": ["indirect_rhs"], "mul": ["indirect_lhs", "indirect_rhs"]}.get(kind, [])
            for fl in flags:
                sw = enum_switches(f, cfg, r"^arg:args\." + fl + "$")
                okf = False
                if len(sw) == 1:
                    tt = bool_switch_targets(sw[0][1])
                    addr = "arg:b" if fl == "indirect_lhs" else "arg:c"
                    rb = [i for i, d in reads if d == addr]
                    okf = bool(tt and rb) and rb[0] in cfg.reachable_incl(tt[0]) and rb[0] not in cfg.reachable_incl(tt[1])
                    # the direct side converts the register value
                    conv = [i for i, c, args, *_ in calls(f) if callee_matches(c, r"convert::(Into|From).*::(into|from)$") and describe(f, args[0], depth=4) == addr]
                    okf = okf and any(b in cfg.reachable_incl(tt[1]) and b not in cfg.reachable_incl(tt[0]) for b in conv)
                rep.check(okf, "SHAPE-operands", key + ":" + fl, where, "%s: memory operand only when the flag is set, register value otherwise" % fl)
            if kind == "cmp":
                ti = [(i, tgt) for i, c, a, d, tgt, l in calls(f) if callee_matches(c, r"TryInto.*::try_into$")]
                wr = [i for i, c, a, d, tgt, l in calls(f) if callee_name(c).endswith("deref_mut") and "RegMut<" in (c.get("self") or "") or callee_matches(c, r"internal::inc_pc$")]
                rep.check(len(ti) == 1 and all(cfg.dominates(ti[0][0], w) for w in wr) and all(cfg.dominates(ti[0][0], r[0]) for r in reads), "SHAPE-operands", key + ":dest-first", where,
                          "the destination register must be validated (try_into()?) before anything else")
                cc = [[describe(f, a, depth=24) for a in args] for i, c, args, *_ in calls(f) if callee_matches(c, r"wideint::cmp_%s$" % ty)]
                rep.check(len(cc) == 1 and "read_bytes(" in cc[0][0] and "arg:b" in cc[0][0] and cc[0][2] == "arg:args.mode", "SHAPE-operands", key + ":cmp(lhs@b, rhs, mode)", where, "found %s" % cc)
            else:
                wb = [(i, [describe(f, a, depth=10) for a in args]) for i, c, args, *_ in calls(f) if callee_matches(c, r"MemoryInstance::write_bytes$")]
                okw = len(wb) == 1 and wb[0][1][1] == "call:ownership_registers(arg:self)" and wb[0][1][2] == "arg:dest_addr" and "to_be_bytes(" in wb[0][1][3]
                rep.check(okw, "SHAPE-operands", key + ":result-write", where, "result must be written big-endian at dest_addr through the ownership-checked write_bytes(ownership_registers()); found %s" % wb)
            # POST
            wblocks = {2: set(), 8: set()}
            dm = {}
            for i, c, args, dest, tgt, line in calls(f):
                if callee_name(c).endswith("deref_mut") and dest:
                    m = re.search(r"RegMut<'_, (\d+)>", c.get("self") or "")
                    if m and int(m.group(1)) in wblocks:
                        dm[dest[0]] = int(m.group(1))
            errvals = []
            for i, j, p, rv, line in assignments(f):
                if p[0] in dm and p[1:] == ["*"]:
                    wblocks[dm[p[0]]].add(i)
                    if dm[p[0]] == 8 and rv[0] == "use":
                        errvals.append((i, describe(f, rv[1], depth=4)))
            inc = call_blocks(f, r"internal::inc_pc$")
            mm = path_minmax(cfg, {b: (1, 1) for b in inc}, set(oks))
            rep.check(all(wblocks[r] and cfg.must_pass(wblocks[r], 0, oks) for r in (2, 8)) and mm == (1, 1), "POST-flags", key + ":of+err,inc_pc-once", where,
                      "$of/$err must be written on every Ok path and inc_pc called exactly once; of@%s err@%s inc=%s" % (sorted(wblocks[2]), sorted(wblocks[8]), mm))
            for reason, guardfn, kinds in (("ArithmeticOverflow", r"interpreter::is_wrapping$", ("op", "mul", "muldiv")), ("ArithmeticError", r"interpreter::is_unsafe_math$", ("div", "addmod", "mulmod"))):
                eb = agg_blocks(f, r"PanicReason$", reason)
                if kind in kinds:
                    gb = [(i, tgt) for i, c, a, d, tgt, l in calls(f) if callee_matches(c, guardfn)]
                    okg = False
                    if len(gb) == 1 and eb and gb[0][1] is not None:
                        tt = bool_switch_targets(f["bbs"][gb[0][1]]["t"])
                        okg = bool(tt) and eb[0] in cfg.reachable_incl(tt[1]) and eb[0] not in cfg.reachable_incl(tt[0])
                        if okg and reason == "ArithmeticError":
                            ones = [b for b, d in errvals if d == "const:1"]
                            okg = bool(ones) and all(b in cfg.reachable_incl(tt[0]) and b not in cfg.reachable_incl(tt[1]) for b in ones)
                    rep.check(okg, "POST-flags", "%s:%s-behind-flag" % (key, reason), where, "%s must be raised only when the flag bit is clear (and $err = 1 only when it is set)" % reason)
                else:
                    rep.check(not eb, "POST-flags", "%s:no-%s" % (key, reason), where, "%s helper must not raise %s" % (kind, reason))
            # arithmetic shapes
            if kind == "div":
                cd = [[describe(f, a, depth=24) for a in args] for i, c, args, *_ in calls(f) if callee_matches(c, r"::checked_div$")]
                rep.check(len(cd) == 1 and "arg:b" in cd[0][0] and ("arg:c" in cd[0][1] or "var:rhs" in cd[0][1]) and "arg:b" not in cd[0][1], "SHAPE-arith", key + ":lhs.checked_div(rhs)", where, "found %s" % [[x[:70] for x in c] for c in cd])
            if kind == "mul":
                cm = [[describe(f, a, depth=10) for a in args] for i, c, args, *_ in calls(f) if callee_matches(c, r"::overflowing_mul$")]
                rep.check(len(cm) == 1, "SHAPE-arith", key + ":overflowing_mul", where, "found %s" % cm)
            if kind == "addmod":
                ca = [[describe(f, a, depth=24) for a in args] for i, c, args, *_ in calls(f) if callee_matches(c, r"::checked_add$")]
                cr = [[describe(f, a, depth=30) for a in args] for i, c, args, *_ in calls(f) if callee_matches(c, r"::checked_rem$")]
                wid = [1 for i, c, args, *_ in calls(f) if callee_matches(c, r"wideint::to_wider_prim_%s$" % ty)]
                rep.check(len(ca) == 1 and len(cr) == 1 and len(wid) == 3 and "arg:b" in ca[0][0] and "arg:c" in ca[0][1] and "checked_add(" in cr[0][0] and "arg:d" in cr[0][1], "SHAPE-arith",
                          key + ":(lhs+rhs)%modulus-in-wider-type", where, "found add=%s rem=%s widen=%d" % ([[x[:50] for x in c] for c in ca], [[x[:50] for x in c] for c in cr], len(wid)))
            if kind == "mulmod":
                fm = [[describe(f, a, depth=24) for a in args] for i, c, args, *_ in calls(f) if callee_matches(c, r"::full_mul$")]
                cr = [[describe(f, a, depth=30) for a in args] for i, c, args, *_ in calls(f) if callee_matches(c, r"::checked_rem$")]
                rep.check(len(fm) == 1 and len(cr) == 1 and "arg:b" in fm[0][0] and "arg:c" in fm[0][1] and "full_mul(" in cr[0][0] and "arg:d" in cr[0][1], "SHAPE-arith",
                          key + ":full_mul(lhs,rhs)%modulus", where, "found mul=%s rem=%s" % ([[x[:50] for x in c] for c in fm], [[x[:50] for x in c] for c in cr]))
            if kind == "muldiv":
                fm = [[describe(f, a, depth=24) for a in args] for i, c, args, *_ in calls(f) if callee_matches(c, r"::full_mul$")]
                cd = [[describe(f, a, depth=30) for a in args] for i, c, args, *_ in calls(f) if callee_matches(c, r"::checked_div$")]
                uo = [[describe(f, a, depth=12) for a in args] for i, c, args, *_ in calls(f) if callee_matches(c, r"Option.*::unwrap_or$")]
                rep.check(len(fm) == 1 and len(cd) == 1 and len(uo) == 1 and "full_mul(" in cd[0][0] and "arg:d" in cd[0][1] and ("shr(" in uo[0][1] or "Shr" in uo[0][1]), "SHAPE-arith",
                          key + ":full_mul/divider-or-shift", where, "found mul=%s div=%s default=%s" % ([[x[:40] for x in c] for c in fm], [[x[:40] for x in c] for c in cd], [[x[:60] for x in c] for c in uo]))

    # ---------------- handlers
    for op, (helper, argty, is_cmp) in sorted(HANDLERS.items()):
        if op not in H:
            rep.anchor_missing("handler " + op)
            continue
        n, f = H[op]
        rep.saw(n)
        cs = [[describe(f, a, depth=16) for a in args] for i, c, args, *_ in calls(f) if callee_name(c).endswith("::" + helper)]
        others = [callee_name(c).rsplit("::", 1)[-1] for i, c, args, *_ in calls(f) if re.search(r"::alu_wideint_\w+$", callee_name(c)) and not callee_name(c).endswith("::" + helper)]
        ok = len(cs) == 1 and not others
        if ok:
            a = cs[0]
            first = "call:unpack(arg:self).0" if is_cmp else "call:index(arg:interpreter.registers,call:unpack(arg:self).0)"
            ok = a[1] == first and a[2] == "call:index(arg:interpreter.registers,call:unpack(arg:self).1)" and a[3] == "call:index(arg:interpreter.registers,call:unpack(arg:self).2)"
            if argty:
                # the decoded immediate is passed on, and a failed decode raises InvalidImmediateValue (ok_or(..)? or let-else)
                ok = ok and "from_imm(call:unpack(arg:self).3)" in a[4] and ("InvalidImmediateValue" in a[4] or bool(agg_blocks(f, r"PanicReason$", "InvalidImmediateValue")))
                fi = [callee_name(c) for i, c, args, *_ in calls(f) if callee_matches(c, r"::from_imm$")]
                ok = ok and len(fi) == 1 and ("wideint::" + argty + "::from_imm") in fi[0]
            else:
                ok = ok and a[4] == "call:index(arg:interpreter.registers,call:unpack(arg:self).3)"
        rep.check(ok, "TAB-handlers", "handler:" + op, "%s:%s" % (f["file"], f["line"]), "%s must call %s with its operands in order%s; found %s (other helpers: %s)"
                  % (op, helper, (" and decode %s::from_imm" % argty) if argty else "", cs, others))
