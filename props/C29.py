"""C29 No input makes the VM crash, report an internal bug or run forever — termination and classification clauses.

Termination "every executed instruction consumes gas under the default schedule, so execution ends" is decided as the
conjunction of:
  LOOP-execute        every cycle of the script loop (run_program) and of the predicate loop (verify_predicate)
                      passes through a call of Interpreter::execute; ExecuteState::Proceed (and Return* inside a
                      call frame) are the only results that continue the script loop.
  EXEC-path           execute = fetch_instruction()? then instruction_per_inner; the only Ok return that bypasses
                      instruction_inner is the debugger branch taken when `!debug.should_continue()`, and
                      should_continue() is true exactly for DebugEval::Continue, which is the only DebugEval
                      converted to ExecuteState::Proceed; instruction_inner reaches execute_instruction on its
                      only Ok path.
  (C26) ALWAYS-charge / TAB-accessor / DOM-gas_charge   every handler passes through gas_charge with the schedule
                      entry of its opcode on every non-error path, and gas_charge subtracts that amount from
                      $cgas/$ggas or fails with OutOfGas — re-run here, reported under their C26 rule names.
  TAB-default-positive  for the GasCostsValues version built by Default (default_gas_costs), every accessor
                      used by a handler returns that version's field of its own name on that version's arm, and
                      the default value of every field (and the base of every DependentCost) is >= 1.
Classification:
  CLASS-errors        InterpreterError::from_runtime maps Recoverable(reason) to PanicInstruction(reason, instr)
                      and nothing else to it; From<RuntimeError> keeps Bug as Bug and Storage as Storage;
                      instruction_result() is Some exactly for PanicInstruction; run_program turns an error with
                      instruction_result() into a panic receipt + Revert state and returns other errors.
  RESERVED-slots      ReceiptsCtx::push accepts only ScriptResult at len == MAX-1 and only ScriptResult|Panic at
                      len == MAX-2: the precondition of `append_panic_receipt(..).expect("cannot fail")` — the one
                      deliberate host-panic site on the program-error path — for every program.
  TAB-bug-sites       the construction sites of Bug (internal-bug errors) are the reviewed table
                      tables/C29_bug_sites.json: (function, variant, canonical controlling condition / failing
                      source — fvlib.core.site_guard, compared with guards_match as in C19 TAB-rule-guards, so
                      `checked_sub(..).ok_or_else(..)?` and the equivalent `match` are the same row). A new site, or a
                      site whose condition changed, is reported (fail closed: each listed site was read and is
                      unreachable for checked transactions; the table records why).
Not decided: host-panic freedom of the whole interpreter (792 panic-capable MIR operations are reachable from
execute(); discharging each needs value reasoning), termination under non-default schedules with zero costs.
"""
import json
import os
import re

from fvlib.core import (CFG, CallGraph, arm_regions, assignments, bool_consumers, call_blocks, calls, callee_matches,
                        callee_name, converts_to, describe, leaves, parent_fn, root_of, short, site_guard, switch_arms)
from fvlib import tables, vm

TABLE = os.path.join(os.path.dirname(os.path.dirname(os.path.abspath(__file__))), "tables", "C29_bug_sites.json")
IMPL = r"^fuel_vm::interpreter::executors::instruction::<impl fuel_vm::interpreter::Interpreter<M, S, Tx, Ecal, V>>::"


class Forward:
    """Report adaptor: forwards the named rules of another property's module into this report."""

    def __init__(self, rep, keep):
        self.rep, self.keep = rep, keep

    def rule(self, name, desc):
        if name in self.keep:
            self.rep.rule(name, "(C26) " + desc)

    def ok(self, rule, key, detail=None):
        if rule in self.keep:
            self.rep.ok(rule, key, detail)

    def bad(self, rule, key, where=None, detail=None):
        if rule in self.keep:
            self.rep.bad(rule, key, where, detail)

    def check(self, cond, rule, key, where=None, detail=None):
        if rule in self.keep:
            self.rep.check(cond, rule, key, where, detail)
        return cond

    def floor(self, rule, what, count, minimum):
        if rule in self.keep or rule == "handlers":
            self.rep.floor(rule, what, count, minimum)

    def note(self, text):
        pass

    def sample(self, s):
        pass

    def saw(self, n):
        self.rep.saw(n)

    def anchor_missing(self, text):
        self.rep.anchor_missing(text)


def cycles_avoiding(f, cfg, avoid):
    """blocks that lie on a cycle of the non-cleanup CFG after removing `avoid` blocks"""
    out = set()
    for b in cfg.reach:
        if b in avoid or f["bbs"][b].get("cu"):
            continue
        if b in cfg._reach_from(cfg.succ[b], avoid=set(avoid)):
            out.add(b)
    return out


def bug_sites(F, cg):
    """[(fn, variant, descriptor, where)] for every `BugVariant::X` aggregate in fuel_vm (non-test)."""
    out = []
    for n, f in F.all_fns(["fuel_vm"]):
        if "::tests::" in n or "::test::" in n or n.startswith("<fuel_vm::error::") or n.startswith("fuel_vm::error::"):
            continue
        cfg = None
        for i, j, p, rv, line in assignments(f):
            if rv[0] == "agg" and rv[1].endswith("::BugVariant"):
                cfg = cfg or CFG(f)
                for g in site_guard(F, n, f, cfg, i, value_local=p[0] if len(p) == 1 else None, value_rx="BugVariant"):
                    out.append((parent_fn(n), rv[2], g, "%s:%s" % (f["file"], line)))
    return out


def run(F, rep, tier, allfacts):
    cg = CallGraph(F, ["fuel_vm"])
    rep.rule("LOOP-execute", "every cycle of the run loops passes through Interpreter::execute; only Proceed / in-call returns continue")
    rep.rule("EXEC-path", "execute -> fetch -> instruction_per_inner -> instruction_inner -> execute_instruction; debugger bypass never yields Proceed")
    rep.rule("TAB-default-positive", "default schedule: accessor -> same-named field of the default version; every default cost >= 1")
    rep.rule("CLASS-errors", "Recoverable -> PanicInstruction only; Bug stays Bug; run_program: instruction_result ? panic receipt : propagate")
    rep.rule("TAB-bug-sites", "Bug construction sites = reviewed table (function, variant, guard)")
    rep.rule("RESERVED-slots", "the last two receipt slots accept only ScriptResult / Panic+ScriptResult, so append_panic_receipt's expect() is unreachable")

    # ---------------- loops
    EXEC = IMPL + r"execute$"
    for rx, nm in ((r"^fuel_vm::interpreter::executors::main::<impl fuel_vm::interpreter::Interpreter<M, S, Tx, Ecal, V>>::run_program$", "run_program"),
                   (r"^fuel_vm::interpreter::executors::predicate::<impl fuel_vm::interpreter::Interpreter<.*>>::verify_predicate$", "verify_predicate")):
        n, f = F.find(rx, ["fuel_vm"], one=True)
        rep.saw(n)
        cfg = CFG(f)
        ex = call_blocks(f, EXEC)
        allcyc = cycles_avoiding(f, cfg, set())
        bad = cycles_avoiding(f, cfg, set(ex))
        rep.check(len(ex) == 1 and bool(allcyc) and not bad, "LOOP-execute", "%s:every-cycle-through-execute" % nm, "%s:%s" % (f["file"], f["line"]),
                  "every loop of %s must call execute() on each iteration; execute calls %d, cyclic blocks avoiding it: %s" % (nm, len(ex), sorted(bad)[:8]))
        # which ExecuteState variants lead back to the loop head
        if ex:
            eb = ex[0]
            tgt = f["bbs"][eb]["t"][4]
            back = {}
            adt = F.adt("fuel_vm::state::ExecuteState")
            names = {k: v["name"] for k, v in enumerate(adt["variants"])}
            dest = f["bbs"][eb]["t"][3]
            for b in sorted(cfg.reachable_incl(tgt)):
                t = f["bbs"][b]["t"]
                r = root_of(f, t[1][1][0]) if t[0] == "switch" and t[1][0] != "k" else None
                if isinstance(r, tuple) and r[0] == "rvalue" and r[1][0] == "disc" and len(r[1]) > 2 and str(r[1][2]).endswith("::ExecuteState"):
                    for v, tg in t[2]:
                        back[names.get(v, str(v))] = eb in cfg.reachable_incl(tg)
                    missing = [x for x in names.values() if x not in back]
                    if len(missing) == 1:
                        back[missing[0]] = eb in cfg.reachable_incl(t[3])
                    break
            cont = sorted(v for v, l in back.items() if l)
            want = ["Proceed", "Return", "ReturnData"] if nm == "run_program" else ["Proceed"]
            rep.check(bool(back) and cont == want, "LOOP-execute", "%s:continuing-states" % nm, "%s:%s" % (f["file"], f["line"]),
                      "only %s may continue the loop; found %s (all arms: %s)" % (want, cont, back))

    # ---------------- execute path
    n, f = F.find(EXEC, ["fuel_vm"], one=True)
    rep.saw(n)
    cfg = CFG(f)
    fi = call_blocks(f, IMPL + "fetch_instruction$")
    ipi = [(i, dest) for i, c, args, dest, *_ in calls(f) if callee_matches(c, IMPL + "instruction_per_inner$")]
    rep.check(len(fi) == 1 and len(ipi) == 1 and cfg.dominates(fi[0], ipi[0][0]) and ipi[0][1] == [0], "EXEC-path", "execute=fetch?;instruction_per_inner", "%s:%s" % (f["file"], f["line"]),
              "execute must return instruction_per_inner(fetch_instruction()?)")
    n, f = F.find(IMPL + "instruction_per_inner$", ["fuel_vm"], one=True)
    rep.saw(n)
    cfg = CFG(f)
    where = "%s:%s" % (f["file"], f["line"])
    inner = call_blocks(f, IMPL + "instruction_inner$")
    dc = vm.debugger_bypass_cases(F, f)
    okflow = len(inner) == 1 and dc is not None and dc["inactive"][0] and dc["continue"][0] and not dc["stop"][0]
    rep.check(okflow, "EXEC-path", "instruction_per_inner:bypass-only-when-!should_continue", where,
              "the only return that skips instruction_inner must be the debugger branch with should_continue() == false")
    n, f = F.find(r"^fuel_vm::state::debug::DebugEval::should_continue$", ["fuel_vm"], one=True)
    rep.saw(n)
    d = [describe(f, rv[1] if rv[0] == "use" else ["k", {}], depth=6) if rv[0] == "use" else rv for i, j, p, rv, line in assignments(f) if p == [0]]
    adt = F.adt("fuel_vm::state::debug::DebugEval")
    dn = {k: v["name"] for k, v in enumerate(adt["variants"])}
    cfg = CFG(f)
    oksc = False
    for b in cfg.reach:
        t = f["bbs"][b]["t"]
        if t[0] == "switch" and "disc(" in describe(f, t[1]):
            arms = arm_regions(f, cfg, t, dn)
            tv = {}
            for var, blocks in arms.items():
                vals = set()
                for bb in blocks:
                    for s in f["bbs"][bb]["s"]:
                        if s[0] == "=" and s[1] == [0] and s[2][0] == "use" and s[2][1][0] == "k":
                            vals.add(s[2][1][1].get("v"))
                tv[var] = vals
            oksc = tv.get("Continue") in ({1}, {True}) and all(v in ({0}, {False}) for k, v in tv.items() if k != "Continue") and set(tv) == set(dn.values())
    rep.check(oksc, "EXEC-path", "should_continue<=>Continue", "%s:%s" % (f["file"], f["line"]), "should_continue() must be true exactly for DebugEval::Continue")
    n, f = F.find(r"^<fuel_vm::state::ExecuteState as std::convert::From<fuel_vm::state::debug::DebugEval>>::from$", ["fuel_vm"], one=True)
    rep.saw(n)
    made = {rv[2] for i, j, p, rv, line in assignments(f) if rv[0] == "agg" and rv[1].endswith("::ExecuteState")}
    okfrom = made == {"DebugEvent"}
    rep.check(okfrom, "EXEC-path", "From<DebugEval>:only-DebugEvent", "%s:%s" % (f["file"], f["line"]), "a DebugEval must convert to ExecuteState::DebugEvent only (never Proceed); constructs %s" % sorted(made))
    n, f = F.find(IMPL + "instruction_inner$", ["fuel_vm"], one=True)
    rep.saw(n)
    cfg = CFG(f)
    ei = [(i, dest) for i, c, args, dest, *_ in calls(f) if callee_matches(c, r"^fuel_vm::interpreter::executors::instruction::execute_instruction$")]
    oks = [i for i, j, p, rv, line in assignments(f) if p == [0] and rv[0] == "agg" and rv[2] == "Ok"]
    rep.check(len(ei) == 1 and ei[0][1] == [0] and not oks, "EXEC-path", "instruction_inner:Ok-only-from-execute_instruction", "%s:%s" % (f["file"], f["line"]),
              "instruction_inner's only non-error result must be the result of execute_instruction")

    # ---------------- default schedule
    n, f = F.find(r"^fuel_tx::transaction::consensus_parameters::gas::default_gas_costs::default_gas_costs$", ["fuel_tx"], one=True)
    rep.saw(n)
    where = "%s:%s" % (f["file"], f["line"])
    aggs = [rv for i, j, p, rv, line in assignments(f) if rv[0] == "agg" and re.search(r"::GasCostsValuesV\d+$", rv[1])]
    dn_, df = F.find(r"^<fuel_tx::transaction::consensus_parameters::gas::GasCostsValues as std::default::Default>::default$", ["fuel_tx"], one=True)
    dcs = [callee_name(c) for i, c, args, dest, *_ in calls(df) if dest == [0]]
    rep.check(dcs == [n], "TAB-default-positive", "Default=default_gas_costs()", "%s:%s" % (df["file"], df["line"]), "GasCostsValues::default must return default_gas_costs(); returns %s" % dcs)
    version = None
    defaults = {}
    if len(aggs) == 1:
        rv = aggs[0]
        version = rv[1].rsplit("::", 1)[-1].replace("GasCostsValues", "")
        for name, o in zip(rv[4], rv[3]):
            d = describe(f, o, depth=8)
            m = re.match(r"^const:(\d+)$", d)
            if m:
                defaults[name] = ("word", int(m.group(1)))
            else:
                m = re.match(r"^agg:DependentCost::(\w+)\(const:(\d+),const:(\d+)\)$", d)
                defaults[name] = ("dep", int(m.group(2)), m.group(1), int(m.group(3))) if m else ("?", d)
    rep.check(version is not None and len(defaults) >= 110, "TAB-default-positive", "default-table-extracted", where, "default_gas_costs must build one GasCostsValuesV<n> literal; found %d literals, %d fields" % (len(aggs), len(defaults)))
    zero = sorted(k for k, v in defaults.items() if v[0] == "?" or v[1] < 1)
    rep.check(not zero, "TAB-default-positive", "all-default-costs>=1", where, "default gas costs that are zero/non-constant (an instruction charging only this would be free): %s" % [(k, defaults[k]) for k in zero])
    H = vm.handlers(F)
    used = set()
    for op, (hn, hf) in H.items():
        for fn in [hn] + [t for t in cg.reachable([hn], stop=lambda x: not x.lstrip("<").startswith("fuel_vm::interpreter")) if t in cg.fns]:
            for bb, acc, line in vm.gas_accessors_called(cg.fns[fn]):
                used.add(acc)
    rep.floor("TAB-default-positive", "gas accessors used by handlers", len(used), 100)
    variants = {k: v["name"] for k, v in enumerate(F.adt("fuel_tx::transaction::consensus_parameters::gas::GasCostsValues")["variants"])}
    nacc = 0
    for acc in sorted(used):
        an, af = F.find(r"^fuel_tx::transaction::consensus_parameters::gas::GasCostsValues::%s$" % re.escape(acc), ["fuel_tx"], one=True)
        cfg = CFG(af)
        okacc = False
        got = None
        for b in sorted(cfg.reach):
            t = af["bbs"][b]["t"]
            if t[0] == "switch" and "disc(" in describe(af, t[1]):
                arms = arm_regions(af, cfg, t, variants)
                blocks = arms.get(version, set())
                got = set()
                for bb in blocks:
                    for s in af["bbs"][bb]["s"]:
                        if s[0] == "=" and s[1] == [0]:
                            rv_ = s[2]
                            if rv_[0] == "use":
                                got.add(describe(af, rv_[1], depth=6))
                            elif rv_[0] == "agg" and rv_[2] == "Ok" and len(rv_[3]) == 1:
                                got.add(describe(af, rv_[3][0], depth=6))
                            else:
                                got.add(rv_[0] + ":" + str(rv_[2] if len(rv_) > 2 else ""))
                fld = acc[:-1] if acc.endswith("_") and acc[:-1] in defaults else acc
                okacc = len(got) == 1 and re.search(r"@%s\.0\.%s$" % (version, re.escape(fld)), list(got)[0]) is not None
                break
        nacc += okacc
        if not okacc:
            rep.bad("TAB-default-positive", "accessor:%s->%s.%s" % (acc, version, acc), "%s:%s" % (af["file"], af["line"]),
                    "GasCostsValues::%s must return the %s field `%s`; found %s" % (acc, version, acc, got))
        elif fld not in defaults:
            rep.bad("TAB-default-positive", "default-missing:%s" % acc, where, "no default value found for %s" % acc)
    if nacc == len(used):
        rep.ok("TAB-default-positive", "accessors(%d)->same-named %s field" % (nacc, version))

    # ---------------- C26 rules re-run
    from props import C26
    C26.run(F, Forward(rep, {"ALWAYS-charge", "TAB-accessor", "DOM-gas_charge"}), tier, allfacts)

    # ---------------- classification
    n, f = F.find(r"^fuel_vm::error::InterpreterError::<StorageError>::from_runtime$", ["fuel_vm"], one=True)
    rep.saw(n)
    cfg = CFG(f)
    where = "%s:%s" % (f["file"], f["line"])
    rvars = {k: v["name"] for k, v in enumerate(F.adt("fuel_vm::error::RuntimeError")["variants"])}
    okc = False
    for b in sorted(cfg.reach):
        t = f["bbs"][b]["t"]
        if t[0] == "switch" and "disc(arg:error)" in describe(f, t[1]):
            arms = switch_arms(f, cfg, t, rvars)
            mk = {}
            for var, blocks in arms.items():
                a = {s[2][2] for bb in blocks for s in f["bbs"][bb]["s"] if s[0] == "=" and s[2][0] == "agg" and s[2][1].endswith("::InterpreterError")}
                c_ = {callee_name(f["bbs"][bb]["t"][1]) for bb in blocks if f["bbs"][bb]["t"][0] == "call" and "def" in f["bbs"][bb]["t"][1]
                      and (converts_to(f["bbs"][bb]["t"][1], r"InterpreterError") or ("From<" in callee_name(f["bbs"][bb]["t"][1]) and "InterpreterError" in callee_name(f["bbs"][bb]["t"][1])))}
                mk[var] = (a, c_)
            okc = mk.get("Recoverable", (set(), set()))[0] == {"PanicInstruction"} and len(mk) >= 2 and all("PanicInstruction" not in v[0] and v[1] for k, v in mk.items() if k != "Recoverable")
            rep.sample({"from_runtime": {k: [sorted(v[0]), sorted(v[1])] for k, v in mk.items()}})
    rep.check(okc, "CLASS-errors", "from_runtime:Recoverable->PanicInstruction;rest->From", where, "from_runtime must wrap only Recoverable reasons into PanicInstruction and convert the rest with From<RuntimeError>")
    n, f = F.find(r"^<fuel_vm::error::InterpreterError<StorageError> as std::convert::From<fuel_vm::error::RuntimeError<StorageError>>>::from$", ["fuel_vm"], one=True)
    rep.saw(n)
    cfg = CFG(f)
    okf = False
    for b in sorted(cfg.reach):
        t = f["bbs"][b]["t"]
        if t[0] == "switch" and "disc(" in describe(f, t[1]):
            arms = arm_regions(f, cfg, t, rvars)
            mk = {var: {s[2][2] for bb in blocks for s in f["bbs"][bb]["s"] if s[0] == "=" and s[2][0] == "agg" and s[2][1].endswith("::InterpreterError")} for var, blocks in arms.items()}
            okf = mk.get("Bug") == {"Bug"} and mk.get("Storage") == {"Storage"} and mk.get("Recoverable") == {"Panic"}
            rep.sample({"From<RuntimeError>": {k: sorted(v) for k, v in mk.items()}})
    rep.check(okf, "CLASS-errors", "From<RuntimeError>:Bug->Bug,Storage->Storage,Recoverable->Panic", "%s:%s" % (f["file"], f["line"]), "variant mapping changed")
    n, f = F.find(r"^fuel_vm::error::InterpreterError::<StorageError>::instruction_result$", ["fuel_vm"], one=True)
    rep.saw(n)
    cfg = CFG(f)
    ivars = {k: v["name"] for k, v in enumerate(F.adt("fuel_vm::error::InterpreterError")["variants"])}
    oki = False
    for b in sorted(cfg.reach):
        t = f["bbs"][b]["t"]
        if t[0] == "switch" and "disc(" in describe(f, t[1]):
            arms = arm_regions(f, cfg, t, ivars)
            somes = {var for var, blocks in arms.items() for bb in blocks for s in f["bbs"][bb]["s"] if s[0] == "=" and s[2][0] == "agg" and s[2][2] == "Some"}
            oki = somes == {"PanicInstruction"}
    rep.check(oki, "CLASS-errors", "instruction_result:Some<=>PanicInstruction", "%s:%s" % (f["file"], f["line"]), "instruction_result must be Some exactly for PanicInstruction")
    n, f = F.find(r"::run_program$", ["fuel_vm"], one=True)
    cfg = CFG(f)
    ir = call_blocks(f, r"InterpreterError::<StorageError>::instruction_result$")
    okr = False
    if len(ir) == 1:
        tgt = f["bbs"][ir[0]]["t"][4]
        for b in [tgt] + sorted(cfg.reachable_from(tgt)):
            t = f["bbs"][b]["t"]
            if t[0] == "switch" and "instruction_result" in describe(f, t[1], depth=6):
                arms = arm_regions(f, cfg, t, {0: "None", 1: "Some"})
                apr = call_blocks(f, r"::append_panic_receipt$")
                some_b, none_b = arms.get("Some", set()), arms.get("None", set())
                errret = [i for i, j, p, rv, line in assignments(f) if p == [0] and rv[0] == "agg" and rv[2] == "Err" and i in none_b]
                okr = len(apr) == 1 and apr[0] in some_b and bool(errret) and not any(i in some_b for i in errret)
                break
    rep.check(okr, "CLASS-errors", "run_program:panic->receipt;other->Err", "%s:%s" % (f["file"], f["line"]),
              "run_program must append a panic receipt when the error has an instruction_result and return the error otherwise")

    # ---------------- the one deliberate expect() on the panic path
    from props import C28
    C28.reserved_slot_variants(F, rep, "RESERVED-slots")
    n, f = F.find(r"::append_panic_receipt$", ["fuel_vm"], one=True)
    rep.saw(n)
    ex = [callee_name(c) for i, c, *_ in calls(f) if callee_matches(c, r"::(unwrap|expect)$")]
    pu = [callee_name(c) for i, c, *_ in calls(f) if callee_matches(c, r"ReceiptsCtx::push$")]
    rep.check(len(pu) == 1 and len(ex) <= 1, "RESERVED-slots", "append_panic_receipt:single-push", "%s:%s" % (f["file"], f["line"]),
              "append_panic_receipt must push exactly one (Panic) receipt; pushes %s, unwrap/expect %s" % (pu, ex))
    mk = {rv[2] for n2, f2 in F.find(r"^fuel_tx::receipt::Receipt::panic$", ["fuel_tx"]) for i, j, p, rv, line in assignments(f2) if rv[0] == "agg" and rv[1].endswith("::Receipt")}
    rep.check(mk == {"Panic"}, "RESERVED-slots", "Receipt::panic-builds-Panic", None, "Receipt::panic builds %s" % sorted(mk))

    # ---------------- bug sites
    sites = bug_sites(F, cg)
    cur = {}
    for fn, var, desc, where in sites:
        cur.setdefault("%s @ %s" % (var, short(fn)), []).append((desc, where))
    if os.environ.get("FV_WRITE_TABLES") == "1":
        json.dump({k: {"guards": [d for d, _ in v], "why_unreachable": ""} for k, v in sorted(cur.items())}, open(TABLE + ".new", "w"), indent=1, sort_keys=True)
    table = json.load(open(TABLE))
    rep.floor("TAB-bug-sites", "Bug construction sites", len(sites), 9)
    tables.compare(rep, "TAB-bug-sites", table, cur, missing_is_violation=False, new_is_violation=True, what="internal-bug construction site", reason_key="why_unreachable")
    for key in table:
        if key not in cur:
            rep.note("TAB-bug-sites: reviewed site %s no longer exists" % key)
