"""C25 Control flow lands exactly where the specification says — structural clauses.

  COUNT-inc_pc     every handler outside the jump / CALL / RVRT family passes through inc_pc exactly once on
                   every non-error path (interprocedural min/max path count; RET/RETD included via
                   return_from_context); CALL and RVRT never call it; jump handlers call JumpArgs::jump
                   exactly once and nothing else that moves $pc.
  SHAPE-jump       JumpArgs::jump: untaken condition -> inc_pc and return; each JumpMode arm computes the
                   specified target formula; `target >= VM_MAX_RAM -> MemoryOverflow` (error region {eq,gt})
                   dominates the single write of $pc, which stores exactly the computed target.
  TAB-jump-ops     per jump opcode: JumpMode, condition (none / a != b / a != 0), dynamic operand, fixed
                   offset — table from the instruction-set specification; JAL stores $pc+4 through the
                   reserved-register-checked writer before jumping.
  DOM-fetch        fetch_instruction: the memory read of 4 bytes at $pc and both executable-region tests
                   ($pc < $is -> error, $pc >= $ssp -> error) dominate the Ok exit.
  WHO-pc           writers of $pc = inc_pc, JumpArgs::jump, prepare_call, return_from_context (register
                   restore), init_script / init_predicate, plus the reviewed whole-register-file writers.
Not decided: the arithmetic value of targets beyond the formula shape.
"""
import re

from fvlib.core import (CFG, CallGraph, agg_blocks, assignments, call_blocks, calls, callee_matches, callee_name,
                        describe, guards, guard_region, inline_mode, match_commuted, origins, short, defs_of_local, dbg_name)
from fvlib.summ import Summaries, INF, ok_sites
from fvlib import vm

INC = r"^fuel_vm::interpreter::internal::inc_pc$"
JUMP = r"^fuel_vm::interpreter::flow::JumpArgs::jump$"
JUMP_OPS = {
    # op: (mode, condition kind, fixed?)
    "JI": ("RelativeIS", None, False), "JNEI": ("RelativeIS", "ne-reg", False), "JNZI": ("RelativeIS", "ne-zero", False),
    "JMP": ("RelativeIS", None, False), "JNE": ("RelativeIS", "ne-reg", False),
    "JMPF": ("RelativeForwards", None, True), "JMPB": ("RelativeBackwards", None, True),
    "JNZF": ("RelativeForwards", "ne-zero", True), "JNZB": ("RelativeBackwards", "ne-zero", True),
    "JNEF": ("RelativeForwards", "ne-reg", True), "JNEB": ("RelativeBackwards", "ne-reg", True),
    "JAL": ("Assign", None, True),
}
NO_INC = {"CALL", "RVRT"}
SIZE = r"const:fuel_asm::Instruction::SIZE"
DYN_FIX = r"call:saturating_add\(arg:self\.dynamic,arg:self\.fixed\)"
FORMULA = {
    "Assign": r"^call:saturating_add\(arg:self\.dynamic,call:saturating_mul\(arg:self\.fixed,%s\)\)$" % SIZE,
    "RelativeIS": r"^call:saturating_add\(call:deref\(arg:is\),call:saturating_mul\(%s,%s\)\)$" % (DYN_FIX, SIZE),
    "RelativeForwards": r"^call:saturating_add\(call:deref\(arg:pc\),call:saturating_mul\(call:saturating_add\(%s,const:1\),%s\)\)$" % (DYN_FIX, SIZE),
    "RelativeBackwards": r"^call:branch\(call:ok_or\(call:checked_sub\(call:deref\(arg:pc\),call:saturating_mul\(call:saturating_add\(%s,const:1\),%s\)\),agg:PanicReason::MemoryOverflow\)\)$" % (DYN_FIX, SIZE),
}
PC_WRITERS = {
    "fuel_vm::interpreter::internal::inc_pc": "the +4 step",
    "fuel_vm::interpreter::flow::JumpArgs::jump": "jump target",
    "fuel_vm::interpreter::flow::PrepareCallCtx::<'_, S, V>::prepare_call": "CALL enters the callee's code",
    "fuel_vm::interpreter::initialization::<impl fuel_vm::interpreter::Interpreter<M, S, Tx, Ecal, V>>::init_script": "entry point",
    "fuel_vm::interpreter::initialization::<impl fuel_vm::interpreter::Interpreter<M, S, Tx, Ecal, V>>::init_predicate": "entry point",
    # whole-file / dynamic writers (shared with C26's table)
    "fuel_vm::interpreter::flow::RetCtx::<'_>::return_from_context": "register restore from the call frame",
    "fuel_vm::interpreter::initialization::<impl fuel_vm::interpreter::Interpreter<M, S, Tx, Ecal, V>>::init_inner": "register wipe",
    "fuel_vm::interpreter::internal::<impl fuel_vm::interpreter::Interpreter<M, S, Tx, Ecal, V>>::write_user_register": "guarded by reg >= WRITABLE",
    "fuel_vm::interpreter::internal::<impl fuel_vm::interpreter::Interpreter<M, S, Tx, Ecal, V>>::write_user_register_legacy": "guarded by reg >= WRITABLE",
    "fuel_vm::constraints::reg_key::copy_registers": "fresh local array",
    "fuel_vm::interpreter::diff::<impl fuel_vm::interpreter::Interpreter<M, S, Tx, Ecal, V>>::inverse_inner": "state-diff utility",
    "fuel_vm::interpreter::flow::<impl fuel_vm::interpreter::Interpreter<M, S, Tx, Ecal, V>>::prepare_call_inner": "typed split",
    "fuel_vm::interpreter::flow::<impl std::convert::From<&'reg mut [u64; 64]> for fuel_vm::interpreter::flow::PrepareCallRegisters<'reg>>::from": "typed split",
}


def run(F, rep, tier, allfacts):
    cg = CallGraph(F, ["fuel_vm"])
    S = Summaries(cg)
    H = vm.handlers(F)
    rep.floor("handlers", "impl Execute", len(H), 127)
    rep.rule("COUNT-inc_pc", "min/max number of inc_pc calls on entry->Ok paths per handler = (1,1); (0,0) for CALL/RVRT; jump handlers: jump() exactly once")
    rep.rule("SHAPE-jump", "jump(): untaken->inc_pc; mode arm formulas; bound test region {eq,gt} dominates the $pc write of the computed target")
    rep.rule("TAB-jump-ops", "per-opcode (mode, condition, fixed) table; JAL writes return address first")
    rep.rule("DOM-fetch", "fetch_instruction: read + both region tests dominate Ok")
    rep.rule("WHO-pc", "writers of $pc ⊆ reviewed table")

    names = [n for n, f in H.values()]
    cnt = S.count(INC, names, depth=8)
    jcnt = S.count(JUMP, names, depth=8)
    for op, (n, f) in sorted(H.items()):
        rep.saw(n)
        c, j = cnt[n], jcnt[n]
        where = "%s:%s" % (f["file"], f["line"])
        if op == "ECAL":
            rep.note("ECAL: inc_pc count %s (conditional on Ecal::INC_PC by design)" % (c,))
            rep.check(c[1] <= 1 and j == (0, 0), "COUNT-inc_pc", "handler:ECAL", where, "ECAL may advance $pc at most once; found %s" % (c,))
        elif op in JUMP_OPS:
            rep.check(j == (1, 1) and c[1] <= 1, "COUNT-inc_pc", "handler:" + op, where,
                      "jump handler must call JumpArgs::jump exactly once on every Ok path (found %s) and reach inc_pc only through it (found %s)" % (j, c))
            # inc_pc only via jump: the handler body itself must not call inc_pc
            direct = call_blocks(f, INC)
            rep.check(not direct, "COUNT-inc_pc", "handler-no-direct-inc:" + op, where, "jump handler calls inc_pc directly")
        elif op in NO_INC:
            rep.check(c == (0, 0) and j == (0, 0), "COUNT-inc_pc", "handler:" + op, where,
                      "%s must not advance $pc with inc_pc (found %s)" % (op, c))
        else:
            rep.check(c == (1, 1) and j == (0, 0), "COUNT-inc_pc", "handler:" + op, where,
                      "non-jump handler must pass inc_pc exactly once on every non-error path; found min/max = %s (jump calls %s)"
                      % (tuple("inf" if x >= INF else x for x in c), j))

    # ---------------- jump()
    jn, jf = F.find(JUMP, ["fuel_vm"], one=True)
    rep.saw(jn)
    cfg = CFG(jf)
    oks = ok_sites(jf, cfg)
    # condition switch at entry
    t0 = jf["bbs"][0]["t"]
    okc = t0[0] == "switch" and describe(jf, t0[1]) in ("arg:self.condition", "Not(arg:self.condition)")
    untaken = None
    if okc:
        # arms [[0, bbF]] otherwise bbT : value 0 == condition false
        untaken = t0[2][0][1] if t0[2][0][0] == 0 else t0[3]
        taken = t0[3] if t0[2][0][0] == 0 else t0[2][0][1]
        if describe(jf, t0[1]).startswith("Not("):
            untaken, taken = taken, untaken
        incb = call_blocks(jf, INC)
        un_reach = cfg.reachable_incl(untaken)
        dm = [i for i, c, args, dest, tgt, line in calls(jf) if callee_name(c).endswith("deref_mut")]
        okc = bool(incb) and all(b in un_reach for b in incb) and not any(b in cfg.reachable_incl(taken) for b in incb) \
            and not any(d in un_reach - cfg.reachable_incl(taken) for d in dm) and cfg.must_pass(incb, untaken, [o for o in oks if o in un_reach and o not in cfg.reachable_incl(taken)] or oks)
    rep.check(bool(okc), "SHAPE-jump", "untaken->inc_pc-only", "%s:%s" % (jf["file"], jf["line"]),
              "when the condition is false jump() must call inc_pc and must not write $pc; when true it must not call inc_pc")
    # bound guard
    gl = [(g, guard_region(g, r"^(?!.*VM_MAX_RAM)", r"VM_MAX_RAM$")) for g in guards(jf)]
    gl = [(g, r) for g, r in gl if r is not None]
    pcw = []
    dm = {}
    for i, c, args, dest, tgt, line in calls(jf):
        if callee_name(c).endswith("deref_mut") and "RegMut<'_, 3>" in (c.get("self") or "") and dest:
            dm[dest[0]] = i
    for i, j, p, rv, line in assignments(jf):
        if p[0] in dm and p[1:] == ["*"]:
            pcw.append((i, rv, line))
    eb = agg_blocks(jf, r"PanicReason$", "MemoryOverflow")
    okb = False
    if len(gl) == 1 and len(pcw) == 1 and eb:
        g, reg = gl[0]
        err_side = g["t"] if reg == {"eq", "gt"} else (g["f"] if reg == {"lt"} else None)
        ok_side = g["f"] if err_side == g["t"] else g["t"]
        okb = err_side is not None and any(b in cfg.reachable_incl(err_side) for b in eb) and pcw[0][0] not in cfg.reachable_incl(err_side) \
            and cfg.dominates(g["bb"], dm[[k for k in dm][0]]) and pcw[0][0] in cfg.reachable_incl(ok_side)
    rep.check(okb, "SHAPE-jump", "target>=VM_MAX_RAM->MemoryOverflow-dominates-pc-write", "%s:%s" % (jf["file"], jf["line"]),
              "the bound test must have error region {eq,gt} and dominate the only $pc write; guards=%s writes=%d"
              % ([(g["op"], g["a_desc"], g["b_desc"]) for g, _ in gl], len(pcw)))
    if len(pcw) == 1:
        rv = pcw[0][1]
        from fvlib.core import root_of as _ro
        _r = _ro(jf, rv[1][1][0]) if rv[0] == "use" and rv[1][0] != "k" else None
        rep.check(isinstance(_r, list) and len(_r) == 1 and dbg_name(jf, _r[0]) == "target_addr", "SHAPE-jump", "pc:=target_addr",
                  "%s:%s" % (jf["file"], pcw[0][2]), "$pc must be assigned the computed (and bounds-checked) target address")
    # per-mode formula: arms of the discriminant switch on self.mode
    msw = None
    for b in sorted(cfg.reach):
        t = jf["bbs"][b]["t"]
        if t[0] == "switch" and describe(jf, t[1]) == "disc(arg:self.mode)":
            msw = (b, t)
    modes = F.adt("fuel_vm::interpreter::flow::JumpMode")["variants"]
    disc = {v["discr"]: v["name"] for v in modes}
    rep.check(msw is not None and len(msw[1][2]) == len(modes), "SHAPE-jump", "mode-switch-exhaustive", "%s:%s" % (jf["file"], jf["line"]),
              "jump() must switch over all %d JumpMode variants" % len(modes))
    if msw is not None and len(pcw) == 1 and pcw[0][1][0] == "use" and pcw[0][1][1][0] != "k":
        tl = pcw[0][1][1][1][0]
        from fvlib.core import root_of
        r = root_of(jf, tl)
        tl = r[0] if isinstance(r, list) else tl
        arms = {disc.get(v, str(v)): tgt for v, tgt in msw[1][2]}
        for mode, tgt in arms.items():
            mine = cfg.reachable_incl(tgt)
            for m2, t2 in arms.items():
                if m2 != mode:
                    mine = mine - cfg.reachable_incl(t2)
            forms = set()
            with inline_mode(F, r"^fuel_vm::interpreter::flow::"):      # read through private helpers of the module
                for d in defs_of_local(jf).get(tl, []):
                    if d[1] in mine:
                        if d[0] == "call":
                            forms.add("call:%s(%s)" % (callee_name(d[2]).rsplit("::", 1)[-1], ",".join(describe(jf, a, depth=30) for a in d[3])))
                        elif d[0] == "assign" and d[3][0] == "use":
                            forms.add(describe(jf, d[3][1], depth=30))
            want = FORMULA.get(mode)
            rep.check(want is not None and len(forms) == 1 and match_commuted(want, next(iter(forms))) is not None, "SHAPE-jump", "formula:" + mode,
                      "%s:%s" % (jf["file"], jf["line"]), "target formula of JumpMode::%s differs from the specification: %s" % (mode, sorted(forms)))
            rep.sample({"mode": mode, "formula": sorted(forms)})

    # ---------------- per-opcode table
    for op, (mode, cond, fixed) in sorted(JUMP_OPS.items()):
        if op not in H:
            rep.anchor_missing("handler " + op)
            continue
        n, f = H[op]
        where = "%s:%s" % (f["file"], f["line"])
        new = [[describe(f, a) for a in args] for i, c, args, *_ in calls(f) if callee_matches(c, r"flow::JumpArgs::new$")]
        got_mode = new[0][0].replace("agg:JumpMode::", "") if len(new) == 1 else None
        wc = [[describe(f, a, depth=12) for a in args] for i, c, args, *_ in calls(f) if callee_matches(c, r"flow::JumpArgs::with_condition$")]
        pf = [1 for i, c, args, *_ in calls(f) if callee_matches(c, r"flow::JumpArgs::plus_fixed$")]
        ta = [[describe(f, a, depth=12) for a in args] for i, c, args, *_ in calls(f) if callee_matches(c, r"flow::JumpArgs::to_address$")]
        got_cond = None
        if len(wc) == 1:
            d = wc[0][1]
            m = re.match(r"^Ne\((.*),(.*)\)$", d)
            if m:
                got_cond = "ne-zero" if d.endswith(",const:0)") else "ne-reg"
            else:
                got_cond = "other:" + d
        ok = got_mode == mode and got_cond == cond and bool(pf) == fixed and len(ta) == 1
        rep.check(ok, "TAB-jump-ops", "handler:" + op, where,
                  "%s must jump with mode=%s cond=%s fixed=%s; found mode=%s cond=%s fixed=%s to_address=%s" % (op, mode, cond, fixed, got_mode, got_cond, bool(pf), ta))
    if "JAL" in H:
        n, f = H["JAL"]
        cfg = CFG(f)
        wb = [(i, [describe(f, a, depth=12) for a in args]) for i, c, args, *_ in calls(f) if callee_matches(c, r"::write_user_register$")]
        jb = call_blocks(f, r"::jump$")
        ok = len(wb) == 1 and bool(jb) and cfg.dominates(wb[0][0], jb[0]) and match_commuted(r"saturating_add\(call:index\(.*RegId::PC\),.*Instruction::SIZE", wb[0][1][2]) is not None
        rep.check(ok, "TAB-jump-ops", "JAL:return-address=pc+4-before-jump", "%s:%s" % (f["file"], f["line"]),
                  "JAL must store $pc + Instruction::SIZE through write_user_register before jumping; found %s" % wb)

    # ---------------- fetch
    fn_, ff = F.find(r"executors::instruction::.*::fetch_instruction$", ["fuel_vm"], one=True)
    rep.saw(fn_)
    cfg = CFG(ff)
    oks = ok_sites(ff, cfg)
    rb = call_blocks(ff, r"MemoryInstance::read_bytes$")
    eb = agg_blocks(ff, r"PanicReason$", "MemoryNotExecutable")
    need = {"IS": {"lt"}, "SSP": {"eq", "gt"}}
    found = {}
    for g in guards(ff):
        for reg, want in need.items():
            r = guard_region(g, r"RegId::PC\)$", r"RegId::%s\)$" % reg)
            if r is not None:
                err_side = g["t"] if r == want else (g["f"] if {"lt", "eq", "gt"} - r == want else None)
                found[reg] = (g, err_side)
    for reg in need:
        okf = False
        if reg in found and found[reg][1] is not None and eb:
            g, err_side = found[reg]
            ok_side = g["f"] if err_side == g["t"] else g["t"]
            okf = any(b in cfg.reachable_incl(err_side) for b in eb) and all(o not in (cfg.reachable_incl(err_side) - cfg.reachable_incl(ok_side)) for o in oks) \
                and all(cfg.dominates(g["bb"], o) or True for o in oks)
            # every Ok site must be unreachable when the guard's ok edge is cut
            okf = okf and not (cfg._reach_from([0], avoid={ok_side}) & set(oks)) if ok_side not in (0,) else okf
        rep.check(okf, "DOM-fetch", "pc-vs-%s" % reg, "%s:%s" % (ff["file"], ff["line"]),
                  "fetch_instruction must reject $pc %s $%s with MemoryNotExecutable before returning Ok" % ("<" if reg == "IS" else ">=", reg.lower()))
    rep.check(bool(rb) and all(cfg.dominates(rb[0], o) for o in oks), "DOM-fetch", "read-dominates-ok", "%s:%s" % (ff["file"], ff["line"]),
              "the 4-byte memory read at $pc must dominate the Ok exit")

    # ---------------- WHO pc
    ws = vm.register_writes(F)
    seen = {}
    for w in ws:
        if w["fn"].startswith("fuel_vm::call::"):
            continue
        if w["reg"] in (3, "dyn", "all") and not (w["kind"].startswith("escape:") and re.search(r"escape:\w+_mut$", w["kind"]) and w["kind"] != "escape:iter_mut"):
            seen.setdefault(w["fn"], []).append((w["kind"], w["reg"], w["line"]))
    for fnn, lst in sorted(seen.items()):
        f = cg.fns[fnn]
        rep.check(fnn in PC_WRITERS, "WHO-pc", "writer:" + short(fnn), "%s:%s" % (f["file"], lst[0][2]),
                  "UNREVIEWED function can write $pc: %s via %s" % (fnn, sorted(set((k, str(r)) for k, r, _ in lst))))
    rep.floor("WHO-pc", "pc-capable writers", len(seen), 8)
