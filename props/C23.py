"""C23 VM memory behaves like a zero-initialised array with two regions — structural clauses.

  DOM-zero-on-grow   grow_heap_by: no path reaches the hp update without zero-filling the newly exposed
                     range: the in-place branch fills heap[new_hp-off .. hp-off]; the reallocation branch
                     clears the dirty prefix (bypassable only through the None edge of hp.checked_sub(off)),
                     resizes with 0, moves the old contents up and clears the new prefix.
                     grow_stack resizes with 0.
  SHAPE-bounds       grow_heap_by: new_hp < sp -> MemoryGrowthOverlap; amount > hp -> MemoryOverflow;
                     grow_stack: new_sp > VM_MAX_RAM -> MemoryOverflow, new_sp > hp -> MemoryGrowthOverlap,
                     both before the resize; verify: end > MEM_SIZE -> MemoryOverflow, accessible iff
                     end <= stack.len() or start >= hp, else UninitalizedMemoryAccess.
  DOM-verify         every function that indexes self.stack / self.heap for program access (read,
                     write_noownerchecks, memcopy) does so only after verify() of that range.
  SIB-own-offset     whenever a heap buffer X.heap is indexed with a range derived from heap_offset(Y),
                     X and Y are the same object (collect_rollback_data / rollback / read / write / memcopy).
  WHO-fields         stack / heap / hp are written only by MemoryInstance's own methods.
  ROLLBACK           rollback restores sp (resize with 0), hp := data.hp, then replays stack and heap changes.
  PRIORITY-stack-first  read / write_noownerchecks / memcopy select the heap buffer for a range only after the
                     `end <= stack.len()` test of the same range failed (the retained heap buffer may reach below the
                     stack extent on a reused instance).
Not decided: the byte-level equality of contents.
"""
import re

from fvlib.core import (CFG, CallGraph, agg_blocks, assignments, call_blocks, calls, callee_matches, callee_name,
                        describe, guards, guard_region, short)
from fvlib.effects import FieldEffects
from fvlib.summ import ok_sites

MI = "fuel_vm::interpreter::memory::MemoryInstance"


def run_growth(F, rep):
    """Zero-on-grow and growth-bound clauses (also used by C31: reused memory must read as zero)."""
    rep.rule("DOM-zero-on-grow", "no path to the hp update avoids the zero fills (except the impossible-None edge); resize fills with 0")
    rep.rule("SHAPE-bounds", "error regions of the growth / verify comparisons")

    def fn(name):
        n, f = F.find(r"^" + re.escape(MI) + "::" + name + "$", ["fuel_vm"], one=True)
        rep.saw(n)
        return n, f

    # ------------------------------------------------------------ grow_heap_by
    n, f = fn("grow_heap_by")
    cfg = CFG(f)
    where = "%s:%s" % (f["file"], f["line"])
    hpw = [i for i, j, p, rv, line in assignments(f) if p[1:] and isinstance(p[-1], list) and p[-1][0] == "f" and p[-1][2] == "hp" and p[-1][3] == MI]
    fills = [(i, [describe(f, a, depth=14) for a in args]) for i, c, args, *_ in calls(f) if callee_matches(c, r"slice::<impl \[T\]>::fill$")]
    rz = [(i, [describe(f, a, depth=10) for a in args]) for i, c, args, *_ in calls(f) if callee_matches(c, r"Vec.*::resize$")]
    cw = call_blocks(f, r"copy_within$")
    rep.check(len(hpw) == 1 and len(fills) == 3 and len(rz) == 1 and len(cw) == 1, "DOM-zero-on-grow", "grow_heap_by:shape", where,
              "expected one hp update, three zero fills, one resize, one copy_within; found %d/%d/%d/%d" % (len(hpw), len(fills), len(rz), len(cw)))
    rep.check(all(a[1][1] == "const:0" for a in fills) and all(a[1][2] == "const:0" for a in rz), "DOM-zero-on-grow", "grow_heap_by:fill-value-0", where,
              "every fill/resize in grow_heap_by must use 0; fills=%s resize=%s" % ([a[1][1] for a in fills], [a[1][2:] for a in rz]))
    if len(hpw) == 1 and fills and rz:
        # the None edge of `self.hp.checked_sub(self.heap_offset())` in the realloc branch
        none_edges = set()
        from fvlib.core import root_of
        for b in sorted(cfg.reach):
            t = f["bbs"][b]["t"]
            if t[0] != "switch" or t[1][0] == "k":
                continue
            r = root_of(f, t[1][1][0])
            if isinstance(r, tuple) and r[0] == "rvalue" and r[1][0] == "disc":
                r2 = root_of(f, r[1][1][0])
                if isinstance(r2, tuple) and r2[0] == "call" and callee_matches(r2[1], r"::checked_sub$") and \
                        describe(f, r2[2][0], depth=6) == "arg:self.hp" and "heap_offset(arg:self)" in describe(f, r2[2][1], depth=8):
                    vals = {v: tg for v, tg in t[2]}
                    none_edges.add(vals[0] if 0 in vals else t[3])
        rep.check(len(none_edges) == 1, "DOM-zero-on-grow", "grow_heap_by:none-edge-found", where,
                  "expected the `if let Some(end) = self.hp.checked_sub(self.heap_offset())` test in the reallocation branch")
        fill_blocks = {a[0] for a in fills}
        seen = cfg._reach_from([0], avoid=fill_blocks | none_edges)
        rep.check(hpw[0] not in seen, "DOM-zero-on-grow", "grow_heap_by:no-path-avoids-zero-fill", where,
                  "a path reaches `self.hp = new_hp` without zero-filling the newly exposed heap range (block path avoids fills %s)" % sorted(fill_blocks))
        # in the realloc branch: dirty-prefix fill -> resize -> copy_within -> prefix fill, in that order
        r0 = rz[0][0]
        pre = [b for b in fill_blocks if r0 in cfg.reachable_from(b) and not cfg.dominates(r0, b)]
        post = [b for b in fill_blocks if cfg.dominates(r0, b)]
        rep.check(len(pre) >= 1 and len(post) == 1 and cfg.dominates(r0, cw[0]) and cfg.dominates(cw[0], post[0]), "DOM-zero-on-grow", "grow_heap_by:realloc-order", where,
                  "reallocation must clear the dirty prefix, resize, move the old contents, then clear the new prefix; pre=%s post=%s" % (pre, post))
        # realloc-branch dirty fill must not sit behind any extra condition: from the branch entry every path to resize passes fill or None edge
        seen2 = cfg._reach_from([0], avoid=set(pre) | none_edges | {b for b in fill_blocks if b not in pre and b not in post})
        rep.check(r0 not in seen2, "DOM-zero-on-grow", "grow_heap_by:dirty-prefix-cleared-before-resize", where,
                  "the reallocation path can reach resize() without clearing the dirty prefix of a reused heap buffer")
    eb_ov = agg_blocks(f, r"PanicReason$", "MemoryGrowthOverlap")
    g1 = [(g, guard_region(g, r"checked_sub\(arg:self\.hp", r"arg:sp_reg")) for g in guards(f)]
    g1 = [(g, r) for g, r in g1 if r is not None]
    okg = False
    if g1 and eb_ov and hpw:
        g, reg = g1[0]
        side = g["t"] if reg == {"lt"} else (g["f"] if reg == {"eq", "gt"} else None)
        okg = side is not None and eb_ov[0] in cfg.reachable_incl(side) and hpw[0] not in cfg.reachable_incl(side) and cfg.dominates(g["bb"], hpw[0])
    rep.check(okg, "SHAPE-bounds", "grow_heap_by:new_hp<sp->MemoryGrowthOverlap", where, "heap growth below $sp must be refused before anything changes")
    subs = [[describe(f, a, depth=16) for a in args] for i, c, args, *_ in calls(f) if callee_matches(c, r"::checked_sub$")]
    rep.check(any(s[0] == "arg:self.hp" and "arg:amount" in s[1] for s in subs) and bool(agg_blocks(f, r"PanicReason$", "MemoryOverflow")), "SHAPE-bounds",
              "grow_heap_by:hp.checked_sub(amount)-else-MemoryOverflow", where, "new_hp must be hp.checked_sub(amount) with MemoryOverflow on underflow; found %s" % subs)
    tr = [[describe(f, a, depth=16) for a in args] for i, c, args, *_ in calls(f) if callee_matches(c, r"Vec.*::truncate$")]
    trb = [i for i, c, args, *_ in calls(f) if callee_matches(c, r"Vec.*::truncate$")]
    from fvlib.summ import ok_sites as _oks
    rep.check(len(tr) == 1 and tr[0][0] == "arg:self.stack" and "checked_sub(arg:self.hp" in tr[0][1] and "sp_reg" not in tr[0][1] and cfg.must_pass(trb, 0, _oks(f, cfg)),
              "DOM-zero-on-grow", "grow_heap_by:stack-truncated-to-new_hp", where,
              "on every Ok path the stack buffer must be truncated exactly at the new $hp (everything below stays readable, regrown stack reads zero); truncate calls %s" % tr)

    # ------------------------------------------------------------ grow_stack
    n, f = fn("grow_stack")
    cfg = CFG(f)
    where = "%s:%s" % (f["file"], f["line"])
    rz = [(i, [describe(f, a, depth=10) for a in args]) for i, c, args, *_ in calls(f) if callee_matches(c, r"Vec.*::resize$")]
    rep.check(len(rz) == 1 and rz[0][1][2] == "const:0", "DOM-zero-on-grow", "grow_stack:resize(_,0)", where, "stack growth must zero-fill; found %s" % rz)
    for key, a_rx, b_rx, reason in (("new_sp>VM_MAX_RAM", r"^arg:new_sp$", r"VM_MAX_RAM$", "MemoryOverflow"),
                                    ("new_sp>hp", r"new_sp", r"^arg:self\.hp$", "MemoryGrowthOverlap")):
        gg = [(g, guard_region(g, a_rx, b_rx)) for g in guards(f)]
        gg = [(g, r) for g, r in gg if r is not None]
        eb = agg_blocks(f, r"PanicReason$", reason)
        ok = False
        if gg and eb and rz:
            g, reg = gg[0]
            side = g["t"] if reg == {"gt"} else (g["f"] if reg == {"lt", "eq"} else None)
            ok = side is not None and eb[0] in cfg.reachable_incl(side) and rz[0][0] not in cfg.reachable_incl(side) and cfg.dominates(g["bb"], rz[0][0])
        rep.check(ok, "SHAPE-bounds", "grow_stack:%s->%s" % (key, reason), where, "grow_stack must refuse %s with %s before resizing" % (key, reason))



def run_priority(F, rep):
    def fn(name):
        n, f = F.find(r"^" + re.escape(MI) + "::" + name + "$", ["fuel_vm"], one=True)
        rep.saw(n)
        return n, f
    # ------------------------------------------------------------ stack has priority over the heap buffer
    # The heap *buffer* keeps its capacity across resets, so heap_offset() can lie below stack.len(): an address that is
    # inside the stack extent must be served from the stack. Every `start >= heap_offset()` dispatch therefore sits on the
    # false side of the `end <= stack.len()` test of the same range.
    rep.rule("PRIORITY-stack-first", "heap dispatch only after the stack test of the same range failed (read / write / memcopy)")
    npri = 0
    for name in ("read", "write_noownerchecks", "memcopy"):
        n, f = fn(name)
        cfg = CFG(f)
        where = "%s:%s" % (f["file"], f["line"])
        gs = guards(f)
        for g in gs:
            rh = guard_region(g, r"^call:start\(", r"^call:heap_offset\(arg:self\)$")
            if rh is None:
                continue
            rng = (g["a_desc"] if g["a_desc"].startswith("call:start(") else g["b_desc"])[len("call:start("):-1]
            okp = False
            for s_ in gs:
                rs = guard_region(s_, r"^call:end\(" + re.escape(rng) + r"\)$", r"^call:len\(arg:self\.stack\)$")
                if rs is None:
                    continue
                not_stack = s_["f"] if rs == {"lt", "eq"} else (s_["t"] if rs == {"gt"} else None)
                if not_stack is not None and (cfg.dominates(not_stack, g["bb"]) or not_stack == g["bb"]):
                    okp = True
            npri += 1
            rep.check(okp, "PRIORITY-stack-first", "%s:%s" % (name, rng[-40:]), where,
                      "the heap buffer is selected for range %s without first failing the `end <= stack.len()` test of that range" % rng)
    rep.floor("PRIORITY-stack-first", "heap dispatch guards", npri, 3)



def run(F, rep, tier, allfacts):
    cg = CallGraph(F, ["fuel_vm"])
    rep.rule("DOM-zero-on-grow", "no path to the hp update avoids the zero fills (except the impossible-None edge); resize fills with 0")
    rep.rule("SHAPE-bounds", "error regions of the growth / verify comparisons")
    rep.rule("DOM-verify", "verify() dominates every index into stack/heap in read/write/memcopy")
    rep.rule("SIB-own-offset", "heap buffer of X indexed only with offsets computed from X.heap_offset()")
    rep.rule("WHO-fields", "writers of stack/heap/hp ⊆ MemoryInstance methods")
    rep.rule("ROLLBACK", "rollback: resize(sp,0); hp := data.hp; replay changes")

    def fn(name):
        n, f = F.find(r"^" + re.escape(MI) + "::" + name + "$", ["fuel_vm"], one=True)
        rep.saw(n)
        return n, f

    run_growth(F, rep)

    # ------------------------------------------------------------ verify
    n, f = fn("verify")
    cfg = CFG(f)
    where = "%s:%s" % (f["file"], f["line"])
    okb = agg_blocks(f, r"result::Result$", "Ok")
    ub = agg_blocks(f, r"PanicReason$", "UninitalizedMemoryAccess")
    ob = agg_blocks(f, r"PanicReason$", "MemoryOverflow")
    regs = {}
    for g in guards(f):
        for key, a_rx, b_rx in (("end-vs-MEM_SIZE", r"saturating_add\(", r"MEM_SIZE$"), ("end-vs-stack.len", r"saturating_add\(", r"len\(arg:self\.stack\)"),
                                ("start-vs-hp", r"to_addr\(arg:addr\)", r"^arg:self\.hp$")):
            r = guard_region(g, a_rx, b_rx)
            if r is not None:
                regs[key] = (g, r)
    ok1 = ok2 = ok3 = False
    if "end-vs-MEM_SIZE" in regs and ob:
        g, reg = regs["end-vs-MEM_SIZE"]
        side = g["t"] if reg == {"gt"} else (g["f"] if reg == {"lt", "eq"} else None)
        ok1 = side is not None and any(b in cfg.reachable_incl(side) for b in ob) and not any(b in cfg.reachable_incl(side) for b in okb)
    if "end-vs-stack.len" in regs and okb:
        g, reg = regs["end-vs-stack.len"]
        side = g["t"] if reg == {"lt", "eq"} else (g["f"] if reg == {"gt"} else None)
        ok2 = side is not None and any(b in cfg.reachable_incl(side) for b in okb) and not any(b in (cfg.reachable_incl(side) - cfg.reachable_incl(g["f"] if side == g["t"] else g["t"])) for b in ub)
    if "start-vs-hp" in regs and okb and ub:
        g, reg = regs["start-vs-hp"]
        side = g["t"] if reg == {"eq", "gt"} else (g["f"] if reg == {"lt"} else None)
        other = g["f"] if side == g["t"] else g["t"]
        ok3 = side is not None and any(b in cfg.reachable_incl(side) for b in okb) and any(b in cfg.reachable_incl(other) for b in ub) and \
            not any(b in cfg.reachable_incl(other) for b in okb)
    rep.check(ok1, "SHAPE-bounds", "verify:end>MEM_SIZE->MemoryOverflow", where, "ranges ending beyond MEM_SIZE must fail with MemoryOverflow")
    rep.check(ok2, "SHAPE-bounds", "verify:end<=stack.len->Ok", where, "a range ending inside the stack extent must be accessible")
    rep.check(ok3, "SHAPE-bounds", "verify:start>=hp->Ok-else-Uninitalized", where, "a range starting at or above hp is accessible; anything else is UninitalizedMemoryAccess")

    # ------------------------------------------------------------ DOM-verify + SIB-own-offset
    for name in ("read", "write_noownerchecks", "memcopy", "collect_rollback_data", "rollback"):
        n, f = fn(name)
        cfg = CFG(f)
        where = "%s:%s" % (f["file"], f["line"])
        idx = [(i, [describe(f, a, depth=18) for a in args], line) for i, c, args, dest, tgt, line in calls(f)
               if callee_matches(c, r"Index(Mut)?<.*>>::index(_mut)?$|copy_within$") and re.match(r"^arg:\w+\.(stack|heap)$", describe(f, args[0], depth=4))]
        if name in ("read", "write_noownerchecks", "memcopy"):
            vb = call_blocks(f, r"MemoryInstance::verify$")
            rep.floor("DOM-verify", "index sites in " + name, len(idx), 2)
            rep.check(bool(vb) and all(any(cfg.dominates(v, i) for v in vb) for i, a, l in idx), "DOM-verify", name, where,
                      "%s indexes the stack/heap buffers without a dominating verify()" % name)
        for i, a, line in idx:
            m = re.match(r"^arg:(\w+)\.heap$", a[0])
            if not m:
                continue
            objs = set(re.findall(r"heap_offset\(arg:(\w+)\)", " ".join(a[1:])))
            rep.check(objs <= {m.group(1)}, "SIB-own-offset", "%s:%s.heap@L-ordinal%d" % (name, m.group(1), [x[0] for x in idx].index(i)), "%s:%s" % (f["file"], line),
                      "%s.heap is indexed with an offset computed from %s.heap_offset(): buffer-relative indices of different buffers are mixed" % (m.group(1), sorted(objs - {m.group(1)})))

    run_priority(F, rep)

    # ------------------------------------------------------------ WHO fields
    fe = FieldEffects(cg, r"^" + re.escape(MI) + "$", re.escape(MI))
    for m, ws in sorted(fe.direct.items()):
        for (bb, fld, kind, line) in ws:
            if fld in ("stack", "heap", "hp"):
                ok = m.startswith(MI + "::") or m.startswith("<" + MI + " as ")
                rep.check(ok, "WHO-fields", "%s writes %s" % (short(m), fld), "%s:%s" % (cg.fns[m]["file"], line),
                          "MemoryInstance.%s is written outside MemoryInstance: %s" % (fld, m))

    # ------------------------------------------------------------ rollback
    n, f = fn("rollback")
    cfg = CFG(f)
    where = "%s:%s" % (f["file"], f["line"])
    rz = [[describe(f, a, depth=8) for a in args] for i, c, args, *_ in calls(f) if callee_matches(c, r"Vec.*::resize$")]
    hp = [describe(f, rv[1], depth=6) for i, j, p, rv, line in assignments(f) if p[1:] and isinstance(p[-1], list) and p[-1][0] == "f" and p[-1][2] == "hp" and rv[0] == "use"]
    cps = call_blocks(f, r"copy_from_slice$")
    for cn_, cf_ in F.find("^" + re.escape(n) + r"::\{closure#\d+\}$", ["fuel_vm"], required=False):     # loops written as for_each closures
        cps = cps + call_blocks(cf_, r"copy_from_slice$")
    rep.check(rz == [["arg:self.stack", "arg:data.sp", "const:0"]] and hp == ["arg:data.hp"] and len(cps) == 2, "ROLLBACK", "rollback:shape", where,
              "rollback must resize the stack to data.sp with 0, set hp to data.hp and replay stack and heap changes; found resize=%s hp=%s copies=%d" % (rz, hp, len(cps)))
    n, f = fn("collect_rollback_data")
    gc = [[describe(f, a, depth=18) for a in args] for i, c, args, *_ in calls(f) if callee_matches(c, r"memory::get_changes$")]
    ok = len(gc) == 2 and gc[0][0].startswith("call:index(arg:self.stack") and gc[0][1].startswith("call:index(arg:desired_memory_state.stack") and gc[0][2] == "const:0" \
        and gc[1][0].startswith("call:index(arg:self.heap") and gc[1][1].startswith("call:index(arg:desired_memory_state.heap") and gc[1][2] == "arg:desired_memory_state.hp"
    rep.check(ok, "ROLLBACK", "collect:get_changes(latest=self,desired=snapshot)", "%s:%s" % (f["file"], f["line"]),
              "changes must be computed from the current memory towards the snapshot, stack at offset 0 and heap at the snapshot's hp; found %s" % [[x[:60] for x in g] for g in gc])
