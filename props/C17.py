"""C17 Signing, recovery and verification are mutually consistent — callee, bit-format and outcome-mapping clauses.

  TAB-ed25519     fuel_crypto::ed25519::verify resolves to ed25519_dalek VerifyingKey::verify_strict (never the
                  lenient Verifier::verify), on (message, signature) built from the arguments; its is_ok() is
                  the only thing deciding Ok(()) / Err(InvalidSignature).
  BIT-sigformat   encode_signature writes sig[32] = (is_y_odd << 7) | (sig[32] & 0x7f) after asserting
                  sig[32] >> 7 == 0 (normalised input); decode_signature reads is_y_odd = (sig[32] & 0x80) != 0
                  and clears exactly that bit (sig[32] &= 0x7f). The two are inverse on bit 255 and identity on
                  the other 511 bits (only index 32 is ever written).
  SIB-backends    every backend `recover` (k256, secp256k1, p256) starts from decode_signature(argument), feeds
                  the stripped signature to the parser and the decoded recovery id to the curve recovery; every
                  `verify` decodes and discards the recovery id ("the recovery bit position is free"); every
                  `sign` returns encode_signature(..). Signature::{sign,recover,verify} delegate to the k1 backend.
  WHO-vm          fuel-vm reaches curve code only through fuel_crypto: no callee in k256/p256/secp256k1/
                  ed25519_dalek/ecdsa from any fuel_vm function.
  DOM-handlers    ECK1/ECR1: signature read from $rB (64 bytes), message from $rC (32 bytes), library Ok ->
                  public key written at $rA and $err cleared; library Err -> 64 zero bytes written at $rA and
                  $err set; ED19: key from $rA, signature from $rB, message = mem[$rC, len]; is_ok -> clear_err
                  else set_err. $pc advances on both arms.
Not decided: the elliptic-curve mathematics (normalisation of produced signatures, recovery correctness).
"""
import re

from fvlib.core import (CFG, CallGraph, arm_regions, assignments, bool_consumers, call_blocks, calls, callee_matches,
                        callee_name, describe, describe_place, match_commuted, short)

SF = "fuel_crypto::secp256::signature_format::"
VMC = "fuel_vm::interpreter::crypto::"


def rv_desc(f, rv, depth=12):
    if rv[0] == "use":
        return describe(f, rv[1], depth=depth)
    if rv[0] == "bin":
        return "%s(%s,%s)" % (rv[1], describe(f, rv[2], depth=depth), describe(f, rv[3], depth=depth))
    return rv[0]


def run(F, rep, tier, allfacts):
    rep.rule("TAB-ed25519", "ed25519::verify = verify_strict; outcome decided by its is_ok only")
    rep.rule("BIT-sigformat", "bit 7 of byte 32 carries the y-parity; encode/decode touch only that byte and are inverse")
    rep.rule("SIB-backends", "recover: decode -> (sig -> parser, recid -> recovery); verify: decode, recid unused; sign: encode")
    rep.rule("WHO-vm", "no direct curve-crate callee in fuel_vm")
    rep.rule("DOM-handlers", "VM handlers map library outcomes to memory/$err as specified")

    # ---------------- ed25519
    n, f = F.find(r"^fuel_crypto::ed25519::verify$", ["fuel_crypto"], one=True)
    rep.saw(n)
    where = "%s:%s" % (f["file"], f["line"])
    vs = [(i, callee_name(c), [describe(f, a, depth=14) for a in args]) for i, c, args, *_ in calls(f) if callee_matches(c, r"^ed25519_dalek::.*::verify\w*$|Verifier.*::verify$")]
    rep.check(len(vs) == 1 and vs[0][1] == "ed25519_dalek::verifying::VerifyingKey::verify_strict", "TAB-ed25519", "callee=verify_strict", where,
              "ed25519::verify must call VerifyingKey::verify_strict exactly once and no other verify; found %s" % [v[1] for v in vs])
    if vs:
        a = vs[0][2]
        rep.check(re.search(r"call:from_bytes\((call:deref\()?arg:pub_key\)", a[0]) is not None and a[1] == "arg:message" and re.search(r"call:from_bytes\((call:deref\()?arg:signature\)", a[2]) is not None,
                  "TAB-ed25519", "arguments", where, "verify_strict must receive (key(pub_key), message, Signature(signature)); found %s" % a)
    cfg = CFG(f)
    isok = [i for i, c, args, *_ in calls(f) if callee_matches(c, r"Result::<T, E>::is_ok$") and "verify_strict" in describe(f, args[0], depth=10)]
    okb = [i for i, j, p, rv, line in assignments(f) if p == [0] and rv[0] == "agg" and rv[2] == "Ok"]
    errb = [i for i, j, p, rv, line in assignments(f) if rv[0] == "agg" and rv[2] == "InvalidSignature"]
    good = False
    if len(isok) == 1 and okb and errb:
        bc = bool_consumers(f, isok[0])
        if len(bc) == 1:
            _, t, fl = bc[0]
            rt, rf_ = cfg.reachable_incl(t), cfg.reachable_incl(fl)
            good = all(b in rt and b not in rf_ for b in okb) and all(b in rf_ and b not in rt for b in errb) and all(cfg.dominates(isok[0], b) for b in okb)
    if not good and not okb:
        # `verify_strict(..).map_err(|_| Error::InvalidSignature)` returned as is: Ok exactly when verify_strict is Ok
        me = [(i, [describe(f, a, depth=12) for a in args]) for i, c, args, dest, *_ in calls(f) if callee_matches(c, r"Result::<T, E>::map_err$") and dest == [0]]
        cl_err = any(any(rv[0] == "agg" and rv[2] == "InvalidSignature" for _, _, _, rv, _ in assignments(cf)) for cn, cf in F.find(r"^fuel_crypto::ed25519::verify::\{closure#\d+\}$", ["fuel_crypto"], required=False))
        good = len(me) == 1 and "call:verify_strict(" in me[0][1][0] and cl_err
    rep.check(good, "TAB-ed25519", "Ok-iff-verify_strict.is_ok()", where, "Ok(()) must be returned exactly on the is_ok() branch of verify_strict and InvalidSignature on the other")

    # ---------------- signature format
    n, f = F.find(r"^" + re.escape(SF) + "encode_signature$", ["fuel_crypto"], one=True)
    rep.saw(n)
    where = "%s:%s" % (f["file"], f["line"])
    writes = [(p, rv_desc(f, rv)) for i, j, p, rv, line in assignments(f) if p[0] == 1 and len(p) > 1]
    want = r"^BitOr\(Shl\(arg:\w+\.is_y_odd,const:7\),BitAnd\(arg:(\w+)\[(const:)?32\],const:127\)\)$"
    rep.check(len(writes) == 1 and match_commuted(want, writes[0][1]) is not None, "BIT-sigformat", "encode:sig[32]=(v<<7)|(sig[32]&0x7f)", where,
              "encode_signature must write exactly signature[32] = (is_y_odd << 7) | (signature[32] & 0x7f); writes %s" % writes)
    idx_ok = all(index_is_32(f, p) for p, _ in writes)
    rep.check(idx_ok, "BIT-sigformat", "encode:only-byte-32-written", where, "writes into the signature must target index 32 only: %s" % writes)
    # normalisation assertion: Shr(sig[32],7) == 0 else panic, before the write
    cfg = CFG(f)
    from fvlib.core import guards
    # bit 7 of byte 32 must be clear: `sig[32] >> 7 == 0` or `sig[32] & 0x80 == 0`
    HI = r"^(Shr\(arg:\w+\[(const:)?32\],const:7\)|BitAnd\(arg:\w+\[(const:)?32\],const:128\))$"
    gs = [g for g in guards(f) if g["op"] == "Eq" and ((match_commuted(HI, g["a_desc"]) and g["b_desc"] == "const:0") or (match_commuted(HI, g["b_desc"]) and g["a_desc"] == "const:0"))]
    pan = call_blocks(f, r"panicking::panic")
    wb = [i for i, j, p, rv, line in assignments(f) if p[0] == 1 and len(p) > 1]
    ok = len(gs) == 1 and pan and wb and all(b in cfg.reachable_incl(gs[0]["f"]) for b in pan) and not any(b in cfg.reachable_incl(gs[0]["t"]) for b in pan) and \
        all(cfg.dominates(gs[0]["t"], b) for b in wb)
    rep.check(ok, "BIT-sigformat", "encode:asserts-normalised-input", where, "encode_signature must assert signature[32] >> 7 == 0 before encoding")
    rets = [rv_desc(f, rv) for i, j, p, rv, line in assignments(f) if p == [0]]
    rep.check(len(rets) == 1 and re.match(r"^arg:\w+$", rets[0]) is not None and all(describe_place(f, [p[0]]) == rets[0] for p, _ in writes), "BIT-sigformat", "encode:returns-the-same-array", where, "returns %s" % rets)

    n, f = F.find(r"^" + re.escape(SF) + "decode_signature$", ["fuel_crypto"], one=True)
    rep.saw(n)
    where = "%s:%s" % (f["file"], f["line"])
    writes = [(p, rv_desc(f, rv)) for i, j, p, rv, line in assignments(f) if p[0] == 1 and len(p) > 1]
    rep.check(len(writes) == 1 and match_commuted(r"^BitAnd\(arg:\w+\[(const:)?32\],const:127\)$", writes[0][1]) is not None and index_is_32(f, writes[0][0]),
              "BIT-sigformat", "decode:sig[32]&=0x7f", where, "decode_signature must clear exactly bit 7 of byte 32; writes %s" % writes)
    tup = [[describe(f, x, depth=14) for x in rv[3]] for i, j, p, rv, line in assignments(f) if p == [0] and rv[0] == "agg"]
    ok = len(tup) == 1 and re.match(r"^arg:\w+$", tup[0][0]) is not None and match_commuted(r"^agg:RecoveryId(::RecoveryId)?\(Ne\(BitAnd\(arg:\w+\[(const:)?32\],const:128\),const:0\)\)$", tup[0][1]) is not None
    rep.check(ok, "BIT-sigformat", "decode:is_y_odd=(sig[32]&0x80)!=0", where, "returns %s" % tup)
    # the parity read precedes the clearing write
    rd = [i for i, j, p, rv, line in assignments(f) if rv[0] == "bin" and rv[1] == "BitAnd" and describe(f, rv[3]) == "const:128"]
    wr = [(i, j) for i, j, p, rv, line in assignments(f) if p[0] == 1 and len(p) > 1]
    rdj = [(i, j) for i, j, p, rv, line in assignments(f) if rv[0] == "bin" and rv[1] == "BitAnd" and describe(f, rv[3]) == "const:128"]
    rep.check(len(rdj) == 1 and len(wr) == 1 and (CFG(f).dominates(rdj[0][0], wr[0][0]) and (rdj[0][0] != wr[0][0] or rdj[0][1] < wr[0][1])), "BIT-sigformat",
              "decode:parity-read-before-clear", where, "the parity bit must be read before it is cleared")

    # ---------------- backends
    backs = {
        "k256": "fuel_crypto::secp256::backend::k1::k256::",
        "secp256k1": "fuel_crypto::secp256::backend::k1::secp256k1::",
        "p256": "fuel_crypto::secp256::backend::r1::p256::",
    }
    PARSE = r"(ecdsa::Signature::<C>::from_slice|RecoverableSignature::from_compact|ecdsa::Signature::from_compact)$"
    RECOV = r"(VerifyingKey<C>>::recover_from_prehash|Secp256k1<C>>::recover_ecdsa)$"
    nrec = 0
    for bk, pfx in backs.items():
        n, f = F.find(r"^" + re.escape(pfx) + "recover$", ["fuel_crypto"], one=True)
        rep.saw(n)
        where = "%s:%s" % (f["file"], f["line"])
        dec = [(i, [describe(f, a, depth=10) for a in args]) for i, c, args, *_ in calls(f) if callee_matches(c, r"^" + re.escape(SF) + "decode_signature$")]
        cfg = CFG(f)
        parse = [(i, callee_name(c), [describe(f, a, depth=14) for a in args]) for i, c, args, *_ in calls(f) if callee_matches(c, PARSE)]
        rec = [(i, callee_name(c), [describe(f, a, depth=20) for a in args]) for i, c, args, *_ in calls(f) if callee_matches(c, RECOV)]
        ok = len(dec) == 1 and dec[0][1] in (["arg:signature"], ["call:deref(arg:signature)"]) and len(parse) == 1 and len(rec) == 1
        detail = "decode %s parse %s recover %s" % (dec, parse, rec)
        if ok:
            ok = cfg.dominates(dec[0][0], parse[0][0]) and cfg.dominates(parse[0][0], rec[0][0])
            alla = parse[0][2] + rec[0][2]
            sig_used = any(re.search(r"call:decode_signature\((call:deref\()?arg:signature\)?\)\.0", a) for a in parse[0][2])
            rid_used = any(re.search(r"call:decode_signature\((call:deref\()?arg:signature\)?\)\.1", a) for a in alla)
            msg_used = any("arg:message" in a for a in rec[0][2])
            ok = sig_used and rid_used and msg_used
        nrec += 1
        rep.check(ok, "SIB-backends", "%s::recover" % bk, where, "recover must decode the argument, parse `.0` and recover with `.1` and the message; %s" % detail)
        errs = {rv[2] for i, j, p, rv, line in assignments(f) if rv[0] == "agg" and rv[1].endswith("::Error")}
        for cn, cf in F.find(r"^" + re.escape(pfx) + r"recover::\{closure#\d+\}$", ["fuel_crypto"]):
            errs |= {rv[2] for i, j, p, rv, line in assignments(cf) if rv[0] == "agg" and rv[1].endswith("::Error")}
        rep.check(errs == {"InvalidSignature"}, "SIB-backends", "%s::recover:errors" % bk, where, "recover failures must all be Error::InvalidSignature; found %s" % sorted(errs))
    rep.floor("SIB-backends", "recover backends", nrec, 3)
    for bk in ("k256", "secp256k1"):
        pfx = backs[bk]
        n, f = F.find(r"^" + re.escape(pfx) + "verify$", ["fuel_crypto"], one=True)
        rep.saw(n)
        where = "%s:%s" % (f["file"], f["line"])
        dec = [(i, [describe(f, a, depth=10) for a in args]) for i, c, args, *_ in calls(f) if callee_matches(c, r"^" + re.escape(SF) + "decode_signature$")]
        parse = [(i, [describe(f, a, depth=14) for a in args]) for i, c, args, *_ in calls(f) if callee_matches(c, PARSE)]
        uses1 = []
        for i, c, args, *_ in calls(f):
            for a in args:
                d = describe(f, a, depth=14)
                if re.search(r"call:decode_signature\((call:deref\()?arg:signature\)?\)\.1", d):
                    uses1.append(callee_name(c))
        ok = len(dec) == 1 and dec[0][1] == ["arg:signature"] and len(parse) == 1 and any(re.search(r"call:decode_signature\(arg:signature\)\.0", a) for a in parse[0][1]) and not uses1
        rep.check(ok, "SIB-backends", "%s::verify" % bk, where, "verify must strip the recovery bit, parse the stripped signature and ignore the recovery id; decode %s parse %s recid-users %s" % (dec, parse, uses1))
        n, f = F.find(r"^" + re.escape(pfx) + "sign$", ["fuel_crypto"], one=True)
        rep.saw(n)
        rets = [callee_name(c) for i, c, args, dest, *_ in calls(f) if dest == [0]]
        rep.check(rets == [SF + "encode_signature"], "SIB-backends", "%s::sign" % bk, "%s:%s" % (f["file"], f["line"]), "sign must return encode_signature(..); returns %s" % rets)
    S = "fuel_crypto::secp256::signature::Signature::"
    K1 = r"^fuel_crypto::secp256::backend::k1::(k256|secp256k1)::"
    for m, wargs in (("recover", [r"^arg:self\.0$", r"^arg:message$"]), ("verify", [r"^arg:self\.0$", r"^arg:public_key$", r"^arg:message$"]), ("sign", [r"^arg:secret$", r"^arg:message$"])):
        n, f = F.find(r"^" + re.escape(S) + m + "$", ["fuel_crypto"], one=True)
        rep.saw(n)
        cs = [(callee_name(c), [describe(f, a, depth=10) for a in args]) for i, c, args, *_ in calls(f) if callee_matches(c, K1)]
        ok = len(cs) == 1 and cs[0][0].endswith("::" + m) and len(cs[0][1]) == len(wargs) and all(re.search(w.replace("^", "").replace("$", ""), a) for w, a in zip(wargs, cs[0][1]))
        rep.check(ok, "SIB-backends", "Signature::%s->k1::%s" % (m, m), "%s:%s" % (f["file"], f["line"]), "Signature::%s must delegate to the k1 backend with its own arguments in order; found %s" % (m, cs))

    # ---------------- who
    bad = []
    nfn = 0
    for n, f in F.all_fns(["fuel_vm"]):
        nfn += 1
        for i, c, args, dest, tgt, line in calls(f):
            nm = callee_name(c)
            if re.match(r"^<?(k256|p256|secp256k1|ed25519_dalek|ecdsa|elliptic_curve)::", nm) or re.search(r" as (k256|p256|secp256k1|ed25519_dalek|ecdsa)::", nm):
                bad.append((n, nm, "%s:%s" % (f["file"], line)))
    for n, nm, where in bad:
        rep.bad("WHO-vm", "%s->%s" % (short(n), nm), where, "fuel_vm calls curve code directly (must go through fuel_crypto): %s calls %s" % (n, nm))
    if not bad:
        rep.ok("WHO-vm", "no direct curve callee in %d fuel_vm functions" % nfn)
    rep.floor("WHO-vm", "fuel_vm functions scanned", nfn, 1000)

    # ---------------- handlers
    for h, lib, okty in (("secp256k1_recover", r"^fuel_crypto::secp256::signature::Signature::recover$", "k1"),
                         ("secp256r1_recover", r"^fuel_crypto::secp256::backend::r1::p256::recover$", "r1")):
        n, f = F.find(r"^" + re.escape(VMC) + h + "$", ["fuel_vm"], one=True)
        rep.saw(n)
        where = "%s:%s" % (f["file"], f["line"])
        cfg = CFG(f)
        lc = [(i, [describe(f, a, depth=30) for a in args]) for i, c, args, *_ in calls(f) if callee_matches(c, lib)]
        ok = len(lc) == 1
        if ok:
            a = lc[0][1]
            ok = "read_bytes(arg:memory,arg:b)" in a[0] and "read_bytes(arg:memory,arg:c)" in a[1]
        rep.check(ok, "DOM-handlers", "%s:args(sig<-$rB,msg<-$rC)" % h, where, "library recover must receive the signature read at $rB and the message read at $rC; found %s" % lc)
        if not lc:
            continue
        # the switch on the library result
        tgt = f["bbs"][lc[0][0]]["t"][4]
        t = f["bbs"][tgt]["t"]
        if t[0] != "switch":
            rep.bad("DOM-handlers", "%s:match-on-result" % h, where, "the library result must be matched directly")
            continue
        arms = arm_regions(f, cfg, t, {0: "Ok", 1: "Err"})

        def facts_in(blocks):
            wr = [[describe(f, a, depth=16) for a in f["bbs"][b]["t"][2]] for b in blocks if f["bbs"][b]["t"][0] == "call" and callee_matches(f["bbs"][b]["t"][1], r"MemoryInstance::write_bytes$")]
            ce = [b for b in blocks if f["bbs"][b]["t"][0] == "call" and callee_matches(f["bbs"][b]["t"][1], r"internal::clear_err$")]
            se = [b for b in blocks if f["bbs"][b]["t"][0] == "call" and callee_matches(f["bbs"][b]["t"][1], r"internal::set_err$")]
            return wr, ce, se
        wo, co, so = facts_in(arms.get("Ok", set()))
        we, ce, se = facts_in(arms.get("Err", set()))
        okok = len(wo) == 1 and wo[0][1:3] == ["arg:owner", "arg:a"] and re.search(r"call:(recover)\(.*\)@Ok\.0|pub_key", wo[0][3]) is not None and len(co) == 1 and not so
        rep.check(okok, "DOM-handlers", "%s:Ok->write(key)+clear_err" % h, where, "Ok arm must write the recovered key at $rA (owner-checked) and clear $err; writes %s clear=%d set=%d" % (wo, len(co), len(so)))
        okerr = len(we) == 1 and we[0][1:3] == ["arg:owner", "arg:a"] and we[0][3] == "rep" and len(se) == 1 and not ce
        zero = [(describe(f, rv[1]), rv[2]) for i, j, p, rv, line in assignments(f) if rv[0] == "rep" and i in arms.get("Err", set())]
        okerr = okerr and zero == [("const:0", 64)]
        rep.check(okerr, "DOM-handlers", "%s:Err->write(zeros64)+set_err" % h, where, "Err arm must write 64 zero bytes at $rA and set $err; writes %s zero=%s clear=%d set=%d" % (we, zero, len(ce), len(se)))
        inc = call_blocks(f, r"internal::inc_pc$")
        rep.check(len(inc) == 1 and all(inc[0] in cfg.reachable_from(b) for b in co + se), "DOM-handlers", "%s:inc_pc-after-both-arms" % h, where, "$pc must advance after both outcomes")
    n, f = F.find(r"^" + re.escape(VMC) + "ed25519_verify$", ["fuel_vm"], one=True)
    rep.saw(n)
    where = "%s:%s" % (f["file"], f["line"])
    cfg = CFG(f)
    lc = [(i, [describe(f, a, depth=30) for a in args]) for i, c, args, *_ in calls(f) if callee_matches(c, r"^fuel_crypto::ed25519::verify$")]
    ok = len(lc) == 1 and "read_bytes(arg:memory,arg:a)" in lc[0][1][0] and "read_bytes(arg:memory,arg:b)" in lc[0][1][1] and re.search(r"call:read\(arg:memory,arg:c,arg:len\)", lc[0][1][2]) is not None
    rep.check(ok, "DOM-handlers", "ed25519_verify:args(key<-$rA,sig<-$rB,msg<-mem[$rC,len])", where, "found %s" % lc)
    isok = [i for i, c, args, *_ in calls(f) if callee_matches(c, r"Result::<T, E>::is_ok$") and "call:verify(" in describe(f, args[0], depth=8)]
    good = False
    if len(isok) == 1:
        bc = bool_consumers(f, isok[0])
        ce = call_blocks(f, r"internal::clear_err$")
        se = call_blocks(f, r"internal::set_err$")
        if len(bc) == 1 and len(ce) == 1 and len(se) == 1:
            _, t, fl = bc[0]
            rt, rf_ = cfg.reachable_incl(t), cfg.reachable_incl(fl)
            good = ce[0] in rt and ce[0] not in rf_ and se[0] in rf_ and se[0] not in rt
    rep.check(good, "DOM-handlers", "ed25519_verify:is_ok->clear_err;else->set_err", where, "$err must be cleared exactly when the library verification is Ok")
    # top-level handler wiring: Interpreter::{secp256k1_recover,...} call the free functions of the same name
    for h in ("secp256k1_recover", "secp256r1_recover", "ed25519_verify"):
        n, f = F.find(r"^fuel_vm::interpreter::crypto::<impl fuel_vm::interpreter::Interpreter<M, S, Tx, Ecal, V>>::%s$" % h, ["fuel_vm"], one=True)
        cs = [callee_name(c) for i, c, args, dest, *_ in calls(f) if dest == [0]]
        rep.check(cs == [VMC + h], "DOM-handlers", "Interpreter::%s->%s" % (h, h), "%s:%s" % (f["file"], f["line"]), "method must delegate to the free function of the same name; found %s" % cs)


def index_is_32(f, p):
    """place `sig[idx]`: idx is a local whose only definition is the constant 32 (or a constant index 32)."""
    from fvlib.core import root_of
    e = p[1]
    if isinstance(e, list) and e[0] == "i":
        r = root_of(f, e[1])
        return isinstance(r, tuple) and r[0] == "const" and r[1].get("v") == 32
    if isinstance(e, list) and e[0] == "ci":
        return e[1] == 32
    return False
