"""C04 Reported field offsets locate the field's bytes in the encoding — layout algebra and accessor composition.

  LAY-static      the static byte offset of every field of every canonical struct is derived from the codec's own field
                  order (the encode_static sequences extracted for C01) and a leaf-size model (integers 8, u128 16,
                  [u8; N] -> N rounded up to 8, Vec<_> 8, derived struct = sum of its fields (+8 for a prefix word),
                  spec-dependent Coin/Message fields 8 each). Every offset constant the library publishes must equal it:
                  the InputRepr / OutputRepr accessor tables (Some(constant) per kind, None elsewhere), the
                  `*_offset_static()` helpers of Script / Create / Upload / Upgrade / Blob (constant-folded), Mint's
                  offsets, UtxoId::LEN, TxPointer::LEN, StorageSlot::SLOT_SIZE. Adding, reordering or resizing a field
                  without updating an offset table is reported for all transactions at once.
  FORM-dynamic    without cached metadata: policies_offset = body_offset_end(); inputs_offset = policies_offset +
                  policies.size_dynamic(); outputs_offset = inputs_offset + sum(input.size()); witnesses_offset =
                  outputs_offset + sum(output.size()); X_offset_at(i) = X_offset + sum of the first i sizes, None beyond the
                  end; script_data_offset = script_offset + padded_len(script); each body_offset_end adds the padded
                  length of the last dynamic body field; the chain follows the codec's dynamic order
                  (body, policies, inputs, outputs, witnesses).
  FORM-predicate  Input::predicate_offset / predicate_data_offset: the fixed size of the kind, plus padded data for
                  message-data predicates, plus the padded predicate for predicate data; inputs_predicate_offset_at
                  adds inputs_offset_at(i) and pairs it with the padded predicate length.
  SIB-cached      every accessor's metadata branch returns the CommonMetadata field of its own name, and
                  CommonMetadata::compute fills each field from the accessor of the same name (prefix sums started at
                  tx.X_offset() and advanced by element.size() with checked_add); every precompute clears the cache
                  before its first call that reads `self`, so cached values are computed by the uncached branches.
Not decided: that slicing the encoding at the offset decodes to the field (follows from the above with C01, not
executed).
"""
import re

from fvlib.core import CFG, assignments, calls, callee_matches, callee_name, describe, describe_nf, match_commuted, short, switch_arms
from fvlib import codec
from fvlib.consteval import eval_fn, NotConst

TECHNIQUE = "static analysis over rustc MIR: static layout derived from the codec field sequences vs every published offset constant (constant folding), formula-shape rules for the dynamic accessors, cached/uncached sibling agreement"
T = "fuel_tx::transaction::types::"
SPEC8 = "spec-dependent field (u16 / Word / byte vector or their Empty<_> placeholder): 8 static bytes in every specification"


class Layout:
    def __init__(self, F, I):
        self.F, self.I = F, I
        self.memo = {}

    def size(self, ty):
        """static encoded size of a type, or None"""
        if ty in self.memo:
            return self.memo[ty]
        r = self._size(ty)
        self.memo[ty] = r
        return r

    def _size(self, ty):
        if ty in ("u8", "u16", "u32", "u64", "usize"):
            return 8
        if ty == "u128":
            return 16
        m = re.match(r"^\[u8; (\d+)\]$", ty)
        if m:
            n = int(m.group(1))
            return (n + 7) // 8 * 8
        if ty.startswith("std::vec::Vec<") or ty == "fuel_tx::transaction::policies::Policies":
            return 8
        if re.match(r"^<Specification as .*Specification>::\w+$", ty):
            return 8
        m = re.match(r"^fuel_tx::transaction::types::input::Empty<(.+)>$", ty)
        if m:
            return self.size(m.group(1))
        if ty.startswith("std::option::Option<") or ty.startswith("std::marker::PhantomData"):
            return None
        fs = self.fields(ty)
        if fs is None:
            return None
        tot = fs["base"]
        for nm, t, off, sz in fs["fields"]:
            if sz is None:
                return None
            tot += sz
        return tot

    def fields(self, ty, variant=None):
        """{"base": 0|8, "fields": [(name, type, offset, size)]} for a struct (or one enum variant) in codec order"""
        base_ty = re.sub(r"<.*>$", "", ty)
        try:
            adt = self.F.adt(base_ty)
        except Exception:
            return None
        key = None
        for k in self.I:
            if re.sub(r"<.*>$", "", k) == base_ty:
                key = k
        if key is None or "Serialize" not in self.I[key] or "encode_static" not in self.I[key]["Serialize"]:
            return None
        f = self.I[key]["Serialize"]["encode_static"][1]
        seq = codec.self_field_calls(f, "encode_static")
        is_enum = adt["kind"] == "Enum"
        if is_enum and variant is None:
            return None
        vinfo = [v for v in adt["variants"] if (v["name"] == variant if is_enum else True)][0]
        ftypes = {x[0]: x[1] for x in vinfo["fields"]}
        base = 8 if is_enum else (8 if self.has_prefix(f) else 0)
        out = []
        off = base
        for v, fld, cty, bb, line in seq:
            if (v if is_enum else None) != (variant if is_enum else None):
                continue
            t = ftypes.get(fld)
            sz = self.size(t) if t else None
            out.append((fld, t, off, sz))
            off = None if (off is None or sz is None) else off + sz
        return {"base": base, "fields": out}

    @staticmethod
    def has_prefix(f):
        return any(callee_matches(c, r"canonical::Serialize::encode$") and (c.get("self") or "").endswith("Repr") for i, c, *_ in calls(f))

    def offset(self, ty, field, variant=None):
        fs = self.fields(ty, variant)
        if fs is None:
            return None
        for nm, t, off, sz in fs["fields"]:
            if nm == field:
                return off
        return None


def accessor_table(F, fn, repr_adt):
    """{kind: constant | None} for an `XRepr::foo_offset(&self) -> Option<usize>` accessor"""
    f = F.fns("fuel_tx")[fn]
    cfg = CFG(f)
    names = {k: v["name"] for k, v in enumerate(F.adt(repr_adt)["variants"])}
    for b in sorted(cfg.reach):
        t = f["bbs"][b]["t"]
        if t[0] == "switch" and describe(f, t[1], depth=4).startswith("disc("):
            out = {}
            # arms may share blocks: evaluate per variant by following its target
            arms = {names.get(v, str(v)): tg for v, tg in t[2]}
            for nm in names.values():
                tg = arms.get(nm, t[3])
                vals = set()
                for bb in sorted(cfg.reachable_incl(tg)):
                    for s in f["bbs"][bb]["s"]:
                        if s[0] == "=" and s[1] == [0] and s[2][0] == "agg":
                            if s[2][2] == "Some":
                                o = s[2][3][0]
                                vals.add(o[1].get("v") if o[0] == "k" else "?")
                            elif s[2][2] == "None":
                                vals.add(None)
                    if f["bbs"][bb]["t"][0] in ("ret",):
                        break
                out[nm] = list(vals)[0] if len(vals) == 1 else ("?", sorted(map(str, vals)))
            return out
    return None


def run(F, rep, tier, allfacts):
    rep.rule("LAY-static", "published offset constants = offsets derived from the codec field order and the leaf-size model")
    rep.rule("FORM-dynamic", "uncached accessors compose the preceding section's offset with the sizes the codec writes, in codec order")
    rep.rule("FORM-predicate", "predicate / predicate-data offsets = fixed size (+ padded data) (+ padded predicate)")
    rep.rule("SIB-cached", "metadata branch returns the same-named cached field; compute() fills it from the same-named accessor")

    I = codec.impls(F)
    L = Layout(F, I)
    tx = F.fns("fuel_tx")

    # ---------------- published LEN constants
    for cname, ty in (("fuel_tx::transaction::types::utxo_id::UtxoId::LEN", T + "utxo_id::UtxoId"), ("fuel_tx::tx_pointer::TxPointer::LEN", "fuel_tx::tx_pointer::TxPointer"),
                      ("fuel_tx::transaction::types::storage::StorageSlot::SLOT_SIZE", T + "storage::StorageSlot")):
        rep.check(F.const(cname) == L.size(ty) and L.size(ty) is not None, "LAY-static", cname.rsplit("::", 2)[-2] + "::" + cname.rsplit("::", 1)[-1], None,
                  "%s = %s but the codec writes %s static bytes" % (cname, F.const(cname), L.size(ty)))

    # ---------------- Input accessors
    COIN, MSG, CON = T + "input::coin::Coin", T + "input::message::Message", T + "input::contract::Contract"

    def end(ty):
        s = L.size(ty)
        return None if s is None else 8 + s

    IN = {
        "utxo_id_offset": {"Coin": (COIN, "utxo_id"), "Contract": (CON, "utxo_id"), "Message": None},
        "owner_offset": {"Coin": (COIN, "owner"), "Message": (MSG, "recipient"), "Contract": None},
        "asset_id_offset": {"Coin": (COIN, "asset_id"), "Message": None, "Contract": None},
        "data_offset": {"Message": (MSG, "<end>"), "Coin": None, "Contract": None},
        "coin_predicate_offset": {"Coin": (COIN, "<end>"), "Message": None, "Contract": None},
        "contract_balance_root_offset": {"Contract": (CON, "balance_root"), "Coin": None, "Message": None},
        "contract_state_root_offset": {"Contract": (CON, "state_root"), "Coin": None, "Message": None},
        "contract_id_offset": {"Contract": (CON, "contract_id"), "Coin": None, "Message": None},
        "message_sender_offset": {"Message": (MSG, "sender"), "Coin": None, "Contract": None},
        "message_recipient_offset": {"Message": (MSG, "recipient"), "Coin": None, "Contract": None},
        "message_nonce_offset": {"Message": (MSG, "nonce"), "Coin": None, "Contract": None},
        "tx_pointer_offset": {"Coin": (COIN, "tx_pointer"), "Contract": (CON, "tx_pointer"), "Message": None},
    }
    nacc = 0
    for acc, want in IN.items():
        fn = T + "input::repr::InputRepr::" + acc
        if fn not in tx:
            rep.bad("LAY-static", "InputRepr::%s-present" % acc, None, "accessor missing")
            continue
        rep.saw(fn)
        got = accessor_table(F, fn, T + "input::repr::InputRepr")
        exp = {}
        for kind, spec in want.items():
            if spec is None:
                exp[kind] = None
            elif spec[1] == "<end>":
                exp[kind] = end(spec[0])
            else:
                o = L.offset(spec[0], spec[1])
                exp[kind] = None if o is None else 8 + o
        nacc += 1
        rep.check(got == exp and all(v is not None or want[k] is None for k, v in exp.items()), "LAY-static", "InputRepr::%s" % acc, "%s:%s" % (tx[fn]["file"], tx[fn]["line"]),
                  "accessor returns %s; the codec layout (8-byte input discriminant + fields in encode order) gives %s" % (got, exp))
    extra = [n for n in tx if re.match(re.escape(T) + r"input::repr::InputRepr::\w+_offset$", n) and n.rsplit("::", 1)[-1] not in IN]
    rep.check(not extra, "LAY-static", "InputRepr:all-accessors-modelled", None, "offset accessors without a layout row: %s" % extra)
    # ---------------- Output accessors
    OUT = T + "output::Output"
    OC = T + "output::contract::Contract"
    OUTT = {
        "to_offset": {"Coin": ("Coin", "to"), "Change": ("Change", "to"), "Variable": ("Variable", "to"), "Contract": None, "ContractCreated": None},
        "asset_id_offset": {"Coin": ("Coin", "asset_id"), "Change": ("Change", "asset_id"), "Variable": ("Variable", "asset_id"), "Contract": None, "ContractCreated": None},
        "contract_balance_root_offset": {"Contract": ("Contract", "0.balance_root"), "Coin": None, "Change": None, "Variable": None, "ContractCreated": None},
        "contract_state_root_offset": {"Contract": ("Contract", "0.state_root"), "Coin": None, "Change": None, "Variable": None, "ContractCreated": None},
        "contract_created_state_root_offset": {"ContractCreated": ("ContractCreated", "state_root"), "Coin": None, "Change": None, "Variable": None, "Contract": None},
        "contract_id_offset": {"ContractCreated": ("ContractCreated", "contract_id"), "Coin": None, "Change": None, "Variable": None, "Contract": None},
    }
    for acc, want in OUTT.items():
        fn = T + "output::repr::OutputRepr::" + acc
        if fn not in tx:
            rep.bad("LAY-static", "OutputRepr::%s-present" % acc, None, "accessor missing")
            continue
        rep.saw(fn)
        got = accessor_table(F, fn, T + "output::repr::OutputRepr")
        exp = {}
        for kind, spec in want.items():
            if spec is None:
                exp[kind] = None
            elif spec[1].startswith("0."):
                o0 = L.offset(OUT, "0", variant=spec[0])
                o1 = L.offset(OC, spec[1][2:])
                exp[kind] = None if o0 is None or o1 is None else o0 + o1
            else:
                exp[kind] = L.offset(OUT, spec[1], variant=spec[0])
        rep.check(got == exp and all(v is not None or want[k] is None for k, v in exp.items()), "LAY-static", "OutputRepr::%s" % acc, "%s:%s" % (tx[fn]["file"], tx[fn]["line"]),
                  "accessor returns %s; the codec layout gives %s" % (got, exp))
    extra = [n for n in tx if re.match(re.escape(T) + r"output::repr::OutputRepr::\w+_offset$", n) and n.rsplit("::", 1)[-1] not in OUTT]
    rep.check(not extra, "LAY-static", "OutputRepr:all-accessors-modelled", None, "offset accessors without a layout row: %s" % extra)

    # ---------------- transaction bodies
    CT = T + "chargeable_transaction::ChargeableTransaction"
    ct_fields = L.fields(CT + "<Body, MetadataBody>")
    order = [x[0] for x in ct_fields["fields"]] if ct_fields else None
    rep.check(order == ["body", "policies", "inputs", "outputs", "witnesses"], "FORM-dynamic", "codec-order=body,policies,inputs,outputs,witnesses", None, "ChargeableTransaction encodes %s" % order)
    BODY = {"script": "ScriptBody", "create": "CreateBody", "upload": "UploadBody", "upgrade": "UpgradeBody", "blob": "BlobBody"}
    ALIAS = {"bytecode_root": "root", "bytecode_witness_index": {"blob": "witness_index", "upload": "witness_index", "create": "bytecode_witness_index"}, "blob_id": "id",
             "upgrade_purpose": "purpose"}
    nstat = 0
    for n in sorted(tx):
        m = re.match(re.escape(T) + r"(\w+)::field::<impl fuel_tx::transaction::field::\w+ for .*>::(\w+)_offset_static$", n)
        if not m:
            continue
        kind, fld = m.group(1), m.group(2)
        body = T + "%s::%s" % (kind, BODY[kind])
        fs = L.fields(body)
        try:
            got = eval_fn(F, n)
        except NotConst as e:
            rep.bad("LAY-static", "%s::%s_offset_static" % (kind, fld), "%s:%s" % (tx[n]["file"], tx[n]["line"]), "not constant-foldable: %s" % e)
            continue
        al = ALIAS.get(fld, fld)
        if isinstance(al, dict):
            al = al.get(kind, fld)
        exp = None
        if fs:
            row = [x for x in fs["fields"] if x[0] == al]
            if row:
                ftype = row[0][1]
                if ftype.startswith("std::vec::Vec<") or L.is_bytes_wrapper(ftype) if hasattr(L, "is_bytes_wrapper") else False:
                    exp = None
                exp = row[0][2]
                # a dynamic field's bytes start where the static part of the whole transaction ends
                if is_dynamic(F, ftype):
                    bs = L.size(body)
                    first_dyn = [x for x in fs["fields"] if is_dynamic(F, x[1])][0][0]
                    exp = bs + 8 * 4 if (bs is not None and first_dyn == al) else None
        nstat += 1
        rep.check(exp is not None and got == exp, "LAY-static", "%s::%s_offset_static" % (kind, fld), "%s:%s" % (tx[n]["file"], tx[n]["line"]),
                  "%s_offset_static() folds to %s; the %s codec puts field `%s` at %s" % (fld, got, BODY[kind], al, exp))
    rep.floor("LAY-static", "*_offset_static helpers checked", nstat, 13)
    # Mint
    MINT = T + "mint::Mint"
    for fld in ("input_contract", "output_contract", "mint_amount", "mint_asset_id", "gas_price"):
        cands = [n for n in tx if re.match(re.escape(T) + r"mint::field::<impl .* for .*mint::Mint>::%s_offset$" % fld, n)]
        if len(cands) != 1:
            rep.bad("LAY-static", "Mint::%s_offset-present" % fld, None, "found %s" % cands)
            continue
        f = tx[cands[0]]
        exp = L.offset(MINT, fld)
        got = mint_offset(F, f, L)
        rep.check(exp is not None and got == exp, "LAY-static", "Mint::%s_offset" % fld, "%s:%s" % (f["file"], f["line"]), "%s_offset() = %s; Mint's codec puts `%s` at %s" % (fld, got, fld, exp))

    dynamic_rules(F, rep, tx, CT)
    cached_rules(F, rep, tx, CT)


def is_dynamic(F, ty):
    if ty.startswith("std::vec::Vec<"):
        return True
    try:
        a = F.adt(re.sub(r"<.*>$", "", ty))
    except Exception:
        return False
    if a["kind"] == "Struct":
        return any(is_dynamic(F, x[1]) for x in a["variants"][0]["fields"])
    return False


def mint_offset(F, f, L=None):
    """Mint offsets are `Self::prev_offset() + size` chains over &self; fold by following the calls"""
    memo = {}

    def ev(fn, depth=8):
        if depth == 0:
            return None
        from fvlib.core import defs_of_local
        env = {}
        bb = 0
        for _ in range(40):
            blk = fn["bbs"][bb]
            for s in blk["s"]:
                if s[0] == "=" and len(s[1]) == 1:
                    rv = s[2]
                    if rv[0] == "use":
                        env[s[1][0]] = val(fn, env, rv[1])
                    elif rv[0] == "bin":
                        a, b = val(fn, env, rv[2]), val(fn, env, rv[3])
                        o = re.sub(r"(WithOverflow|Unchecked)$", "", rv[1])
                        r = (a + b) if (o == "Add" and a is not None and b is not None) else None
                        env[s[1][0]] = ("pair", r) if rv[1].endswith("WithOverflow") else r
                    elif rv[0] in ("ref",):
                        env[s[1][0]] = "self"
            t = blk["t"]
            if t[0] == "call":
                nm = callee_name(t[1])
                args = [val(fn, env, a) for a in t[2]]
                r = None
                if nm.endswith("saturating_add") and all(isinstance(a, int) for a in args):
                    r = args[0] + args[1]
                elif nm in F.fns("fuel_tx") and re.search(r"(_offset|_static)$", nm):
                    r = ev(F.fns("fuel_tx")[nm], depth - 1)
                elif re.search(r"canonical::Serialize::size$|Serialize(>| for .*>)::size$", nm) and L is not None:
                    r = L.size(re.sub(r"^&", "", t[1].get("self") or ""))
                if len(t[3]) == 1:
                    env[t[3][0]] = r
                if t[4] is None:
                    return None
                bb = t[4]
            elif t[0] == "assert":
                bb = t[4]
            elif t[0] == "goto":
                bb = t[1]
            elif t[0] == "ret":
                return env.get(0)
            else:
                return None
        return None

    def val(fn, env, o):
        if o[0] == "k":
            v = o[1].get("v")
            return v if isinstance(v, int) else None
        p = o[1]
        v = env.get(p[0])
        if isinstance(v, tuple) and v[0] == "pair" and len(p) > 1:
            return v[1]
        return v
    return ev(f)


def dynamic_rules(F, rep, tx, CT):
    P = T + "chargeable_transaction::field::<impl fuel_tx::transaction::field::%s for " + CT + "<Body, MetadataBody>>::%s"

    def uncached(f):
        """blocks of f reachable when the metadata test fails (metadata is None) + the describe of the value returned there"""
        cfg = CFG(f)
        for b in sorted(cfg.reach):
            t = f["bbs"][b]["t"]
            if t[0] == "switch" and re.match(r"^disc\(arg:self\.metadata\)$", describe(f, t[1], depth=4)):
                arms = {v: tg for v, tg in t[2]}
                none_t = arms.get(0, t[3])
                some_t = arms.get(1, t[3])
                return cfg, cfg.reachable_incl(none_t) - cfg.reachable_incl(some_t), cfg.reachable_incl(some_t) - cfg.reachable_incl(none_t)
        return cfg, set(cfg.reach), set()

    def ret_desc(f, blocks, depth=30):
        out = []
        for i, c, args, dest, tgt, line in calls(f):
            if i in blocks and dest == [0]:
                out.append("call:%s(%s)" % (callee_name(c).rsplit("::", 1)[-1], ",".join(describe(f, a, depth=depth) for a in args)))
        for i, j, p, rv, line in assignments(f):
            if i in blocks and p == [0]:
                if rv[0] == "use":
                    out.append(describe(f, rv[1], depth=depth))
                elif rv[0] == "agg":
                    out.append("agg:%s(%s)" % (rv[2], ",".join(describe(f, a, depth=depth) for a in rv[3])))
        return out

    # sum of the element sizes with saturation: `.map(size).reduce(saturating_add).unwrap_or_default()` or `.map(size).fold(0, saturating_add)`
    SUM_T = r"(?:call:unwrap_or_default\(call:reduce\(call:map\(@X@,agg:\{closure#\d+\}\),fn:[^)]*saturating_add\)\)|call:fold\(call:map\(@X@,agg:\{closure#\d+\}\),const:0,fn:[^)]*saturating_add\))"

    def SUMF(x):
        return SUM_T.replace("@X@", x)
    rules = [
        ("Policies", "policies_offset", r"^call:body_offset_end\(arg:self\)$"),
        ("Inputs", "inputs_offset", r"^call:saturating_add\(call:policies_offset\(arg:self\),call:size_dynamic\(arg:self\.policies\)\)$"),
        ("Outputs", "outputs_offset", r"^call:saturating_add\(call:inputs_offset\(arg:self\)," + SUMF(r"call:iter\((call:deref\()?call:inputs\(arg:self\)\)?\)") + r"\)$"),
        ("Witnesses", "witnesses_offset", r"^call:saturating_add\(call:outputs_offset\(arg:self\)," + SUMF(r"call:iter\((call:deref\()?call:outputs\(arg:self\)\)?\)") + r"\)$"),
        ("Inputs", "inputs_offset_at", r"^agg:Some\(call:saturating_add\(call:inputs_offset\(arg:self\)," + SUMF(r"call:take\(call:iter\((call:deref\()?call:inputs\(arg:self\)\)?\),arg:\w+\)") + r"\)\)$"),
        ("Outputs", "outputs_offset_at", r"^agg:Some\(call:saturating_add\(call:outputs_offset\(arg:self\)," + SUMF(r"call:take\(call:iter\((call:deref\()?call:outputs\(arg:self\)\)?\),arg:\w+\)") + r"\)\)$"),
        ("Witnesses", "witnesses_offset_at", r"^agg:Some\(call:saturating_add\(call:witnesses_offset\(arg:self\)," + SUMF(r"call:take\(call:iter\((call:deref\()?call:witnesses\(arg:self\)\)?\),arg:\w+\)") + r"\)\)$"),
    ]
    for tr, m, want in rules:
        fn = P % (tr, m)
        f = tx.get(fn)
        if f is None:
            rep.bad("FORM-dynamic", m + "-present", None, "missing " + fn)
            continue
        rep.saw(fn)
        cfg, un, ca = uncached(f)
        ds = [d for d in ret_desc(f, un) if d != "agg:None()"]
        ok = len(ds) == 1 and match_commuted(want, ds[0]) is not None
        rep.check(ok, "FORM-dynamic", m, "%s:%s" % (f["file"], f["line"]), "uncached %s returns %s" % (m, ds))
        if m.endswith("_at"):
            from fvlib.core import guards, guard_region
            sect = m.split("_")[0]
            gs = [guard_region(g, r"^arg:idx$", r"call:len\(arg:self\.%s\)" % sect) for g in guards(f)]
            gs = [g for g in gs if g is not None]
            rep.check(gs == [{"lt"}] or gs == [{"eq", "gt"}], "FORM-dynamic", m + ":None-beyond-len", "%s:%s" % (f["file"], f["line"]), "index guards %s" % gs)
        # element size closure calls Serialize::size
        for cn, cf in F.find(re.escape(fn) + r"::\{closure#\d+\}$", ["fuel_tx"], required=False):
            cs = [callee_name(c).rsplit("::", 1)[-1] for i, c, *_ in calls(cf)]
            rep.check(cs == ["size"], "FORM-dynamic", m + ":element-size=Serialize::size", "%s:%s" % (cf["file"], cf["line"]), "closure calls %s" % cs)
    # script
    S = T + "script::field::<impl fuel_tx::transaction::field::%s for " + CT + "<" + T + "script::ScriptBody, " + T + "script::ScriptMetadata>>::%s"
    f = tx[S % ("ScriptData", "script_data_offset")]
    cfg, un, ca = uncached(f)
    ds = ret_desc(f, un)
    rep.check(len(ds) == 1 and match_commuted(r"^call:saturating_add\(call:script_offset\(arg:self\),call:unwrap_or\(call:padded_len\(call:as_slice\((call:deref\()?(arg:self\.body\.script|call:script\(arg:self\))\)*\),const:.*MAX\)\)$", ds[0]) is not None,
              "FORM-dynamic", "script_data_offset=script_offset+padded_len(script)", "%s:%s" % (f["file"], f["line"]), "returns %s" % ds)
    ends = {
        "script": (r"^call:saturating_add\(call:script_data_offset\(arg:self\),call:unwrap_or\(call:padded_len\(call:as_slice\((call:deref\()?(arg:self\.body\.script_data|call:script_data\(arg:self\))", "script_data_offset + padded_len(script_data)"),
    }
    for kind, (rx, txt) in ends.items():
        cands = [n for n in tx if re.match(re.escape(T) + kind + r"::field::<impl fuel_tx::transaction::field::ChargeableBody<.*> for .*>::body_offset_end$", n)]
        f = tx[cands[0]]
        ds = ret_desc(f, set(CFG(f).reach))
        rep.check(len(ds) == 1 and match_commuted(rx, ds[0]) is not None, "FORM-dynamic", "%s::body_offset_end=%s" % (kind, txt), "%s:%s" % (f["file"], f["line"]), "returns %s" % ds)
    # create / upload / blob / upgrade body ends: static start + element count * element size  (or constant)
    for kind, rx in (("create", r"storage_slots_offset_static\(\).*(storage_slots|SLOT_SIZE)"), ("upload", r"proof_set_offset_static\(\).*proof_set"), ("blob", r"(bytecode_witness_index|blob_id)_offset_static\(\)"),
                     ("upgrade", r"upgrade_purpose_offset_static\(\).*(purpose|size_static)")):
        cands = [n for n in tx if re.match(re.escape(T) + kind + r"::field::<impl fuel_tx::transaction::field::ChargeableBody<.*> for .*>::body_offset_end$", n)]
        f = tx[cands[0]]
        ds = ret_desc(f, set(CFG(f).reach), depth=24)
        rep.check(len(ds) >= 1 and all(re.search(rx, d) for d in ds), "FORM-dynamic", "%s::body_offset_end-from-static-start" % kind, "%s:%s" % (f["file"], f["line"]), "returns %s" % ds)

    # predicate offsets
    f = tx[T + "input::Input::predicate_offset"]
    cfg = CFG(f)
    names = {k: v["name"] for k, v in enumerate(F.adt(T + "input::Input")["variants"])}
    tab = {}
    for b in sorted(cfg.reach):
        t = f["bbs"][b]["t"]
        if t[0] == "switch" and describe(f, t[1], depth=4) == "disc(arg:self)":
            for v, tg in t[2]:
                nm = names.get(v)
                reg = cfg.reachable_incl(tg)
                cs = sorted({callee_name(f["bbs"][x]["t"][1]).rsplit("::", 1)[-1] for x in reg if f["bbs"][x]["t"][0] == "call" and callee_matches(f["bbs"][x]["t"][1], r"InputRepr::\w+_offset$|Option::<T>::map$")})
                reprs = set()
                for x in reg:
                    tb = f["bbs"][x]["t"]
                    if tb[0] == "call" and callee_matches(tb[1], r"InputRepr::\w+_offset$"):
                        v_ = codec.fold(f, tb[2][0])
                        reprs.add(v_[2] if isinstance(v_, tuple) and v_[0] == "variant" else "?")
                reprs = sorted(reprs)
                tab[nm] = (cs, reprs)
            none_names = [x for x in names.values() if x not in tab]
            for nm in none_names:
                tab[nm] = ([], [])
            break
    want = {"CoinPredicate": (["coin_predicate_offset"], ["Coin"]), "MessageCoinPredicate": (["data_offset"], ["Message"]), "MessageDataPredicate": (["data_offset", "map"], ["Message"]),
            "CoinSigned": ([], []), "Contract": ([], []), "MessageCoinSigned": ([], []), "MessageDataSigned": ([], [])}
    rep.check(tab == want, "FORM-predicate", "Input::predicate_offset:per-kind", "%s:%s" % (f["file"], f["line"]), "per-kind sources %s" % tab)
    cl = F.find(re.escape(T + "input::Input::predicate_offset") + r"::\{closure#\d+\}$", ["fuel_tx"], required=False)
    okc = False
    for cn, cf in cl:
        ds = ret_desc(cf, set(CFG(cf).reach))
        okc = okc or (len(ds) == 1 and re.match(r"^call:saturating_add\(arg:o,call:unwrap_or\(call:padded_len\((call:deref\()*arg:#1\.0\)*\),const:.*MAX\)\)$", ds[0]) is not None)
    cap = [describe(f, args[1], depth=10) for i, c, args, *_ in calls(f) if callee_matches(c, r"Option::<T>::map$")]
    rep.check(okc and cap == ["agg:{closure#0}(arg:self@MessageDataPredicate.0.data)"], "FORM-predicate", "MessageDataPredicate:+padded_len(data)", None, "closures %s capturing %s" % ([c[0] for c in cl], cap))
    # predicate_data_offset = predicate_offset() + padded_len(predicate) (saturating; usize::MAX when the padded length
    # overflows), written inline or through Option::map(closure): decided over the function and its closures together
    fname = T + "input::Input::predicate_data_offset"
    f = tx[fname]
    fam = [(fname, f)] + F.find(re.escape(fname) + r"::\{closure#\d+\}$", ["fuel_tx"], required=False)
    dom_calls, pl_args, uo = [], [], []
    for gn, g in fam:
        for i, c, args, *_ in calls(g):
            nm = callee_name(c).rsplit("::", 1)[-1]
            if nm in ("map", "branch", "from_residual", "deref", "unwrap_or", "as_ref", "into", "from", "and_then"):
                if nm == "unwrap_or":
                    uo.append(describe(g, args[1], depth=6))
                continue
            dom_calls.append(nm)
            if nm == "padded_len":
                d_ = describe_nf(F, g, args[0], depth=14)
                if gn != fname and re.search(r"arg:#1\.(\d+)", d_):
                    # captured by the closure: what the parent stored in that environment slot
                    k_ = int(re.search(r"arg:#1\.(\d+)", d_).group(1))
                    for i2, j2, p2, rv2, l2 in assignments(f):
                        if rv2[0] == "agg" and rv2[1].endswith(gn.rsplit("::", 1)[-1]) and k_ < len(rv2[3]):
                            d_ = describe_nf(F, f, rv2[3][k_], depth=14)
                pl_args.append(d_)
    okc = sorted(dom_calls) == ["padded_len", "predicate_offset", "saturating_add"] and len(pl_args) == 1 and ".predicate" in pl_args[0] and ".predicate_data" not in pl_args[0] \
        and len(uo) == 1 and re.search(r"MAX", uo[0]) is not None
    base = [callee_name(c).rsplit("::", 1)[-1] for i, c, *_ in calls(f) if callee_matches(c, r"Input::predicate_offset$")]
    rep.check(okc and base == ["predicate_offset"], "FORM-predicate", "predicate_data_offset=predicate_offset+padded_len(predicate)", "%s:%s" % (f["file"], f["line"]),
              "base %s; calls %s; padded_len of %s; unwrap_or %s" % (base, sorted(dom_calls), pl_args, uo))
    fn = P % ("Inputs", "inputs_predicate_offset_at")
    got = set()
    for cn, cf in F.find(re.escape(fn) + r"::\{closure#\d+\}.*$", ["fuel_tx"], required=False):
        for i, c, args, *_ in calls(cf):
            got.add(callee_name(c).rsplit("::", 1)[-1])
    need = {"predicate_offset", "inputs_offset_at", "saturating_add", "predicate_len", "zip"}
    rep.check(need <= got and ("padded_len_usize" in got or any("padded_len_usize" in describe(cf, a, depth=6) for cn, cf in F.find(re.escape(fn) + r"::\{closure#\d+\}.*$", ["fuel_tx"], required=False) for i, c, args, *_ in calls(cf) for a in args)),
              "FORM-predicate", "inputs_predicate_offset_at=(inputs_offset_at+predicate_offset, padded(predicate_len))", None, "closure callees %s" % sorted(got))


def cached_rules(F, rep, tx, CT):
    P = T + "chargeable_transaction::field::<impl fuel_tx::transaction::field::%s for " + CT + "<Body, MetadataBody>>::%s"
    for tr, m in (("Inputs", "inputs_offset"), ("Inputs", "inputs_offset_at"), ("Inputs", "inputs_predicate_offset_at"), ("Outputs", "outputs_offset"), ("Outputs", "outputs_offset_at"),
                  ("Witnesses", "witnesses_offset"), ("Witnesses", "witnesses_offset_at")):
        f = tx[P % (tr, m)]
        cfg = CFG(f)
        ok = False
        for b in sorted(cfg.reach):
            t = f["bbs"][b]["t"]
            if t[0] == "switch" and re.match(r"^disc\(arg:self\.metadata\)$", describe(f, t[1], depth=4)):
                arms = {v: tg for v, tg in t[2]}
                some_t, none_t = arms.get(1, t[3]), arms.get(0, t[3])
                some = cfg.reachable_incl(some_t) - cfg.reachable_incl(none_t)
                # the cached branch reads exactly metadata.common.<m>
                reads = set()
                for x in some:
                    for s in f["bbs"][x]["s"]:
                        if s[0] == "=":
                            for fld in re.findall(r"@Some\.0\.common\.(\w+)", describe(f, ["cp", s[1]], depth=2) + " " + str([describe(f, o, depth=6) for o in ([s[2][1]] if s[2][0] == "use" else [])]) + " " + (describe(f, ["cp", s[2][2]], depth=3) if s[2][0] == "ref" else "")):
                                reads.add(fld)
                ok = reads == {m}
                rep.check(ok, "SIB-cached", "%s:cached-branch-reads-metadata.common.%s" % (m, m), "%s:%s" % (f["file"], f["line"]), "cached branch reads %s" % sorted(reads))
                break
        else:
            rep.bad("SIB-cached", m + ":metadata-test-present", "%s:%s" % (f["file"], f["line"]), "no test of self.metadata")
    f = tx["fuel_tx::transaction::metadata::CommonMetadata::compute"]
    rep.saw("fuel_tx::transaction::metadata::CommonMetadata::compute")
    where = "%s:%s" % (f["file"], f["line"])
    agg = [dict(zip(rv[4], [describe(f, x, depth=16) for x in rv[3]])) for i, j, p, rv, line in assignments(f) if rv[0] == "agg" and rv[1].endswith("::CommonMetadata")]
    ok = len(agg) == 1
    if ok:
        a = agg[0]
        ok = a.get("inputs_offset") == "call:inputs_offset(arg:tx)" and a.get("outputs_offset") == "call:outputs_offset(arg:tx)" and a.get("witnesses_offset") == "call:witnesses_offset(arg:tx)" and \
            all(re.match(r"^call:with_capacity\(call:len\(call:%s\(arg:tx\)\)\)$" % s_, a.get(s_ + "_offset_at", "")) for s_ in ("inputs", "outputs", "witnesses")) and \
            "inputs_predicate_offset_at" in a and re.search(r"closure#0|call:with_capacity\(call:len\(call:inputs\(arg:tx\)\)\)", a["inputs_predicate_offset_at"]) is not None
    rep.check(ok, "SIB-cached", "compute:fields-from-same-named-accessors", where, "CommonMetadata literal: %s" % agg)
    # prefix-sum loops: start at tx.X_offset(), advance by checked_add(element.size())
    starts = sorted(callee_name(c).rsplit("::", 1)[-1] for i, c, args, dest, *_ in calls(f) if callee_matches(c, r"::(inputs|outputs|witnesses)_offset$") and dest and (lambda nm: nm == "offset")(__import__("fvlib.core", fromlist=["dbg_name"]).dbg_name(f, dest[0])))
    adds = [describe(f, args[1], depth=8) for i, c, args, *_ in calls(f) if callee_matches(c, r"checked_add$")]
    rep.check(starts == ["inputs_offset", "outputs_offset", "witnesses_offset"] and len(adds) == 3 and all(re.match(r"^call:size\(", a) for a in adds), "SIB-cached", "compute:prefix-sums(start=X_offset,step=size)", where,
              "loop starts %s, steps %s" % (starts, adds))
    # the cached copies are only equal to the uncached values if precompute builds them with the cache cleared
    for pn, pf in F.find(r"metadata::Cacheable.*::precompute$", ["fuel_tx"]):
        if "transaction::Transaction as" in pn:
            continue
        pcfg = CFG(pf)
        nones = [i for i, j, p, rv, line in assignments(pf) if p[1:] and isinstance(p[-1], list) and p[-1][0] == "f" and p[-1][2] == "metadata" and
                 ((rv[0] == "agg" and rv[2] == "None") or (rv[0] == "use" and describe(pf, rv[1], depth=4) == "agg:Option::None"))]
        early = [(callee_name(c).rsplit("::", 1)[-1], line) for i, c, args, dest, tgt, line in calls(pf)
                 if not callee_matches(c, r"ops::drop|drop_in_place") and any(re.match(r"^arg:self($|\.)", describe(pf, a, depth=4)) for a in args)
                 and not any(pcfg.dominates(x, i) for x in nones)]
        kind = re.search(r"types::(\w+)::", pn).group(1)
        rep.check(bool(nones) and not early, "SIB-cached", "%s::precompute:cache-cleared-before-any-accessor" % kind, "%s:%s" % (pf["file"], pf["line"]),
                  "values stored in the cache are read through accessors while the old cache is still installed: %s" % early)
    # the accessor is called (once) from compute itself (a loop pushing into the vector) or from its mapping closure
    pc = [n for n, ff in [("fuel_tx::transaction::metadata::CommonMetadata::compute", f)] + F.find(r"^fuel_tx::transaction::metadata::CommonMetadata::compute::\{closure#\d+\}$", ["fuel_tx"], required=False)
          for i, c, *_ in calls(ff) if callee_matches(c, r"::inputs_predicate_offset_at$")]
    rep.check(len(pc) == 1, "SIB-cached", "compute:predicate-offsets-from-inputs_predicate_offset_at", where, "closures calling the accessor: %s" % pc)
