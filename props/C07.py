"""C07 DA compression round-trip preserves transaction identity — skip-set clauses (analysed with the da-compression
feature enabled: fact configuration B).

  SIB-skip-agreement  for every type T with a generated `CompressedT`, the fields T keeps when compressing
                      (= the fields of CompressedT, per variant) and the fields its derived decompressor produces with
                      Default::default() are complementary: a field is dropped by compression if and only if
                      decompression fills it with its default. (The two derives read the same attribute; a drift
                      between them silently loses or invents data.)
  TAB-skip-safe       a field that a *derived* decompressor restores as Default must not influence the transaction id:
                      it has to be one of the fields prepare_sign zeroes before hashing (the malleable set decided for
                      C03), cached metadata, or a zero-sized marker. Types that derive Compress but leave decompression
                      to the embedding application's context (Coin, Message, Mint: restored from the UTXO / message
                      registry) must skip exactly the reviewed field lists; UtxoId uses its hand-written
                      CompressedUtxoId. A new `compress(skip)` on an id-relevant field of a fully derived type would
                      come back as Default and change the id for all transactions — reported here.
  (C03) TAB-malleable / DOM-id   the other half of TAB-skip-safe: the fields prepare_sign zeroes are exactly the
                      specification's malleable sets, and every id() — ChargeableTransaction through prepare_sign of its
                      body / inputs / outputs, Mint::id through its contract input *and* output — zeroes them on the
                      clone before hashing. Re-run here from props/C03.py and reported under their C03 rule names.
  DELEG-variants      Transaction / Input / Output compress and decompress variant-by-variant (CompressedX has the
                      same variants as X).
Not decided: registry key allocation and wrap-around histories (RegistryKey::next arithmetic over time), value equality of
the restored context data — not visible in code shape.
"""
import re

from fvlib.core import assignments, calls, callee_matches, callee_name, describe
from fvlib import codec
from props import C03

CFGS = ["A", "B"]
T = "fuel_tx::transaction::types::"
CONTEXT_RESTORED = {
    T + "input::coin::Coin": {"owner", "amount", "asset_id", "tx_pointer"},
    T + "input::message::Message": {"sender", "recipient", "amount", "data"},
    T + "mint::Mint": {"tx_pointer", "metadata"},
}
HANDWRITTEN = {T + "utxo_id::UtxoId": "compresses to CompressedUtxoId {tx_pointer, output_index} by hand (the tx id is replaced by the pointer of the creating transaction)"}
MARKERS = {T + "input::Empty": {"0"}}


class Forward:
    """Report adaptor: forwards the named rules of another property's module into this report."""

    def __init__(self, rep, keep):
        self.rep, self.keep = rep, keep

    def rule(self, name, desc):
        if name in self.keep:
            self.rep.rule(name, "(C03) " + desc)

    def ok(self, rule, key, detail=None):
        if rule in self.keep:
            self.rep.ok(rule, key, detail)

    def bad(self, rule, key, where=None, detail=None):
        if rule in self.keep:
            self.rep.bad(rule, key, where, detail)

    def check(self, cond, rule, key, where=None, detail=None):
        if rule in self.keep:
            self.rep.check(cond, rule, key, where, detail)
        return cond

    def floor(self, rule, what, count, minimum):
        if rule in self.keep:
            self.rep.floor(rule, what, count, minimum)

    def note(self, text):
        pass

    def sample(self, s):
        pass

    def saw(self, n):
        self.rep.saw(n)

    def anchor_missing(self, text):
        self.rep.anchor_missing(text)


def malleable_of(ty):
    """malleable field set (zeroed by prepare_sign) of a type, from C03's reviewed table"""
    out = set()
    for fn, (adt_rx, fields) in C03.SETS.items():
        if re.search(adt_rx, ty):
            out |= set(fields)
    return out


def run(F, rep, tier, allfacts):
    B = allfacts["B"]
    rep.rule("SIB-skip-agreement", "fields(T) - fields(CompressedT) = fields the derived decompressor fills with Default")
    rep.rule("TAB-skip-safe", "Default-restored fields ⊆ malleable ∪ metadata ∪ markers; context-restored types skip exactly the reviewed lists")
    rep.rule("DELEG-variants", "CompressedX mirrors the variants of X")
    ad = B.adts("fuel_tx")
    fns = B.fns("fuel_tx")
    npairs = 0
    for n, a in sorted(ad.items()):
        m = re.match(r"^(.*)::Compressed(\w+)$", n)
        if not m:
            continue
        orig = m.group(1) + "::" + m.group(2)
        if orig not in ad:
            rep.bad("SIB-skip-agreement", "orig-of:" + n, None, "no original type for %s" % n)
            continue
        o = ad[orig]
        key = orig.replace(T, "").replace("fuel_tx::", "")
        where = "%s:%s" % (o["file"], o["line"])
        npairs += 1
        if orig in HANDWRITTEN:
            rep.note("%s: %s" % (key, HANDWRITTEN[orig]))
            continue
        if o["kind"] == "Enum":
            rep.check([v["name"] for v in o["variants"]] == [v["name"] for v in a["variants"]], "DELEG-variants", key, where,
                      "variants %s vs compressed %s" % ([v["name"] for v in o["variants"]], [v["name"] for v in a["variants"]]))
        # derived decompressor?
        dn = [x for x in fns if re.search(r"_::<impl fuel_compression::traits::DecompressibleBy<Ctx> for %s(<.*>)?>::decompress_with::\{closure#0\}$" % re.escape(orig), x)]
        defaults = {}
        if dn:
            f = fns[dn[0]]
            rep.saw(dn[0])
            for i, j, p, rv, line in assignments(f):
                if rv[0] == "agg" and rv[1] == orig:
                    v = rv[2] if o["kind"] == "Enum" else None
                    names = rv[4] if rv[4] else [str(k) for k in range(len(rv[3]))]
                    d = set()
                    for nm, op in zip(names, rv[3]):
                        pr = codec.producer(f, op)
                        if pr and pr[0] == "default":
                            d.add(nm)
                    defaults[v] = d
        for vo in o["variants"]:
            v = vo["name"] if o["kind"] == "Enum" else None
            vc = [x for x in a["variants"] if (x["name"] == vo["name"] or o["kind"] == "Struct")]
            named = all(not x[0].isdigit() for x in vo["fields"])
            fo = [x[0] for x in vo["fields"]]
            fc = [x[0] for x in vc[0]["fields"]] if vc else []
            if named:
                skipped = set(fo) - set(fc)
                extra = set(fc) - set(fo)
            else:
                skipped = set(fo[len(fc):]) if len(fc) < len(fo) else set()
                extra = set()
            vk = key + (("::" + v) if v else "")
            rep.check(not extra, "SIB-skip-agreement", vk + ":compressed-fields-exist", where, "CompressedT has fields T lacks: %s" % sorted(extra))
            if dn and (v in defaults):
                okd = defaults[v] == skipped
                if not okd and o["kind"] == "Struct":
                    # defaults computed before an await live in the coroutine state: compare the multiset of
                    # `<FieldTy as Default>::default()` calls with the types of the dropped fields instead
                    ftypes = sorted(x[1] for x in vo["fields"] if x[0] in skipped)
                    dcalls = sorted((c.get("self") or "") for i, c, *_ in calls(f) if callee_matches(c, r"default::Default(>| for .*>)?::default$"))
                    okd = ftypes == dcalls
                    defaults[v] = set("<%s>" % t_ for t_ in dcalls)
                elif not okd:
                    ftypes = sorted(x[1] for vv in o["variants"] for x in vv["fields"] if x[0] not in [y[0] for cv in a["variants"] if cv["name"] == vv["name"] for y in cv["fields"]])
                    dcalls = sorted((c.get("self") or "") for i, c, *_ in calls(f) if callee_matches(c, r"default::Default(>| for .*>)?::default$"))
                    okd = ftypes == dcalls
                rep.check(okd, "SIB-skip-agreement", vk + ":skipped=defaulted", where,
                          "compression drops %s; derived decompression defaults %s" % (sorted(skipped), sorted(defaults[v])))
                allowed = malleable_of(orig) | {"metadata"} | MARKERS.get(orig, set())
                if o["kind"] == "Enum" and orig.endswith("output::Output"):
                    allowed = set(C03.OUT_VARIANTS.get(v, set()))
                rep.check(skipped <= allowed, "TAB-skip-safe", vk + ":defaulted⊆malleable", where,
                          "fields restored as Default by the derived decompressor must be malleable (zeroed by prepare_sign) or cache: %s are not (malleable set %s)" % (sorted(skipped - allowed), sorted(allowed)))
            elif not dn:
                want = CONTEXT_RESTORED.get(orig)
                if want is None:
                    rep.check(not skipped, "TAB-skip-safe", vk + ":no-derived-decompress=>reviewed-skip-list", where,
                              "type has no derived decompressor and skips %s without a reviewed context-restoration entry" % sorted(skipped))
                else:
                    rep.check(skipped == want, "TAB-skip-safe", vk + ":context-restored-fields", where, "skipped %s; reviewed context-restored list %s" % (sorted(skipped), sorted(want)))
    rep.floor("SIB-skip-agreement", "T/CompressedT pairs", npairs, 24)
    C03.run(F, Forward(rep, {"TAB-malleable", "DOM-id"}), tier, allfacts)
